"""C18 -- repozo recover reproduces the backed-up data file byte for byte.

Correspondence: seeded scenarios (commits, packs, a transaction in progress, backups with every
option combination at scripted dates) are run on the REAL `ZODB.scripts.repozo.main(argv)` against a
live FileStorage, then recover at every date, verify, and every single-file damage followed by
verify and recover.  The same scenario -- with the source bytes observed on the real run -- is fed to
the Lean model (Drivers/Repozo.lean) and the observations are diffed.

Direct oracle (independent of the model): the harness's own record of the committed bytes of
Data.fs at every backup date and of which backups the repository must still hold; see `Oracle`.
"""
import gzip
import hashlib
import io
import json
import logging
import os
import re
import shutil
import sys
import time as _time

sys.path.insert(0, os.path.dirname(os.path.abspath(__file__)))
from common import Check, InfraError, run_driver, ddmin, VERIF  # noqa: E402

logging.disable(logging.CRITICAL)

START = 1_700_000_033          # 2023-11-14 22:13:53 UTC: backups straddle a minute boundary
STALE_FILE = b'\xde\xad'
STALE_INDEX = b'\xbe'
DATA_RE = re.compile(r'^(\d{4})-(\d\d)-(\d\d)-(\d\d)-(\d\d)-(\d\d)\.((?:delta)?fsz?)$')
SIDE_RE = re.compile(r'^(\d{4})-(\d\d)-(\d\d)-(\d\d)-(\d\d)-(\d\d)\.(dat|index)$')


# ------------------------------------------------------------------ real code plumbing
class FakeTime:
    """stands in for the `time` module inside ZODB.scripts.repozo: `time.gmtime()` is scripted"""

    def __init__(self):
        self.now = START
        self.ticks = None       # e.g. [1] / [0, 1]: seconds the clock advances after the k-th reading
        self.k = 0
        self.readings = []      # the readings of the current repozo run

    def gmtime(self, *a):
        if a:
            return _time.gmtime(a[0])
        t = self.now
        self.readings.append(t)
        if self.ticks:
            # the clock moves on WHILE repozo runs (opening a big Data.fs takes seconds): every
            # reading may already show a later second than the previous one
            self.now += self.ticks[self.k % len(self.ticks)]
            self.k += 1
        return _time.gmtime(t)

    def time(self):
        return float(self.now)

    def __getattr__(self, n):
        return getattr(_time, n)


_FT = FakeTime()


class _NoSyncOS:
    """stands in for `os` inside repozo: fsync is a no-op (C18 has no crash model; the scratch
    directory is thrown away), everything else is the real module"""

    def fsync(self, fd):
        return None

    def __getattr__(self, n):
        return getattr(os, n)


def repozo_mod():
    import ZODB.scripts.repozo as rz
    if rz.time is not _FT:
        rz.time = _FT
        rz.os = _NoSyncOS()
        fsmod = sys.modules.get('ZODB.FileStorage.FileStorage')
        if fsmod is not None and hasattr(fsmod, 'fsync'):
            fsmod.fsync = lambda fd: None
    return rz


def run_main(argv):
    """ZODB.scripts.repozo.main(argv) in-process -> (status, stdout bytes, message)
    status: 0 | 'exit' (SystemExit with a message / non-zero code) | 'exc:<Type>'"""
    rz = repozo_mod()
    out = io.BytesIO()
    w = io.TextIOWrapper(out)
    err = io.StringIO()
    so, se = sys.stdout, sys.stderr
    sys.stdout, sys.stderr = w, err
    msg = ''
    try:
        try:
            rz.main(list(argv))
            status = 0
        except SystemExit as e:
            if e.code in (None, 0):
                status = 0
            else:
                status, msg = 'exit', str(e.code)
        except Exception as e:                      # uncaught inside repozo: traceback + exit 1
            status, msg = 'exc:' + type(e).__name__, repr(e)
        w.flush()
        w.detach()
    finally:
        sys.stdout, sys.stderr = so, se
    if status != 0 and ('-B' in argv or '--backup' in argv):
        # a real repozo process is gone after an uncaught exception; in-process, the frames of the dead
        # run may keep an unclosed (gzip) file on tmp.tmp alive, and its finalizer would write into that
        # inode later -- when it has become the NEXT backup's file.  Finalize such leftovers now.
        import gc
        gc.collect()
    return status, out.getvalue(), msg + err.getvalue()


def err_kind(status, msg):
    if status == 0:
        return 'ok'
    if status.startswith('exc:'):
        return {'exc:KeyError': 'err:KeyError', 'exc:AssertionError': 'err:Assertion'}.get(
            status, 'err:Crash(%s)' % status[4:])
    if 'is missing' in msg:
        return 'err:VerifyMissing'
    if 'should be' in msg:
        return 'err:VerifySize'
    if 'has checksum' in msg:
        return 'err:VerifySum'
    if 'No files in repository' in msg:
        return 'err:NoFiles'
    if 'Cannot overwrite' in msg:
        return 'err:WouldOverwrite'
    return 'err:OSError'


def fnv64(b):
    """digest printed in observations (Adler-32: C speed here, two small accumulators in the driver)"""
    import zlib
    return zlib.adler32(b) & 0xFFFFFFFF


def d14(t):
    return _time.strftime('%Y%m%d%H%M%S', _time.gmtime(t))


def dashed(t, fields=6):
    return '-'.join(_time.strftime('%Y-%m-%d-%H-%M-%S', _time.gmtime(t)).split('-')[:fields])


def when_of(date_str):
    """a -D argument (yyyy-mm-dd[-hh[-mm[-ss]]]) as the model's bound: names are compared as
    strings, so a partial date admits exactly the files strictly before its zero-padded completion"""
    parts = date_str.split('-')
    n = int(''.join(parts + ['00'] * (6 - len(parts))))
    return ('le:%d' if len(parts) == 6 else 'lt:%d') % n


def hexs(b):
    return b.hex() if b else '-'


def read_content(path):
    """uncompressed content of a data file, or None when it cannot be read back"""
    try:
        if path.endswith('fsz'):
            with gzip.open(path, 'rb') as f:
                return f.read()
        with open(path, 'rb') as f:
            return f.read()
    except Exception:
        return None


def model_name(fname):
    m = DATA_RE.match(fname)
    return ''.join(m.groups()[:6]) + '.' + m.group(7)


def listing(repo):
    """canonical listing of the repository directory, same format as the driver's `ls`"""
    files, dats, idxs, other = [], [], [], []
    names = sorted(os.listdir(repo))
    contents = {}
    for n in names:
        if DATA_RE.match(n):
            c = read_content(os.path.join(repo, n))
            contents[n] = c
            files.append('%s:%s' % (model_name(n), '?' if c is None else len(c)))
    for n in names:
        m = SIDE_RE.match(n)
        if DATA_RE.match(n):
            continue
        if not m:
            other.append(n)
        elif m.group(7) == 'dat':
            ls = []
            with open(os.path.join(repo, n)) as f:
                for line in f:
                    try:
                        fn, s, e, sm = line.rsplit(None, 3)
                    except ValueError:
                        ls.append('malformed')
                        continue
                    b = os.path.basename(fn)
                    if b not in contents:
                        st = 'nofile'
                    elif contents[b] is not None and hashlib.md5(contents[b]).hexdigest() == sm:
                        st = 'ok'
                    else:
                        st = 'bad'
                    ls.append('%s:%s:%s:%s' % (model_name(b), s, e, st))
            dats.append('%s[%s]' % (''.join(m.groups()[:6]), ','.join(ls)))
        else:
            from ZODB.fsIndex import fsIndex
            try:
                pos = fsIndex.load(os.path.join(repo, n))['pos']
            except Exception:
                pos = '?'
            idxs.append('%s:%s' % (''.join(m.groups()[:6]), pos))
    s = 'files=%s dats=%s idxs=%s' % (','.join(files), ';'.join(dats), ','.join(idxs))
    return s, other


def scan_index(path):
    """(pos, {oid: offset}) by a full scan of a data file (no index file involved)"""
    import ZODB.FileStorage  # noqa: F401
    from ZODB.fsIndex import fsIndex
    fsmod = sys.modules['ZODB.FileStorage.FileStorage']
    idx = fsIndex()
    with open(path, 'rb') as f:
        pos, _oid, ltid = fsmod.read_index(f, path, idx, {}, read_only=True)
    return pos, dict(idx.items()), ltid


def index_status(outpath, deep):
    """'none' | 'stale' | 'ok' | 'bad:<why>' for <output>.index against a full scan of <output>"""
    from ZODB.fsIndex import fsIndex
    ip = outpath + '.index'
    if not os.path.exists(ip):
        return 'none'
    with open(ip, 'rb') as f:
        if f.read() == STALE_INDEX:
            return 'stale'
    try:
        info = fsIndex.load(ip)
        pos, idx = info['pos'], dict(info['index'].items())
    except Exception as e:
        return 'bad:load(%s)' % type(e).__name__
    try:
        spos, sidx, sltid = scan_index(outpath)
    except Exception as e:
        return 'bad:scan(%s)' % type(e).__name__
    if pos != spos:
        return 'bad:pos'
    if idx != sidx:
        return 'bad:index'
    if deep:
        # opening the recovered file WITH the restored index answers like a full scan
        from ZODB.FileStorage import FileStorage
        try:
            fs = FileStorage(outpath, read_only=True)
            try:
                if fs._pos != spos or fs._ltid != sltid or dict(fs._index.items()) != sidx:
                    return 'bad:open'
                with open(outpath, 'rb') as f:
                    raw = f.read()
                for oid, off in sidx.items():
                    data, serial = fs.load(oid, '')
                    if serial != raw[off + 8: off + 16]:
                        return 'bad:load-serial'
            finally:
                fs.close()
            if deep == 'rw':
                # ... and so does a normal read-write open next to whatever siblings lie around
                fs = FileStorage(outpath)
                try:
                    if fs._pos != spos or fs._ltid != sltid or dict(fs._index.items()) != sidx:
                        return 'bad:open-rw'
                finally:
                    fs.close()
                with open(outpath, 'rb') as f:
                    if f.read() != raw:
                        return 'bad:open-rw-changed-file'
        except Exception as e:
            return 'bad:open(%s)' % type(e).__name__
    return 'ok'


def usable_with_index(outpath):
    """None when opening `outpath` next to whatever <outpath>.index holds (stale, truncated, …)
    answers exactly like a full scan; else a short reason.  The index is only a cache."""
    from ZODB.FileStorage import FileStorage
    try:
        spos, sidx, sltid = scan_index(outpath)
        for ro in (True, False):
            fs = FileStorage(outpath, read_only=ro)
            try:
                if fs._pos != spos or fs._ltid != sltid or dict(fs._index.items()) != sidx:
                    return 'open(read_only=%s) differs from a full scan' % ro
            finally:
                fs.close()
    except Exception as e:
        return 'open raised %s' % type(e).__name__
    return None


def nvar_all(fin):
    return fin.get('max_damages') is None


def model_idx(st):
    return 'bad' if st.startswith('bad') else st


# ------------------------------------------------------------------ scenario generator
FLAGSETS = ['-', 'F', 'Q', 'z', 'k', 'FQ', 'Fz', 'Fk', 'Qz', 'Qk', 'zk', 'FQz', 'FQk', 'Fzk', 'Qzk', 'FQzk']


def gen_scenario(rng, size):
    """a list of steps; the final phase (recover / verify / damages) is derived from the run"""
    prof_q = rng.choice(['never', 'always', 'mixed', 'mixed'])
    prof_z = rng.choice(['never', 'always', 'mixed'])
    prof_k = rng.choice(['never', 'never', 'mixed', 'often'])
    steps = [dict(op='commit', recs=[[0, rng.choice([1, 30, 120])]])]
    if rng.random() < 0.12:
        steps = []                       # very small database: only the magic bytes at the first backup
    inprog = False
    nb = 0
    for _ in range(size):
        r = rng.random()
        if inprog:
            if r < 0.55:
                steps.append(mk_backup(rng, prof_q, prof_z, prof_k))
                nb += 1
            elif inprog == 'torn':
                steps.append(dict(op='untorn'))
                inprog = False
            elif r < 0.80:
                steps.append(dict(op='finish'))
                inprog = False
            else:
                steps.append(dict(op='abort'))
                inprog = False
            continue
        if r < 0.34:
            n = rng.choice([1, 1, 2, 3])
            for _ in range(n):
                recs = [[rng.choice([0, 1, 1, 2, 3, 4]), rng.choice([1, 5, 40, 40, 150, 400])]
                        for _ in range(rng.choice([1, 1, 2]))]
                r2 = rng.random()
                st = dict(op='commit', recs=recs)
                if r2 < 0.03:
                    recs[-1][1] = rng.choice([16300, 17000, 33000])    # beyond one READCHUNK
                elif r2 < 0.06:
                    recs[-1][1] = -16384                               # end exactly on a chunk boundary
                elif r2 < 0.075:
                    recs[-1][1] = rng.choice([66000, 70000])           # grows by more than 64 KiB
                elif r2 < 0.15:
                    st['recs'] = []                                    # an empty transaction
                if rng.random() < 0.1:
                    st['meta'] = rng.choice([1, 40, 300])              # user / description / extension
                steps.append(st)
        elif r < 0.46:
            steps.append(dict(op='pack', back=rng.choice([0, 0, 1, 2, 5]), gc=rng.random() < 0.4))
            if nb and rng.random() < 0.3:
                # the packed file grows back to exactly the size the last backup recorded
                steps.append(dict(op='regrow'))
                steps.append(dict(op='backup', flags=rng.choice(['Q', 'Q', 'Qz', '-']), dt=rng.choice([1, 2])))
                nb += 1
        elif r < 0.55:
            recs = [[rng.choice([1, 2, 5]), rng.choice([1, 40, 300])]]
            steps.append(dict(op='begin', recs=recs if rng.random() < 0.85 else []))
            inprog = True
        elif r < 0.58:
            # a torn tail: part of a transaction record appended to the file (crashed writer)
            steps.append(dict(op='torn', frac=rng.choice([0.01, 0.1, 0.5, 0.9, 0.99]), c=rng.random() < 0.5))
            inprog = 'torn'
        elif r < 0.60 and nb:
            steps.append(dict(op='moverepo'))
        else:
            steps.append(mk_backup(rng, prof_q, prof_z, prof_k))
            nb += 1
            if rng.random() < 0.15:
                # a commit, then a second backup of the same kind within the same second: refused
                steps.append(dict(op='collide', recs=[[rng.choice([1, 2, 6]), rng.choice([1, 40, 300])]]))
    if nb < 2:
        steps.append(mk_backup(rng, prof_q, prof_z, prof_k))
        steps.append(dict(op='commit', recs=[[1, 40]]))
        steps.append(mk_backup(rng, prof_q, prof_z, prof_k))
    return steps


def mk_backup(rng, prof_q, prof_z, prof_k):
    fl = ''
    if rng.random() < 0.12:
        fl += 'F'
    if prof_q == 'always' or (prof_q == 'mixed' and rng.random() < 0.5):
        fl += 'Q'
    if prof_z == 'always' or (prof_z == 'mixed' and rng.random() < 0.5):
        fl += 'z'
    if (prof_k == 'often' and rng.random() < 0.6) or (prof_k == 'mixed' and rng.random() < 0.25):
        fl += 'k'
    st = dict(op='backup', flags=fl or '-', dt=rng.choice([1, 1, 1, 2, 3, 9]))
    if rng.random() < 0.006:
        st['dt'] = 0        # within the same second as the previous backup: outside the guarantee, the
        #                     rest of the scenario is only compared with the model (name collisions)
    if rng.random() < 0.12:
        st['also2'] = rng.choice(['-', 'z', 'F', 'Fz'])     # feed a second repository too (slow mode)
    return st


# ------------------------------------------------------------------ the direct oracle's record
class Entry:
    """one backup run that produced a file, as recorded by the harness itself"""

    def __init__(self, t, snapshot, full, fname, in_progress, after_pack):
        self.t, self.snapshot, self.full, self.fname = t, snapshot, full, fname
        self.in_progress, self.after_pack = in_progress, after_pack
        self.excluded = False      # taken by quick mode outside QuickDetectable (no guarantee)


class Run:
    """executes one scenario on the real code; collects model ops with the real observations, the
    oracle's violations, and statistics"""

    def __init__(self, ck_tmp, case, tag, counts):
        self.case = case
        self.dir = os.path.join(ck_tmp, 'sc-%s' % tag)
        os.makedirs(self.dir)
        self.fsn = os.path.join(self.dir, 'Data.fs')
        self.repo = os.path.join(self.dir, 'repo')
        os.mkdir(self.repo)
        self.out = os.path.join(self.dir, 'out', 'Recovered.fs')
        os.mkdir(os.path.dirname(self.out))
        self.lines = []          # (model op, real observation or None, coarse?)
        self.violations = []     # (signature, what)
        self.counts = counts
        self.held = []           # Entry list, oldest first: what the repository must still hold
        self.all_backups = []    # (t, snapshot) of every backup run, no-ops included
        self.m_committed = b''   # what the model has been told so far
        self.m_tail = b''
        self.nontrivial = False
        self.pack_since_backup = False
        self.trace = []
        self.excluded_notes = []
        self.outside = None
        self.orng = __import__('random').Random(case.get('final', {}).get('seed', 0) * 31 + 7)
        self.paths = case.get('paths') or 'abs'
        self.repo2 = None        # a second repository fed from the same Data.fs (oracle only)
        self.held2 = []
        self.nmoved = 0
        if self.paths == 'space':
            os.rmdir(self.repo)
            self.repo = os.path.join(self.dir, 'my repo')
            os.mkdir(self.repo)
        self.link = os.path.join(self.dir, 'repo-link')
        if self.paths == 'symlink':
            os.symlink(self.repo, self.link)

    def count(self, k, n=1):
        self.counts[k] = self.counts.get(k, 0) + n

    # ---- command lines: every spelling of the options and of the paths ------------------------
    LONG = {'-B': '--backup', '-R': '--recover', '-V': '--verify', '-F': '--full', '-Q': '--quick',
            '-z': '--gzip', '-k': '--kill-old-on-full', '-w': '--with-verify', '-v': '--verbose'}
    LONGV = {'-r': '--repository', '-f': '--file', '-D': '--date', '-o': '--output'}

    def path_arg(self, path, is_dir=False):
        """`path` (absolute, under self.dir) as the scenario's path style spells it"""
        st = self.paths
        if is_dir and st == 'symlink' and os.path.realpath(self.link) == os.path.realpath(path):
            path = self.link
        if st in ('rel', 'relslash'):
            path = os.path.relpath(path, self.dir)
            if st == 'relslash':
                path = './' + path
        if is_dir and st in ('slash', 'relslash'):
            path += '/'
        return path

    def argv(self, mode, flags=(), repo=None, **valued):
        """-B/-R/-V command line; short and long option names, -v, and option order vary"""
        r = self.orng
        items = [[mode]] + [[f] for f in flags]
        items.append(['-r', self.path_arg(self.repo, True) if repo is None or repo == self.repo
                      else self.path_arg(repo, True)])
        for k, v in valued.items():
            if v is not None:
                items.append(['-' + k, self.path_arg(v) if k in ('f', 'o') else v])
        if r.random() < 0.15:
            items.append(['-v'])
        if r.random() < 0.3:
            r.shuffle(items)
        out = []
        for it in items:
            if len(it) == 1:
                out.append(self.LONG[it[0]] if r.random() < 0.3 else it[0])
            elif r.random() < 0.3:
                out.append('%s=%s' % (self.LONGV[it[0]], it[1]))
            else:
                out += it
        return out

    def emit(self, op, obs):
        self.lines.append((op, obs))

    def violation(self, sig, what):
        if self.outside:
            # after a step outside the stated guarantee nothing is judged any more (the model is
            # still compared with the code); what the code did is described in evidence
            self.count('not-judged(%s):%s' % (self.outside, sig.split(':')[1]))
            if len(self.excluded_notes) < 6:
                self.excluded_notes.append(what[:300])
            return
        self.violations.append((sig, what))

    # ---- source ------------------------------------------------------------------------
    def source(self):
        with open(self.fsn, 'rb') as f:
            raw = f.read()
        end = self.fs.getSize()
        return raw[:end], raw[end:]

    def sync_source(self):
        c, t = self.source()
        if c != self.m_committed:
            if c.startswith(self.m_committed):
                self.emit('app ' + hexs(c[len(self.m_committed):]), 'ok c=%d r=%d' % (len(c), len(c)))
            else:
                self.emit('pack ' + hexs(c), 'ok c=%d r=%d' % (len(c), len(c)))
            self.m_committed, self.m_tail = c, b''
        if t != self.m_tail:
            self.emit('tail ' + hexs(t), 'ok c=%d r=%d' % (len(c), len(c) + len(t)))
            self.m_tail = t

    # ---- steps -------------------------------------------------------------------------
    def execute(self):
        from ZODB.FileStorage import FileStorage
        self.fs = FileStorage(self.fsn, create=True)
        self.txn = None
        self.ntid = 0
        self.tids = []
        _FT.now = START
        _FT.ticks = self.case.get('tick') or None
        _FT.k = 0
        cwd = os.getcwd()
        os.chdir(self.dir)               # relative path styles are relative to the scenario directory
        try:
            self.sync_source()
            for st in self.case['steps']:
                getattr(self, 'do_' + st['op'])(st)
            self.final_phase()
        finally:
            try:
                if self.txn is not None and self.txn != 'torn':
                    self.fs.tpc_abort(self.txn)
                self.fs.close()
            except Exception:
                pass
            os.chdir(cwd)
            shutil.rmtree(self.dir, ignore_errors=True)

    def _begin_store_vote(self, recs, meta=0):
        from ZODB.Connection import TransactionMetaData
        from ZODB.TimeStamp import TimeStamp
        from ZODB.tests.MinPO import MinPO
        from ZODB.tests.StorageTestBase import zodb_pickle
        from ZODB.utils import p64, z64
        self.ntid += 1
        tid = TimeStamp(2020, 1, 1, 0, self.ntid // 60, self.ntid % 60).raw()
        if meta:
            t = TransactionMetaData('u' * meta, 'd' * (meta // 2), {'e': 'x' * (meta // 3)})
        else:
            t = TransactionMetaData()
        self.fs.tpc_begin(t, tid=tid)
        seen = set()
        for oid, size in recs:
            if oid in seen:
                continue
            seen.add(oid)
            try:
                prev = self.fs.getTid(p64(oid))
            except KeyError:
                prev = z64
            if size < 0:
                # fill: make the file end exactly at the next multiple of |size| bytes (repozo reads
                # and copies in chunks of READCHUNK = 16384 bytes); only as the last record
                unit = -size
                tag = 'v%d-' % self.ntid
                over = len(zodb_pickle(MinPO(tag + 'x' * 1000))) - 1000
                pos = self.fs.getSize() + 23 + 8 + 42 * len(seen) + getattr(self, '_tsize', 0)
                target = (pos + over + 300 + unit - 1) // unit * unit
                size = target - pos - over
            data = zodb_pickle(MinPO('v%d-' % self.ntid + 'x' * size))
            self._tsize = getattr(self, '_tsize', 0) + len(data)
            self.fs.store(p64(oid), prev, data, '', t)
        self._tsize = 0
        self.fs.tpc_vote(t)
        return t, tid

    def do_commit(self, st):
        if self.txn is not None:
            return
        t, tid = self._begin_store_vote(st['recs'], st.get('meta', 0))
        self.fs.tpc_finish(t)
        self.tids.append(tid)
        self.count('op:commit' + ('(empty transaction)' if not st['recs'] else ''))
        self.sync_source()

    def do_begin(self, st):
        if self.txn is not None:
            return
        self.txn, self.txn_tid = self._begin_store_vote(st['recs'])
        self.count('op:begin-in-progress')
        self.sync_source()

    def do_finish(self, st):
        if self.txn is None or self.txn == 'torn':
            return
        self.fs.tpc_finish(self.txn)
        self.tids.append(self.txn_tid)
        self.txn = None
        self.count('op:finish')
        self.sync_source()

    def do_abort(self, st):
        if self.txn is None or self.txn == 'torn':
            return
        self.fs.tpc_abort(self.txn)
        self.txn = None
        self.count('op:abort')
        self.sync_source()

    def do_torn(self, st):
        """a crashed writer: the first part of a transaction record sits after the committed end"""
        if self.txn is not None or getattr(self, 'torn', False):
            return
        c, t = self.source()
        if len(c) <= 4 or t:
            return
        import struct
        tl = struct.unpack('>Q', c[-8:])[0]
        last = bytearray(c[len(c) - tl - 8:])          # the last complete transaction record
        last[:8] = struct.pack('>Q', struct.unpack('>Q', bytes(last[:8]))[0] + 1000)
        if st.get('c'):
            last[16:17] = b'c'
        k = max(1, min(len(last) - 1, int(len(last) * st.get('frac', 0.5))))
        with open(self.fsn, 'ab') as f:
            f.write(bytes(last[:k]))
        self.torn = True
        self.txn = 'torn'                                # blocks commits / packs until `untorn`
        self.count('op:torn-tail')
        self.sync_source()

    def do_untorn(self, st):
        if not getattr(self, 'torn', False):
            return
        with open(self.fsn, 'r+b') as f:
            f.truncate(self.fs.getSize())
        self.torn = False
        self.txn = None
        self.sync_source()

    def do_moverepo(self, st):
        """the repository directory is renamed; later backups go on in the moved directory, whose
        .dat files then name files under the old path"""
        if self.paths == 'space':
            return
        self.nmoved += 1
        new = os.path.join(self.dir, 'repo-moved-%d' % self.nmoved)
        os.rename(self.repo, new)
        self.repo = new
        if self.paths == 'symlink':
            os.unlink(self.link)
            os.symlink(self.repo, self.link)
        self.count('op:repository-moved')

    def do_pack(self, st):
        from ZODB.TimeStamp import TimeStamp
        from ZODB.serialize import referencesf
        if self.txn is not None or not self.tids:
            return
        tid = self.tids[max(0, len(self.tids) - 1 - st.get('back', 0))]
        before = self.m_committed
        try:
            self.fs.pack(TimeStamp(tid).timeTime() + 0.5, referencesf, gc=bool(st.get('gc')))
        except Exception as e:
            self.count('pack-refused:' + type(e).__name__)
        self.sync_source()
        if self.m_committed != before:
            self.count('op:pack(changed file)')
            self.pack_since_backup = True
        else:
            self.count('op:pack(no change)')

    # ---- backup ------------------------------------------------------------------------
    def chain(self):
        """the oracle's view of the current chain: held entries from the newest full one on"""
        i = max([k for k, e in enumerate(self.held) if e.full], default=None)
        return [] if i is None else self.held[i:]

    def quick_detectable(self, raw):
        """QuickDetectable computed from the real repository and source, independently of the model"""
        ch = self.chain()
        if not ch:
            return True
        dat = os.path.join(self.repo, os.path.splitext(ch[0].fname)[0] + '.dat')
        try:
            with open(dat) as f:
                ls = f.readlines()
        except OSError:
            return True
        if not ls:
            return True
        try:
            _fn, s, e, sm = ls[-1].rsplit(None, 3)
            s, e = int(s), int(e)
        except ValueError:
            return True
        if len(raw) < e or hashlib.md5(raw[s:e]).hexdigest() != sm:
            return True
        # what the chain's files (by the harness's own record of the chain) reproduce
        have = b''.join(read_content(os.path.join(self.repo, x.fname)) or b'' for x in ch)
        return raw[:e] == have

    def do_backup(self, st):
        flags = st['flags'].replace('-', '')
        _FT.now += st.get('dt', 1)
        if st.get('dt', 1) == 0 and self.all_backups:
            self.outside = 'two-backups-within-one-second'
            self.count('backup:same-second-as-previous')
        now = _FT.now
        committed, tail = self.source()
        raw = committed + tail
        before = set(os.listdir(self.repo))
        quick_decides = 'Q' in flags and 'F' not in flags and bool(self.chain())
        qd = True
        if 'Q' in flags:
            qd = self.quick_detectable(raw)
            if not self.outside:      # (the harness's own notion of the chain is void out there)
                self.emit('qd %s' % d14(now), '1' if qd else '0')
            if quick_decides:
                self.count('quick-backup:QuickDetectable=%s' % qd)
        argv = self.argv('-B', ['-' + c for c in flags], f=self.fsn)
        _FT.readings = []
        status, _out, msg = run_main(argv)
        after = set(os.listdir(self.repo))
        new = sorted(n for n in after - before if DATA_RE.match(n))
        if new:
            # the date of a backup is the one in its data file's name: one of the clock readings of
            # the run (repozo reads the clock once for find_files and once for the names)
            import calendar
            stem_t = calendar.timegm(tuple(int(x) for x in DATA_RE.match(new[0]).groups()[:6]))
            if stem_t not in _FT.readings:
                self.violation('C18:backup-names', 'data file %s is not named after a clock reading of '
                               'its run %r' % (new[0], [dashed(t) for t in _FT.readings]))
            now = stem_t
        else:
            # a run that failed after writing its index (see corpus 09) leaves <date>.index behind: the
            # model is told the date the run used for its names
            orphan = sorted(n for n in after - before if SIDE_RE.match(n) and n.endswith('.index'))
            if orphan:
                import calendar
                now = calendar.timegm(tuple(int(x) for x in SIDE_RE.match(orphan[0]).groups()[:6]))
        self.all_backups.append((now, committed))
        ctx = ('in-progress' if tail else 'after-pack' if self.pack_since_backup else 'plain')
        excluded_run = quick_decides and not qd
        if status != 0:
            obs = err_kind(status, msg)
            if excluded_run:
                # outside QuickDetectable the quick mode may also decide for an incremental that cannot
                # be taken (committed end below the recorded end: copyfile's assert fails); not judged
                self.count('backup:failed-outside-QuickDetectable(not judged):' + obs)
                if len(self.excluded_notes) < 6:
                    self.excluded_notes.append('backup -%s at %s: %s %s' % (flags, dashed(now), status, msg[:120]))
            else:
                self.violation('C18:backup-failed:%s' % ctx, 'backup %r at %s failed: %s %s' % (
                    flags, dashed(now), status, msg[:200]))
        elif not new:
            obs = 'noop'
            self.count('backup:noop')
            last = self.held[-1] if self.held else None
            if last is None or (not last.excluded and qd and last.snapshot != committed):
                self.violation('C18:noop-loses-data:%s' % ctx,
                               'backup at %s wrote nothing although the committed data differ from '
                               'the last backup held' % dashed(now))
        else:
            n = new[0]
            full = DATA_RE.match(n).group(7).startswith('fs')
            c = read_content(os.path.join(self.repo, n))
            if c is None:
                self.violation('C18:backup-unreadable', 'backup file %s cannot be read back' % n)
                c = b''
            obs = '%s %s %d %d' % ('full' if full else 'incr', model_name(n), len(c), fnv64(c))
            e = Entry(now, committed, full, n, bool(tail), self.pack_since_backup)
            if not full:
                prev = self.held[-1] if self.held else None
                e.excluded = (prev is not None and prev.excluded) or (quick_decides and not qd)
                self.nontrivial = True
            if full and 'k' in flags:
                self.held = [e]          # -k: prior backups are removed, this one is kept
            else:
                self.held.append(e)
            if self.pack_since_backup and len(self.all_backups) > 1:
                self.nontrivial = True
            self.count('backup:%s%s%s' % ('full' if full else 'incr', ':in-progress' if tail else '',
                                          ':after-pack' if self.pack_since_backup else ''))
            if not full and len(c) == 0:
                self.count('backup:empty-incremental')
            # every file written by one backup run carries the same date: the data file, its .index,
            # and (full backup) its .dat -- do_recover looks the index up under the data file's name
            stem = os.path.splitext(n)[0]
            written = sorted(x for x in after - before if x != 'tmp.tmp')
            expect = sorted([n, stem + '.index'] + ([stem + '.dat'] if full else []))
            if 'k' in flags and full:
                written = [x for x in written if os.path.exists(os.path.join(self.repo, x))]
            if written != expect:
                self.violation('C18:backup-names', 'backup at %s wrote %r, expected %r (all files of one '
                               'backup share the date of its data file)' % (dashed(now), written, expect))
        self.pack_since_backup = False
        self.count('flags:' + (flags or '-'))
        self.trace.append('backup %s -> %s' % (flags or '-', obs.split()[0]))
        self.emit('backup %s %s' % (d14(now), flags or '-'), obs)
        ls, other = listing(self.repo)
        self.emit('ls', ls)
        held_names = sorted(e.fname for e in self.held)
        have = sorted(n for n in after if DATA_RE.match(n))
        if status == 0 and have != held_names:
            self.violation('C18:retention', 'repository holds %r, expected %r' % (have, held_names))
        if excluded_run and status != 0:
            other = [x for x in other if x != 'tmp.tmp']
            self.crashed_tmp = True
        if getattr(self, 'crashed_tmp', False):
            other = [x for x in other if x != 'tmp.tmp']     # left by that crash until the next copyfile
        if other:
            self.violation('C18:stray-files', 'unexpected files in the repository: %r' % other)
        if st.get('also2') is not None and not self.outside:
            self.backup2(st['also2'].replace('-', ''), committed)

    def dir_bytes(self):
        out = {}
        for n in sorted(os.listdir(self.repo)):
            with open(os.path.join(self.repo, n), 'rb') as f:
                out[n] = f.read()
        return out

    def do_regrow(self, st):
        """directed: after a pack made the file shorter than the end recorded in the last .dat line,
        empty transactions whose description length is tuned bring it back to EXACTLY that size, so a
        following -B -Q sees srcsz == endpos over a changed prefix"""
        from ZODB.Connection import TransactionMetaData
        from ZODB.TimeStamp import TimeStamp
        ch = self.chain()
        if self.txn is not None or not ch or self.outside:
            return
        try:
            with open(os.path.join(self.repo, os.path.splitext(ch[0].fname)[0] + '.dat')) as f:
                end = int(f.readlines()[-1].rsplit(None, 3)[2])
        except (OSError, IndexError, ValueError):
            return
        gap = end - self.fs.getSize()
        if gap < 31:
            return
        while gap > 0:
            # an empty transaction takes 23 (header) + description + 8 (redundant length) bytes
            d = min(gap - 31, 60000)
            if 0 < gap - 31 - d < 31:
                d -= 31
            self.ntid += 1
            tid = TimeStamp(2020, 1, 1, 0, self.ntid // 60, self.ntid % 60).raw()
            t = TransactionMetaData('', 'd' * d)
            self.fs.tpc_begin(t, tid=tid)
            self.fs.tpc_vote(t)
            self.fs.tpc_finish(t)
            self.tids.append(tid)
            gap = end - self.fs.getSize()
        self.count('op:regrown-to-exactly-the-recorded-end' if gap == 0 else 'op:regrow-missed')
        self.sync_source()

    def do_collide(self, st):
        """a commit, then a second backup of the SAME kind in the same second as the last one: repozo
        refuses it ("Cannot overwrite existing file").  A refused run must change nothing at all in the
        repository -- judged also where same-second backups are otherwise outside the guarantee"""
        if self.txn is not None or not self.held or self.outside:
            return
        e = self.held[-1]
        if not os.path.exists(os.path.join(self.repo, e.fname)):
            return
        if not e.full and (e.excluded or self.pack_since_backup):
            return                                   # an incremental is not certain to be decided again
        self.do_commit(dict(recs=st.get('recs') or [[1, 40]]))
        flags = ('F' if e.full else '') + ('z' if e.fname.endswith('z') else '')
        before = self.dir_bytes()
        now0, ticks0 = _FT.now, _FT.ticks
        _FT.now, _FT.ticks = e.t, None               # the clock still shows the second of that backup
        try:
            _FT.readings = []
            status, _o, msg = run_main(self.argv('-B', ['-' + c for c in flags], f=self.fsn))
        finally:
            _FT.now, _FT.ticks = max(now0, e.t), ticks0
        after = self.dir_bytes()
        obs = err_kind(status, msg)
        self.count('backup:refused-same-second-same-kind:' + obs)
        self.trace.append('backup %s (same second) -> %s' % (flags or '-', obs))
        # (not refused after all: what it wrote is compared through the listing that follows)
        self.emit('backup %s %s' % (d14(e.t), flags or '-'), obs if status != 0 else None)
        ls, _other = listing(self.repo)
        self.emit('ls', ls)
        if status == 0:
            # not refused after all: two backups share a second, the rest is outside the guarantee
            self.outside = 'two-backups-within-one-second'
            return
        if after != before:
            diff = sorted(n for n in set(before) | set(after) if before.get(n) != after.get(n))
            self.violations.append(('C18:refused-backup-changed-repository',
                                    'backup -%s at %s was refused (%s) but changed %r in the repository; a '
                                    'refused run must leave it byte for byte as it was' % (
                                        flags or 'B', dashed(e.t), msg[:60].strip(), diff)))

    def backup2(self, flags, committed):
        """the same Data.fs is also backed up into a SECOND repository (slow mode, no -k) by the same
        process, interleaved with the first: oracle only (snapshots per date), no model"""
        if self.repo2 is None:
            self.repo2 = os.path.join(self.dir, 'second-repository')
            os.mkdir(self.repo2)
        _FT.now += 1
        before = set(os.listdir(self.repo2))
        _FT.readings = []
        status, _o, msg = run_main(self.argv('-B', ['-' + c for c in flags], repo=self.repo2, f=self.fsn))
        new = sorted(n for n in set(os.listdir(self.repo2)) - before if DATA_RE.match(n))
        self.count('second-repository:backup:%s' % ('failed' if status != 0 else
                                                     'noop' if not new else 'wrote'))
        if status != 0:
            self.violation('C18:backup-failed:second-repository', 'backup %r into a second repository '
                           'failed: %s %s' % (flags, status, msg[:200]))
        elif new:
            import calendar
            t = calendar.timegm(tuple(int(x) for x in DATA_RE.match(new[0]).groups()[:6]))
            self.held2.append((t, committed, new[0]))
        elif not self.held2 or self.held2[-1][1] != committed:
            self.violation('C18:noop-loses-data:second-repository', 'backup into the second repository '
                           'wrote nothing although the committed data differ from its last backup')

    def check_repo2(self):
        if not self.held2:
            return
        out = os.path.join(self.dir, 'out2', 'R.fs')
        os.mkdir(os.path.dirname(out))
        for t, snap, fname in self.held2:
            for n in os.listdir(os.path.dirname(out)):
                os.unlink(os.path.join(os.path.dirname(out), n))
            status, _o, msg = run_main(self.argv('-R', ['-w'] if self.orng.random() < 0.5 else [],
                                                 repo=self.repo2, D=dashed(t), o=out))
            data = open(out, 'rb').read() if os.path.exists(out) else None
            if status != 0 or data != snap:
                self.violation('C18:recover-differs:second-repository',
                               'recover -D %s from the second repository: %s, %s bytes, expected the %d '
                               'committed bytes of that moment' % (dashed(t), status or 'exit 0',
                                                                    'no' if data is None else len(data), len(snap)))
            else:
                st = index_status(out, False)
                if st != 'ok':
                    self.violation('C18:recover-index:%s:second-repository' % st.split('(')[0],
                                   'second repository, -D %s: restored index is %s' % (dashed(t), st))
        for q in ([], ['-Q']):
            status, _o, msg = run_main(self.argv('-V', q, repo=self.repo2))
            if status != 0:
                self.violation('C18:verify-fails-intact:second-repository', 'verify %s of the intact second '
                               'repository fails: %s' % (q, msg[:200]))
        self.count('second-repository:checked')

    # ---- recover / verify ----------------------------------------------------------------
    def expected_entry(self, bound):
        """newest held backup whose date is within the bound ('le:n' / 'lt:n')"""
        kind, n = bound.split(':')
        n = int(n)
        best = None
        for e in self.held:
            d = int(d14(e.t))
            if d <= n if kind == 'le' else d < n:
                best = e
        return best

    def bound_of(self, date):
        if re.match(r'^\d{4}-\d\d-\d\d(-\d\d){0,3}$', date):
            return when_of(date)
        # any other string: repozo compares file names with it as strings; the names are fixed-width,
        # so the admitted files are the backups up to some date
        ok = [t for t, _ in self.all_backups if dashed(t) <= date]
        return 'le:%s' % (d14(max(ok)) if ok else '0')

    SIBLINGS = ('.tmp', '.old', '.lock', '.index.index_tmp', '.pack')

    def recover(self, date, w, mode, pre, judge=True, used_damaged=False, deep=False, keep=False):
        """one `repozo -R`; returns the coarse observation.  pre: 1 = a stale output file and index
        exist, 2 = also stale .tmp/.old/.lock/... siblings; keep: leave the output of the previous
        recovery in place (repeated recoveries into the same output)"""
        now = _FT.now
        bound = self.bound_of(date) if date else 'le:%s' % d14(now)
        outdir = os.path.dirname(self.out)
        live = self.out == self.fsn
        if not keep:
            for n in os.listdir(outdir):
                os.unlink(os.path.join(outdir, n))
            if pre and mode == 'o':
                with open(self.out, 'wb') as f:
                    f.write(STALE_FILE)
                with open(self.out + '.index', 'wb') as f:
                    f.write(STALE_INDEX)
                if pre == 2:
                    for ext in self.SIBLINGS:
                        with open(self.out + ext, 'wb') as f:
                            f.write(b'stale ' + ext.encode())
                    if self.orng.random() < 0.5:           # the stale files may be newer or older
                        for n in os.listdir(outdir):
                            os.utime(os.path.join(outdir, n), (START + 10 ** 6, START + 10 ** 6))
        if deep and (pre == 2 or keep):
            deep = 'rw'
        # what lies at the output before the run (a failed recovery leaves the index as it was)
        pre_code = int(bool(pre))
        if keep:
            pre_code = 2 + (0 if os.path.exists(self.out + '.index') else 1) + (
                0 if os.path.exists(self.out) else 2)
        argv = self.argv('-R', ['-w'] if w else [], D=date or None, o=self.out if mode == 'o' else None)
        status, out, msg = run_main(argv)
        kind = err_kind(status, msg)
        self.count('recover:' + kind)
        e = self.expected_entry(bound)
        # the restored index is examined against a full scan only where the guarantee applies; elsewhere
        # (damaged file used, chain outside QuickDetectable) only its presence / staleness is observed
        precise = judge and status == 0 and e is not None and not e.excluded and not self.outside
        if mode == 's':
            data = out if status == 0 else None
            obs = '%s %d %d' % ('ok' if status == 0 else 'err', len(out), fnv64(out))
            part, idx = None, 'none'
        else:
            data = None
            if os.path.exists(self.out):
                with open(self.out, 'rb') as f:
                    data = f.read()
            part = os.path.getsize(self.out + '.part') if os.path.exists(self.out + '.part') else None
            idx = 'none'
            if os.path.exists(self.out + '.index'):
                idx = index_status(self.out, deep) if precise else (
                    'stale' if open(self.out + '.index', 'rb').read() == STALE_INDEX else 'new')
            obs = '%s file=%s part=%s idx=%s' % (
                'ok' if status == 0 else 'err',
                'none' if data is None else '%d:%d' % (len(data), fnv64(data)),
                'none' if part is None else part, model_idx(idx))
            allowed = {os.path.basename(self.out) + x for x in ('', '.index', '.part') + self.SIBLINGS}
            extra = sorted(set(os.listdir(outdir)) - allowed)
            if extra and not live:
                self.violation('C18:recover-stray-output', 'recover left %r' % extra)
        self.emit('recover %s %d %s %d' % (bound, int(w), mode, pre_code), obs)
        if not judge:
            return obs
        desc = 'recover -D %s%s%s' % (date or '(now)', ' -w' if w else '', ' -o' if mode == 'o' else '')
        if e is None:
            if status == 0:
                self.violation('C18:recover-nothing-held', '%s succeeded although no backup not later than '
                               'that date is held' % desc)
            return obs
        if e.excluded:
            self.count('recover:outside-QuickDetectable(not judged)')
            if len(self.excluded_notes) < 4:
                self.excluded_notes.append(
                    '%s: exit %s, %s bytes, %s the committed part of Data.fs at that backup (%d bytes)' % (
                        desc, status, 'no' if data is None else len(data),
                        'EQUAL to' if data == e.snapshot else 'DIFFERENT from', len(e.snapshot)))
            return obs
        ctx = 'in-progress' if e.in_progress else 'after-pack' if e.after_pack else 'plain'
        if status != 0:
            self.violation('C18:recover-fails:%s' % ctx, '%s failed: %s %s' % (desc, status, msg[:200]))
        elif data != e.snapshot:
            why = 'longer' if data is not None and len(data) > len(e.snapshot) else 'differs'
            self.violation('C18:recover-%s:%s' % (why, ctx),
                           '%s gave %s bytes, the committed part of Data.fs at the backup of %s was %d bytes%s'
                           % (desc, 'no' if data is None else len(data), dashed(e.t), len(e.snapshot),
                              '' if data is None or len(data) != len(e.snapshot) else ' (content differs)'))
        elif mode == 'o':
            if part is not None:
                self.violation('C18:recover-leaves-part', '%s left a .part file' % desc)
            if idx != 'ok':
                self.violation('C18:recover-index:%s' % idx.split('(')[0],
                               '%s: restored index is %s' % (desc, idx))
        return obs

    def verify(self, quick):
        argv = self.argv('-V', ['-Q'] if quick else [])
        now = _FT.now
        status, _out, msg = run_main(argv)
        kind = err_kind(status, msg)
        self.count('verify%s:%s' % ('-Q' if quick else '', kind))
        self.emit('verify %d %s' % (int(quick), d14(now)), 'ok' if status == 0 else 'err')
        return status == 0, kind

    def final_phase(self):
        fin = self.case.get('final', {})
        rng = __import__('random').Random(fin.get('seed', 0))
        _FT.now += 5
        if not self.all_backups:
            return
        # -- recover at every date
        dates = [dashed(t) for t, _ in self.all_backups]
        dates.append(dashed(self.all_backups[0][0] - 1))            # before the first backup
        dates.append(None)                                          # default: now
        for t, _ in self.all_backups[:: max(1, len(self.all_backups) // 3)]:
            dates.append(dashed(t, 5))                              # yyyy-mm-dd-hh-mm
            dates.append(dashed(t + 60, 5))
        dates.append(dashed(self.all_backups[-1][0] + 86400, 3))    # yyyy-mm-dd (next day)
        dates.append(dashed(self.all_backups[0][0], 4))             # yyyy-mm-dd-hh (before everything)
        tmid = self.all_backups[len(self.all_backups) // 2][0]
        odd = ['9999', '0', dashed(tmid) + '-99', dashed(tmid)[:-1], dashed(tmid).replace('-', '/'), 'zzz',
               dashed(tmid) + '.fs']                                # not dates at all: compared as strings
        dates += odd if nvar_all(fin) else rng.sample(odd, 2)
        variants = [(w, m, p) for w in (0, 1) for m in 'os' for p in (0, 1) if not (m == 's' and p)]
        nvar = fin.get('variants', 2)
        first = True
        for d in dates:
            vs = variants if nvar >= len(variants) else rng.sample(variants, nvar)
            if first and (0, 'o', 1) not in vs:
                vs = vs + [(0, 'o', 1)]
            deep = True      # once per date: open the recovered file WITH the restored index
            for w, m, p in vs:
                self.recover(d, w, m, p, deep=deep and m == 'o')
                deep = deep and m != 'o'
            first = False
        # -- stale siblings next to the output (.tmp .old .lock ...), newer or older than the backups
        self.recover(rng.choice(dates[:len(self.all_backups)] + [None]), rng.choice([0, 1]), 'o', 2, deep=True)
        # -- repeated recoveries into the SAME output at different dates (nothing cleaned in between)
        good = [dashed(e.t) for e in self.held] + ([None] if self.held else [])
        if good:
            seq = [rng.choice(good) for _ in range(3)]
            for i, d in enumerate(seq):
                self.recover(d, rng.choice([0, 1]), 'o', 1, keep=i > 0, deep=True)
            self.count('recover:repeated-into-same-output')
        # -- verify the intact repository
        for q in (False, True):
            ok, kind = self.verify(q)
            if not ok:
                self.violation('C18:verify-fails-intact:%s' % ('quick' if q else 'full'),
                               'verify%s fails on the intact repository: %s' % (' -Q' if q else '', kind))
        # -- every single-file damage
        chain_names = [e.fname for e in self.chain()]
        newest_full = chain_names[0] if chain_names else None
        files = sorted(n for n in os.listdir(self.repo) if DATA_RE.match(n))
        damages = []
        for n in files:
            size = os.path.getsize(os.path.join(self.repo, n))
            damages.append((n, 'missing', None))
            if size > 0:
                damages.append((n, 'truncated', rng.choice([0, size - 1, rng.randrange(size)])))
                damages.append((n, 'altered', (rng.randrange(size), rng.randrange(1, 256))))
                if n.endswith('z') and size > 12:
                    damages.append((n, 'altered', (rng.choice([4, 5, 8, 9]), rng.randrange(1, 256))))
                    # a gzip member cut at each of its boundaries: inside / after the 10-byte header,
                    # inside the deflate stream, before / inside the CRC32, before / inside ISIZE
                    cuts = [1, 9, 10, 11, size - 9, size - 8, size - 5, size - 4, size - 1]
                    for c in (cuts if nvar_all(fin) else rng.sample(cuts, 2)):
                        if 0 < c < size:
                            damages.append((n, 'truncated', c))
        maxd = fin.get('max_damages')
        if maxd is not None and len(damages) > maxd:
            damages = rng.sample(damages, maxd)
        for n, kind, arg in damages:
            self.damage(n, kind, arg, chain_names, newest_full)
        # -- side files (.dat / .index): not judged, code and model compared
        sides = sorted(n for n in os.listdir(self.repo) if SIDE_RE.match(n))
        if maxd is not None and len(sides) > 4:
            sides = rng.sample(sides, 4)
        for n in sides:
            self.side_damage(n)
        self.index_damages(rng)
        self.dat_damages(rng)
        if damages:
            self.copy_phase(rng, damages, maxd, chain_names, newest_full)
        self.check_repo2()
        self.live_recover(rng)

    def copy_phase(self, rng, damages, maxd, chain_names, newest_full):
        # -- a COPY of the repository (mirror / restored from tape) while the original stays where the
        #    .dat files say it is: -V and -R of the copy must look at the copy's own files
        orig_repo = self.repo
        copy = os.path.join(self.dir, 'repo-copy')
        shutil.copytree(orig_repo, copy)
        self.repo = copy
        self.in_copy = True
        self.count('copied-repository')
        try:
            for q in (False, True):
                ok, kind = self.verify(q)
                if not ok:
                    self.violation('C18:verify-fails-intact:%s:copied-repository' % ('quick' if q else 'full'),
                                   'verify%s fails on an intact copy of the repository: %s' % (
                                       ' -Q' if q else '', kind))
            self.recover(None, rng.choice([0, 1]), 'o', 0)
            dd = damages if maxd is None or len(damages) <= 8 else rng.sample(damages, 8)
            for n, kind, arg in dd:
                self.damage(n, kind, arg, chain_names, newest_full)
        finally:
            self.repo = orig_repo
            self.in_copy = False
            shutil.rmtree(copy, ignore_errors=True)

    def live_recover(self, rng):
        """last of all: the live database is closed and a backup is recovered INTO ITS OWN PATH, next
        to its real Data.fs.index / .tmp / .lock / .old"""
        cands = [e for e in self.held if not e.excluded]
        if not cands or self.outside:
            return
        if getattr(self, 'torn', False):
            self.do_untorn({})
        if self.txn is not None:
            self.fs.tpc_abort(self.txn)
            self.txn = None
        self.fs.close()
        e = rng.choice(cands)
        out0, self.out = self.out, self.fsn
        try:
            self.count('recover:into-the-live-database-path')
            self.recover(dashed(e.t), rng.choice([0, 1]), 'o', 1, keep=True, deep=True)
        finally:
            self.out = out0

    def index_damages(self, rng):
        """.index files of chain members missing / older / truncated: -V does not look at them, -R
        restores what is there; the recovered file must stay usable (an index is only a cache)"""
        ch = [e for e in self.chain() if not e.excluded]
        if not ch or self.outside:
            return
        e = rng.choice(ch)
        stem = os.path.splitext(e.fname)[0]
        ip = os.path.join(self.repo, stem + '.index')
        if not os.path.exists(ip):
            return
        with open(ip, 'rb') as f:
            orig = f.read()
        older = [x for x in ch if x.t < e.t]
        kinds = ['missing', 'truncated'] + (['older'] if older else [])
        for kind in (kinds if self.case.get('final', {}).get('max_damages') is None else [rng.choice(kinds)]):
            self.emit('save', 'ok')
            if kind == 'missing':
                os.unlink(ip)
                self.emit('dmg delidx ' + d14(e.t), 'ok')
            elif kind == 'truncated':
                with open(ip, 'wb') as f:
                    f.write(orig[:rng.randrange(len(orig))])
            else:
                p_ = rng.choice(older)
                shutil.copyfile(os.path.join(self.repo, os.path.splitext(p_.fname)[0] + '.index'), ip)
                self.emit('dmg cpidx %s %s' % (d14(p_.t), d14(e.t)), 'ok')
            self.count('damage:index-%s-of-a-chain-member' % kind)
            try:
                for q in (False, True):
                    ok, _k = self.verify(q)
                    if not ok:
                        self.violation('C18:verify-fails-intact:index-%s' % kind, 'verify fails because an '
                                       '.index file is %s although every recorded backup file is intact' % kind)
                pre = rng.choice([0, 1])
                self.recover(dashed(e.t), rng.choice([0, 1]), 'o', pre, judge=False, used_damaged=True)
                if os.path.exists(self.out):
                    with open(self.out, 'rb') as f:
                        data = f.read()
                    if data != e.snapshot:
                        self.violation('C18:recover-differs:index-%s' % kind, 'recover -D %s with an .index '
                                       'file %s does not give the committed bytes of that backup' % (
                                           dashed(e.t), kind))
                    elif not (pre and kind == 'missing'):
                        why = usable_with_index(self.out)
                        if why:
                            self.violation('C18:recovered-file-unusable:index-%s' % kind,
                                           'recovered file next to the %s index restored with it: %s' % (kind, why))
            finally:
                with open(ip, 'wb') as f:
                    f.write(orig)
            self.emit('restore', 'ok')

    def dat_damages(self, rng):
        """the .dat itself cut at a line boundary (code and model compared) or inside a line (code only):
        not 'backup files recorded', nothing is judged, but nothing may hang or be left half done"""
        dats = sorted(n for n in os.listdir(self.repo) if n.endswith('.dat') and SIDE_RE.match(n))
        if not dats:
            return
        n = rng.choice(dats)
        path = os.path.join(self.repo, n)
        with open(path, 'rb') as f:
            orig = f.read()
        lines = orig.splitlines(True)
        keepn = rng.randrange(len(lines))
        self.emit('save', 'ok')
        with open(path, 'wb') as f:
            f.write(b''.join(lines[:keepn]))
        self.emit('dmg truncdat %s %d' % (''.join(SIDE_RE.match(n).groups()[:6]), keepn), 'ok')
        self.count('damage:dat-cut-at-line-boundary(not judged)')
        try:
            for q in (False, True):
                self.verify(q)
            self.recover(None, 1, 'o', 0, judge=False, used_damaged=True)
            self.recover(None, 0, 's', 0, judge=False, used_damaged=True)
        finally:
            with open(path, 'wb') as f:
                f.write(orig)
        self.emit('restore', 'ok')
        if len(orig) > 2:
            with open(path, 'wb') as f:
                f.write(orig[:rng.randrange(1, len(orig) - 1)])
            try:
                for q in ([], ['-Q']):
                    status, _o, msg = run_main(self.argv('-V', q))
                    self.count('damage:dat-cut-inside-a-line(code only):verify:%s' % err_kind(status, msg))
            finally:
                with open(path, 'wb') as f:
                    f.write(orig)

    def side_damage(self, n):
        path = os.path.join(self.repo, n)
        m = SIDE_RE.match(n)
        with open(path, 'rb') as f:
            orig = f.read()
        os.unlink(path)
        self.count('damage:%s-missing(not judged)' % m.group(7))
        self.emit('save', 'ok')
        self.emit('dmg %s %s' % ('deldat' if m.group(7) == 'dat' else 'delidx', ''.join(m.groups()[:6])), 'ok')
        try:
            for q in (False, True):
                self.verify(q)
            self.recover(None, 1, 'o', 1, judge=False, used_damaged=True)
        finally:
            with open(path, 'wb') as f:
                f.write(orig)
        self.emit('restore', 'ok')

    def damage(self, n, kind, arg, chain_names, newest_full):
        path = os.path.join(self.repo, n)
        with open(path, 'rb') as f:
            orig = f.read()
        orig_content = read_content(path)
        if orig_content is None:
            self.violation('C18:backup-unreadable', 'backup file %s cannot be read back' % n)
            return
        if kind == 'missing':
            os.unlink(path)
            new_content = None
        else:
            if kind == 'truncated':
                bad = orig[:arg]
            else:
                off, x = arg
                bad = orig[:off] + bytes([orig[off] ^ x]) + orig[off + 1:]
            with open(path, 'wb') as f:
                f.write(bad)
            new_content = read_content(path)
        readable = kind == 'missing' or new_content is not None
        changed = kind == 'missing' or new_content != orig_content
        size_changed = kind == 'missing' or new_content is None or len(new_content) != len(orig_content)
        self.count('damage:%s%s%s' % (kind, ':gz' if n.endswith('z') else '',
                                      ':in-copy' if getattr(self, 'in_copy', False) else ''))
        if not changed:
            self.count('damage:content-unaffected(gzip header)')
        role = ('newest-full' if n == newest_full else 'current-incremental' if n in chain_names
                else 'superseded-chain')
        nlines = len(self.lines)
        self.emit('save', 'ok')
        if kind == 'missing':
            self.emit('dmg del ' + model_name(n), 'ok')
        elif not changed:
            pass                                  # gzip container touched, content intact
        elif not n.endswith('z') and kind == 'truncated':
            self.emit('dmg trunc %s %d' % (model_name(n), arg), 'ok')
        elif not n.endswith('z') and kind == 'altered':
            self.emit('dmg flip %s %d %d' % (model_name(n), arg[0], arg[1]), 'ok')
        elif readable:
            self.emit('dmg set %s %s' % (model_name(n), hexs(new_content)), 'ok')
        try:
            for q in (False, True):
                ok, vk = self.verify(q)
                must_fail = changed if not q else size_changed
                if not changed and not ok:
                    self.violation('C18:verify-fails-intact:%s' % ('quick' if q else 'full'),
                                   'verify fails although %s still has its recorded content' % n)
                if must_fail and ok:
                    extra = ''
                    if role == 'newest-full' and kind == 'missing' and len(self.held) > len(chain_names):
                        extra = ':older-full-held'
                    if getattr(self, 'in_copy', False):
                        extra += ':copied-repository'
                    self.violation('C18:verify-passes:%s:%s%s' % (kind, role, extra),
                                   'verify%s exits 0 although backup file %s (%s) is %s%s' % (
                                       ' -Q' if q else '', n, role, kind,
                                       ' in the verified copy of the repository (the original is intact)'
                                       if getattr(self, 'in_copy', False) else ''))
            # recover after the damage: judged only when the damaged file is not used
            self.ndamage = getattr(self, 'ndamage', 0) + 1
            for w in ((0, 1) if self.case.get('final', {}).get('max_damages') is None else (self.ndamage % 2,)):
                self.recover(None, w, 'o', 0, judge=(role == 'superseded-chain'), used_damaged=True)
            e = next((x for x in self.held if x.fname == n), None)
            if role == 'superseded-chain' and e is not None:
                self.recover(dashed(e.t), 1, 'o', 0, judge=False, used_damaged=True)
        finally:
            with open(path, 'wb') as f:
                f.write(orig)
        if readable:
            self.emit('restore', 'ok')
        else:
            # gzip stream unreadable: outside the model (gzip = identity); real code + oracle only
            del self.lines[nlines:]
            self.count('damage:gzip-unreadable(model skipped)')
        if changed and role != 'superseded-chain' and not getattr(self, 'retried', False) \
                and not getattr(self, 'in_copy', False):
            # failure, then the same operation again: the damaged file was repaired, the output
            # directory still holds whatever the failed -R -w left (.part); recover into it again
            self.retried = True
            self.count('recover:retry-after-failed-with-verify')
            self.recover(None, 1, 'o', 1, keep=True, deep=True)


# ------------------------------------------------------------------ running cases
def run_case(ck_tmp, case, tag):
    counts = {}
    r = Run(ck_tmp, case, tag, counts)
    r.execute()
    return dict(lines=r.lines, violations=r.violations, counts=counts, nontrivial=r.nontrivial,
                trace=r.trace, excluded_notes=r.excluded_notes)


class CaseTimeout(BaseException):
    pass


def _alarm(signum, frame):
    raise CaseTimeout()


CASE_TIMEOUT = 120


def _worker(args):
    ck_tmp, case, tag = args
    import signal
    old = signal.signal(signal.SIGALRM, _alarm)
    signal.alarm(CASE_TIMEOUT)
    try:
        return run_case(ck_tmp, case, tag)
    except CaseTimeout:
        # a blocked step (a lock never released, an endless loop) is a verdict with a failing input
        return dict(lines=[], violations=[('C18:case-timeout', 'the scenario did not finish within %d s'
                                           % CASE_TIMEOUT)],
                    counts={'case-timeout': 1}, nontrivial=False, trace=[], excluded_notes=[])
    except Exception as e:       # harness trouble, not a verdict
        import traceback
        return dict(infra='%r\n%s' % (e, traceback.format_exc()))
    finally:
        signal.alarm(0)
        signal.signal(signal.SIGALRM, old)


def native_driver():
    """path of the repozo model driver compiled natively from the C files `lake build` already produced
    (same Lean code as `lean --run Drivers/Repozo.lean`, several times faster on byte lists of tens of
    KB), or None when it cannot be built -- then the interpreted driver is used"""
    import hashlib
    import subprocess
    from common import LEAN
    srcs = [os.path.join(LEAN, '.lake', 'build', 'ir', *m.split('.')) + '.c'
            for m in ('Drivers.Repozo', 'ZodbModel.Repozo', 'ZodbModel.DriverLib', 'ZodbModel.Basic')]
    try:
        h = hashlib.sha1()
        for f in srcs:
            with open(f, 'rb') as fh:
                h.update(fh.read())
        d = os.path.join(LEAN, '.lake', 'build', 'c18drv')
        os.makedirs(d, exist_ok=True)
        exe = os.path.join(d, 'repozo_driver-' + h.hexdigest()[:12])
        if not os.path.exists(exe):
            tmp = exe + '.%d.tmp' % os.getpid()
            p = subprocess.run(['leanc', '-O2', '-o', tmp] + srcs, capture_output=True, text=True, timeout=300)
            if p.returncode != 0:
                return None
            os.replace(tmp, exe)
            for n in os.listdir(d):
                if n.startswith('repozo_driver-') and os.path.join(d, n) != exe:
                    try:
                        os.unlink(os.path.join(d, n))
                    except OSError:
                        pass
        return exe
    except Exception:
        return None


def run_model(lines, exe):
    if exe is None:
        return run_driver('Repozo', lines, timeout=1500)
    import subprocess
    p = subprocess.run([exe], input='\n'.join(lines) + '\n', capture_output=True, text=True, timeout=1500)
    out = p.stdout.splitlines()
    if p.returncode != 0 or len(out) != len(lines):
        return run_driver('Repozo', lines, timeout=1500)     # fall back to the interpreter
    return out


def drive(results, parallel):
    """model observations for all cases: one driver process (quick), or a few over contiguous
    chunks of whole cases (thorough; every case starts with `reset`)"""
    chunks = [[] for _ in range(parallel)]
    per = (len(results) + parallel - 1) // parallel
    for i, res in enumerate(results):
        chunks[i // per].append('reset')
        chunks[i // per] += [op for op, _ in res['lines']]
    chunks = [c for c in chunks if c]
    exe = native_driver()
    if len(chunks) == 1:
        return run_model(chunks[0], exe)
    from concurrent.futures import ThreadPoolExecutor
    with ThreadPoolExecutor(len(chunks)) as ex:
        outs = list(ex.map(lambda c: run_model(c, exe), chunks))
    return [l for o in outs for l in o]


def corpus_cases():
    d = os.path.join(VERIF, 'corpus', 'C18')
    out = []
    if os.path.isdir(d):
        for f in sorted(os.listdir(d)):
            if f.endswith('.json'):
                with open(os.path.join(d, f)) as fh:
                    c = json.load(fh)
                c.setdefault('name', f)
                out.append(c)
    return out


def shrink(ck, case, sig):
    """smallest sub-scenario that still shows a violation with the same signature"""
    n = [0]

    def fails(steps):
        n[0] += 1
        c = dict(case, steps=steps)
        try:
            res = run_case(ck.tmp, c, 'shrink-%d' % n[0])
        except Exception:
            return False
        return any(s == sig for s, _ in res['violations'])
    steps = ddmin(case['steps'], fails, max_tests=60)
    small = dict(case, steps=steps)
    # keep only the damage that matters, when the violation is about one
    res = run_case(ck.tmp, small, 'shrunk')
    whats = [w for s, w in res['violations'] if s == sig]
    return small, (whats[0] if whats else None)


def main(argv=None):
    ck = Check('C18', argv)
    ck.extra['modules'] = ['Props.C18', 'Drivers.Repozo']
    ck.run_gate(ck.extra['modules'], ['Props.C18'])
    import ZODB.scripts.repozo  # noqa: F401  (fail early, as an infra error, if the import breaks)
    nscen = 70 if not ck.thorough else 2500
    final = dict(variants=2, max_damages=20) if not ck.thorough else dict(variants=3, max_damages=None)
    cases = []
    if ck.replay_path:
        with open(ck.replay_path) as f:
            cases = [json.load(f)['case']]
        nscen = 0
    else:
        cases += corpus_cases()
    for i in range(nscen):
        steps = gen_scenario(ck.rng, ck.rng.choice([6, 10, 14, 20]))
        case = dict(steps=steps, final=dict(final, seed=ck.rng.randrange(10 ** 6)))
        if ck.rng.random() < 0.4:
            # the clock moves on during a repozo run: +n seconds after the k-th reading (cyclic)
            case['tick'] = ck.rng.choice([[1], [1], [0, 1], [1, 0], [2], [0, 0, 1], [1, 3]])
        # how --repository / --file / --output are spelt: absolute, relative to the working directory,
        # with a trailing slash, through a symbolic link, with a blank in the directory name
        case['paths'] = ck.rng.choice(['abs', 'abs', 'rel', 'relslash', 'slash', 'symlink', 'space', 'space'])
        cases.append(case)
    jobs = [(ck.tmp, c, str(i)) for i, c in enumerate(cases)]
    if ck.thorough and len(jobs) > 8:
        import multiprocessing
        with multiprocessing.Pool(min(16, os.cpu_count() or 4)) as pool:
            results = pool.map(_worker, jobs, chunksize=4)
    else:
        results = [_worker(j) for j in jobs]
    for res in results:
        if 'infra' in res:
            raise InfraError(res['infra'])
    model_out = drive(results, parallel=8 if ck.thorough else 1)
    pos = 0
    seen_sigs = set()
    for case, res in zip(cases, results):
        mo = model_out[pos + 1: pos + 1 + len(res['lines'])]
        pos += 1 + len(res['lines'])
        for k, v in res['counts'].items():
            ck.count(k, v)
        canon = dict(steps=case['steps'], final=case.get('final'), tick=case.get('tick'))
        ck.case(canon, res['nontrivial'],
                sample=dict(trace=res['trace'][:12], recover=[(o, r) for o, r in res['lines']
                                                              if o.startswith('recover')][:3])
                if res['nontrivial'] else None)
        expect_excluded = case.get('expect') == 'outside-guarantee'
        if res['violations']:
            for sig, what in res['violations']:
                if sig in seen_sigs:
                    continue
                seen_sigs.add(sig)
                if sig == 'C18:case-timeout':
                    ck.violation(sig, what, case)
                    continue
                small, what2 = shrink(ck, case, sig)
                if small.get('paths') == 'space':
                    # is the blank in the repository path what it takes?
                    try:
                        plain = run_case(ck.tmp, dict(small, paths='abs'), 'noblank-%d' % len(seen_sigs))
                        if not any(s_ == sig for s_, _ in plain['violations']):
                            what2 = '%s [only with a blank in the repository path; there: %s]' % (
                                what2 or what, sig)
                            sig = 'C18:repository-path-with-whitespace'
                    except Exception:
                        pass
                ck.violation(sig, what2 or what, small)
        diffs = [(i, op, real, m) for i, ((op, real), m) in enumerate(zip(res['lines'], mo))
                 if real is not None and not same(op, real, m)]
        if diffs and not res['violations']:
            i, op, real, m = diffs[0]
            ck.mismatch('model/impl differ at %r: impl %r model %r' % (op[:80], real, m),
                        dict(steps=case['steps'], final=case.get('final'), tick=case.get('tick'), line=i,
                             ops=[o[:200] for o, _ in res['lines'][max(0, i - 8): i + 1]]))
        if expect_excluded:
            ck.extra.setdefault('coverage', {}).setdefault('excluded_points', []).append(
                dict(name=case.get('name'), note=case.get('note'),
                     backups=[l for l in res['trace']],
                     reached=(res['counts'].get('quick-backup:QuickDetectable=False', 0) > 0
                              or res['counts'].get('backup:same-second-as-previous', 0) > 0),
                     outcome_on_real_code=res['excluded_notes'],
                     recovers_not_judged=res['counts'].get('recover:outside-QuickDetectable(not judged)', 0),
                     model_agrees_with_code=not any(
                         real is not None and not same(op, real, m)
                         for (op, real), m in zip(res['lines'], mo))))
    ck.finish(
        rule='seeded scenarios on a live FileStorage: small commits, packs (gc on/off, various pack '
             'times), one transaction left in progress (voted, not finished) while backups run, backups '
             'with every subset of -F -Q -z -k at scripted dates; then -R at every backup date, before the '
             'first, default date and partial dates, with/without -w/-o/pre-existing output; -V and -V -Q; '
             'every single-file damage (missing, truncated, flipped byte; gzip members cut at each boundary) '
             'followed by verify and recover, in place and in a copy of the repository; also: empty '
             'transactions, transactions > 64 KiB and ending on a READCHUNK boundary, a torn tail, databases of '
             '4 bytes, metadata, a moved repository, a second repository, odd -D strings, stale siblings of the '
             'output, repeated recoveries into one output, recovery into the live path, retry after a failed '
             '-R -w, .index and .dat damages, every option/path spelling.  non-trivial = the executed trace contains an incremental backup after a full one, '
             'or a pack that changed the file between two backups; distinct by hash of the scenario',
        assumptions=[
            'MD5 collision-free (checksums are modelled by the bytes themselves); gzip round-trips '
            '(modelled as identity; unreadable gzip streams are judged on the real code only)',
            'successive backups carry distinct dates at 1-second granularity (repozo names files by the '
            'second; two backups within one second are outside the guarantee: run from corpus/C18/06, not '
            'judged, code and model compared, outcome under coverage.excluded_points)',
            'every repozo run, commit and pack is one atomic step (no race inside a repozo run)',
            'oracle only (no model): a second repository fed from the same Data.fs by the same process; '
            'usability of a recovered file next to a missing / truncated / older (same chain) restored index '
            '(FileStorage must answer like a full scan: the index is only a cache); read-write open of the '
            'recovered file next to stale .tmp/.old/.lock/.index_tmp/.pack siblings and in the live '
            'database\'s own path; a .dat cut inside a line (nothing judged, only that every run ends)',
            'option spellings (short/long, --opt=value, -v, order) and path spellings (absolute, relative, '
            'trailing slash, symbolic link, blank in the directory name, moved repository) do not exist in '
            'the model: the same model run is compared whatever the spelling',
            'QuickDetectable for --quick backups: the source is shorter than the last recorded end, or a '
            'byte inside the LAST chunk\'s range differs, or the backed-up prefix is unchanged; measured per '
            'quick backup (histogram quick-backup:QuickDetectable=...), the excluded point is run from '
            'corpus/C18 and described under coverage.excluded_points',
            'verification is demanded for every data file (.fs/.fsz/.deltafs/.deltafsz) recorded by a .dat '
            'of the repository, of the newest and of superseded full backups alike; .dat and .index files '
            'are not "backup files recorded": their deletion is run on code and model and compared, but '
            'not judged (a deleted .dat of the newest full backup makes -V fail with an OSError, a deleted '
            '.dat of a superseded one goes unnoticed, a deleted .index only makes -R restore no index)',
            'recover is judged on the intact repository only (the property does not say what -R does on '
            'a damaged one): observed and mirrored by the model, e.g. -R -w does not notice a deleted '
            'middle incremental because find_files lists the directory',
        ])


def same(op, real, model):
    """compare one observation; verify/recover outcomes are compared as ok/err (error wording and
    exception kinds are internal), artefacts (bytes, .part, index) exactly"""
    if op.startswith('verify') or op.startswith('recover'):
        model = re.sub(r'^err:\S+', 'err', model)
        if op.startswith('recover') and op[-2:] in (' 2', ' 3', ' 4', ' 5'):
            # the output of an earlier recovery was in place (the op says which of file / index): "left
            # as it was" is that, not the stale stub the model starts from
            model = model.replace('idx=stale', 'idx=new')
            real = real.replace('idx=stale', 'idx=new')
            if real.startswith('err'):
                model = re.sub(r'file=(?!none)\S+', 'file=kept', model)
                real = re.sub(r'file=(?!none)\S+', 'file=kept', real)
        model = model.replace('idx=bad', 'idx=new')
        real = real.replace('idx=bad', 'idx=new')
        if 'idx=new' in real:
            model = model.replace('idx=ok', 'idx=new')
        return real == model
    if op.startswith('backup') and real.startswith('err:'):
        return model.startswith('err:')
    return real == model


if __name__ == '__main__':
    try:
        main()
    except InfraError as e:
        print('INFRA-ERROR', e)
        sys.exit(2)
