"""Coordinator helper: regenerate the generated tables of DESIGN.md section 8 (between HTML comment
markers) from known_findings.json and seeded/RESULTS.json."""
import json
import os
import re

VERIF = os.path.dirname(os.path.dirname(os.path.abspath(__file__)))


def findings_table():
    d = json.load(open(os.path.join(VERIF, 'known_findings.json')))
    rows = ['| prop | status | signature | what |', '|---|---|---|---|']
    for f in sorted(d['findings'], key=lambda f: (f['status'] != 'fixed', f['property'])):
        st = ('fixed %s' % f['commit']) if f['status'] == 'fixed' else 'OPEN'
        what = re.sub(r'^fixed: property=\S+ \S+ ', '', f['what']).replace('|', '/')
        rows.append('| %s | %s | `%s` | %s |' % (f['property'], st, f['signature'].replace('|', '¦'), what))
    return '\n'.join(rows)


def seeded_table():
    p = os.path.join(VERIF, 'seeded', 'RESULTS.json')
    if not os.path.exists(p):
        return '(no seeded change evaluated yet)'
    r = json.load(open(p))
    rows = ['| seeded change | property | what it changes | confirmed (tests / demo unpatched→patched) | result of ./check (quick) |',
            '|---|---|---|---|---|']
    for n in sorted(r):
        x = r[n]
        c = x.get('checks', {})
        cells = []
        for pid, v in c.items():
            if isinstance(v, dict):
                cells.append('%s: %s' % (pid, ('caught — `%s`' % v.get('signature')) if v.get('caught') else 'MISSED (exit %s)' % v.get('exit')))
            else:
                cells.append('%s: %s' % (pid, v))
        if x.get('obsolete'):
            cells.append('OBSOLETE: ' + x['obsolete'].replace('|', '/'))
        conf = '%s / %s→%s' % (x.get('tests', '?'), x.get('demo_unpatched_exit', '?'), x.get('demo_patched_exit', '?'))
        rows.append('| %s | %s | %s | %s | %s |' % (n, x['property'], (x.get('title') or x.get('error') or '').replace('|', '/'), conf, '; '.join(cells)))
    return '\n'.join(rows)


def benign_table():
    p = os.path.join(VERIF, 'benign', 'RESULTS.json')
    if not os.path.exists(p):
        return '(no benign change evaluated yet)'
    r = json.load(open(p))
    rows = ['| benign change | what it changes | checks run | quiet | no-failing-input-found | VIOLATION with input |',
            '|---|---|---|---|---|---|']
    for n in sorted(r):
        x = r[n]
        c = x.get('checks', {})
        k = lambda kind: [p_ for p_, v in sorted(c.items()) if v['kind'] == kind]
        other = [p_ for p_, v in sorted(c.items()) if v['kind'] not in ('quiet', 'no-failing-input-found', 'VIOLATION')]
        rows.append('| %s | %s | %d | %d | %s | %s |' % (
            n, (x.get('title') or x.get('error') or '').replace('|', '/'), len(c), len(k('quiet')),
            ', '.join(k('no-failing-input-found')) or '—', ', '.join(k('VIOLATION') + other) or '—'))
    return '\n'.join(rows)


def main():
    p = os.path.join(VERIF, 'DESIGN.md')
    s = open(p).read()
    for name, fn in (('FINDINGS', findings_table), ('SEEDED', seeded_table), ('BENIGN', benign_table)):
        a, b = '<!-- %s-BEGIN -->' % name, '<!-- %s-END -->' % name
        if a in s and b in s:
            i, j = s.index(a) + len(a), s.index(b)
            s = s[:i] + '\n' + fn() + '\n' + s[j:]
    open(p, 'w').write(s)


if __name__ == '__main__':
    main()
