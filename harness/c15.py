"""C15 — Historical connections read exactly the chosen past state and cannot write.

Correspondence: histories (stores, new objects, `del`, undo incl. un-creation, optional pack) built
through live connections with the scripted clock; then `db.open(at=…)` / `db.open(before=…)` for
every tid, tid±1 (raw 8-byte forms), exact and between-transaction datetimes, while live connections
keep committing (sequentially interleaved, plus a scheduler section where a committer thread runs
against historical readers).  [P]: every (serial, value) read through the historical connection,
refusal of future bounds, failure of commit / new_oid.  Direct oracle (model-free): the state at the
bound computed from the harness's own record of the history (newest write with tid < bound per
oid).  Model tie: the same history / probes replayed on the Lean model (Drivers/Mvcc.lean).
Multi-database section: two databases sharing `databases`, cross-database references from 'one' to
'two'; a historical connection on 'one' must show the objects of 'two' at the same bound.
Candidate finding (unchanged tree, signature C15:multi-secondary-bound-refused): when the newest
transaction of 'two' is more than one below the bound, Connection.get_connection's
databases['two'].open(before=bound) is refused as "in the future" although the bound is valid for
the historical connection; probed, counted, and reported once listed in known_findings.json.
"""
import datetime
import json
import logging
import os
import shutil
import sys

sys.path.insert(0, os.path.dirname(os.path.abspath(__file__)))
from common import Check, InfraError, run_driver, ddmin  # noqa: E402
import clock  # noqa: E402

logging.disable(logging.CRITICAL)
SCONV = 60.0 / (1 << 16) / (1 << 16)


def val_of(o):
    """the state of a test object: MinPO.value, or the integer held by a Blob's data"""
    if hasattr(o, 'open') and not hasattr(o, 'value'):
        with o.open('r') as f:
            return int(f.read())
    return o.value


def set_val(o, v):
    if hasattr(o, 'open') and not hasattr(o, 'value'):
        with o.open('w') as f:
            f.write(b'%d' % v)
    else:
        o.value = v


# ---------------------------------------------------------------- independent tid arithmetic
def raw_of_datetime(dt):
    """the 64-bit tid of a (naive, UTC) datetime — written from the TimeStamp format description,
    not by calling TimeStamp"""
    v = ((((dt.year - 1900) * 12 + dt.month - 1) * 31 + dt.day - 1) * 24 + dt.hour) * 60 + dt.minute
    sec = dt.second + dt.microsecond / 1000000.0
    return (v << 32) | int(sec / SCONV)


def datetime_of_raw(raw):
    v, low = raw >> 32, raw & 0xffffffff
    mi = v % 60
    v //= 60
    h = v % 24
    v //= 24
    d = v % 31 + 1
    v //= 31
    mo = v % 12 + 1
    y = v // 12 + 1900
    total = int(round(low * SCONV * 1000000))
    whole, micro = divmod(total, 1000000)
    if whole >= 60:
        whole, micro = 59, 999999
    return datetime.datetime(y, mo, d, h, mi, whole, micro)


def p64(n):
    return n.to_bytes(8, 'big')


def u64(b):
    return int.from_bytes(b, 'big')


# ---------------------------------------------------------------- generator
def gen_ops(rng, n, kind):
    ops = []
    for _ in range(n):
        r = rng.random()
        if r < 0.40:
            ops.append(['set', rng.randrange(1, 4), rng.randrange(1 << 30)])
        elif r < 0.58:
            ops.append(['new', rng.randrange(1 << 30)])
        elif r < 0.70:
            ops.append(['del', rng.randrange(1 << 30)])
        elif r < 0.84 and kind == 'file':
            ops.append(['undo', rng.choice([0, 0, 1, 2])])
        elif r < 0.88 and kind == 'file':
            # a live commit whose vote is watched by a historical connection (read during the vote /
            # after it), which then finishes or aborts; values keep one pickle layout
            mode = rng.choice(['during-commit', 'during-commit', 'during-abort', 'after-abort', 'after-abort',
                               'after-commit'])
            if mode.startswith('during'):
                # make the newest revision of an object an undo record (data behind a back pointer)
                ops += [['set', 1, rng.randrange(1 << 30)], ['undo', 0]]
            ops.append(['vw', mode, rng.randrange(1 << 20, 1 << 30)])
        elif r < 0.905 and kind == 'file':
            ops.append(['delobj', rng.randrange(1 << 30)])      # storage-level deleteObject
            if rng.random() < 0.6:
                ops.append(['recreate', rng.randrange(1 << 30)])    # store() again on top of the deletion record
        elif r < 0.92 and kind == 'file':
            ops.append(['restore', rng.randrange(1 << 30)])     # storage-level restore() of an unreachable object
        elif r < 0.93:
            ops.append(['newset', rng.randrange(1 << 30)])
        else:
            ops.append(['set', 1, rng.randrange(1 << 30)])
    return ops


def gen_case(rng, thorough):
    kind = rng.choice(['file', 'file', 'map'])
    n1 = rng.choice([3, 5, 7, 9] if not thorough else [3, 6, 9, 12])
    case = dict(kind=kind, ops=gen_ops(rng, n1, kind), later=gen_ops(rng, rng.choice([2, 3, 5]), kind),
                live=rng.choice([1, 2]), pack=None, sched=None, probe_seed=rng.randrange(1 << 30))
    if rng.random() < (0.45 if kind == 'file' else 0.35):
        # (MappingStorage packs with garbage collection: objects unreachable from the pack time on are
        # then left out of the by-oid read-outs — what pack may remove is C07)
        case['pack'] = rng.randrange(1, n1)          # pack time: just after that many history ops
        # when the pack RUNS: right then, after the whole history (so transactions newer than the pack
        # time are copied by the packer), or while historical connections are open and live ones commit
        case['pack_when'] = rng.choice(['now', 'end', 'end', 'later'])
        case['pack_days'] = rng.choice([0, 0, 1, 3])  # db.pack(t + days * 86400, days=days): same pack time
        case['tz'] = rng.choice([None, None, 'JST-9', 'EST5EDT', 'NPT-5:45'])     # process time zone while packing
        # make sure the pack frees something and an object has >= 2 revisions after the pack time
        k = case['pack']
        case['ops'][k:k] = [['set', 1, rng.randrange(1 << 30)]] if k >= 2 else []
        case['ops'] += [['set', 2, rng.randrange(1 << 30)], ['set', 2, rng.randrange(1 << 30)]]
    case['blobs'] = kind == 'file' and rng.random() < 0.4      # new objects are Blobs now and then
    case['hist_pool'] = rng.choice([3, 3, 1])
    case['hist_timeout'] = rng.choice([300, 300, 4])          # in ticks of the scripted clock
    case['ctor'] = rng.choice(['direct', 'direct', 'config'])
    case['clock'] = 1.0 if case.get('pack') is not None else rng.choice([1.0, 1.0, 1.0, 0.0, -1.0])
    if rng.random() < (0.5 if thorough else 0.25):
        case['sched'] = dict(seed=rng.randrange(1 << 30), stick=rng.choice([0.0, 0.5, 0.8]))
    if rng.random() < 0.4:
        case['multi'] = dict(ops=gen_multi_ops(rng, rng.choice([4, 6, 9])),
                             later=gen_multi_ops(rng, rng.choice([2, 3, 4])))
    return case


def gen_multi_ops(rng, n):
    """transactions over a two-database multi-database ('one' holds cross-database references to 'two')"""
    ops = [['xnew', rng.randrange(1 << 30)]]
    for _ in range(n):
        r = rng.random()
        v = rng.randrange(1 << 30)
        if r < 0.22:
            ops.append(['set2', v])
        elif r < 0.36:
            ops.append(['set1', v])
        elif r < 0.50:
            ops.append(['both', v])
        elif r < 0.62:
            ops.append(['xnew', v])
        elif r < 0.72:
            ops.append(['new2', v])
        elif r < 0.82:
            ops.append(['xref', v])
        elif r < 0.90:
            ops.append(['new1', v])
        else:
            ops.append(['del2', v])
    return ops


class _TfileProxy:
    """stands in for FileStorage._tfile (instance attribute, harness process only): the first read()
    after arming — tpc_vote's cp() after the transaction header went into the write buffer, before
    the records — runs a hook (a historical read) at a point inside the vote"""

    def __init__(self, f):
        self.__dict__['_f'] = f
        self.__dict__['_hook'] = None

    def read(self, *a):
        h = self.__dict__['_hook']
        if h is not None:
            self.__dict__['_hook'] = None
            h()
        return self.__dict__['_f'].read(*a)

    def __getattr__(self, n):
        return getattr(self.__dict__['_f'], n)


class VoteAbort(Exception):
    pass


class VoteWindow:
    """resource manager voting AFTER the storage: lets a hook look at the database between the
    storage's vote and its finish / abort, and optionally makes the transaction fail"""

    def __init__(self, tm, hook, fail):
        self.transaction_manager, self.hook, self.fail = tm, hook, fail

    def sortKey(self):
        return '~~~vote-window'

    def abort(self, t):
        pass

    def tpc_begin(self, t):
        pass

    def commit(self, t):
        pass

    def tpc_vote(self, t):
        if self.hook:
            self.hook()
        if self.fail:
            raise VoteAbort()

    def tpc_finish(self, t):
        pass

    def tpc_abort(self, t):
        pass


# ---------------------------------------------------------------- the harness's own record
class Record:
    """what the harness knows it committed: [(tid, {oid: value})]; value: int, dict (root), None"""

    def __init__(self):
        self.txns = []
        self.all_oids = set()
        self.hidden = set()      # oids a garbage-collecting pack was entitled to remove

    def add(self, tid, writes):
        self.txns.append((tid, dict(writes)))
        self.all_oids.update(writes)

    def state_at(self, bound):
        st = {}
        for tid, w in self.txns:
            if tid < bound:
                for oid, v in w.items():
                    st[oid] = (tid, v)
        return st

    def oids(self):
        return sorted(self.all_oids - self.hidden)

    def hide_garbage(self, packed_upto):
        """after a garbage-collecting pack: objects not reachable from the root in the state at the
        pack time nor in any later state may be gone"""
        live = set()
        st = self.state_at(packed_upto + 1)
        maps = [st[0][1]] if 0 in st and st[0][1] is not None else []
        maps += [w[0] for tid, w in self.txns if tid > packed_upto and 0 in w and w[0] is not None]
        for m in maps:
            live.update(m.values())
        self.hidden |= {o for o in self.all_oids if o != 0 and o not in live and
                        any(tid <= packed_upto and o in w for tid, w in self.txns)}

    def current(self):
        return self.state_at(1 << 70)

    def ltid(self):
        return self.txns[-1][0] if self.txns else 0


def expected_reads(rec, bound, oids):
    """canonical observation list of a full read-out at `bound`"""
    st = rec.state_at(bound)
    out = []
    if 0 not in st or st[0][1] is None:
        out.append('root KeyError')
    else:
        mapping = st[0][1]
        out.append('root serial=%d names=%s' % (st[0][0], ','.join(sorted(mapping))))
        for name in sorted(mapping):
            oid = mapping[name]
            ser, v = st[oid]
            out.append('name %s oid=%d serial=%d val=%s' % (name, oid, ser, v))
    for oid in oids:
        if oid == 0:
            continue
        if oid not in st or st[oid][1] is None:
            out.append('oid %d KeyError' % oid)
        else:
            out.append('oid %d serial=%d val=%s' % (oid, st[oid][0], st[oid][1]))
    return out


def real_reads(conn, oids, minimize=False):
    from ZODB.POSException import POSKeyError
    if minimize:
        conn.cacheMinimize()
    out = []
    try:
        root = conn.root()
        names = sorted(root.keys())
        out.append('root serial=%d names=%s' % (u64(root._p_serial), ','.join(names)))
        for name in names:
            try:
                o = root[name]
                v = val_of(o)
                out.append('name %s oid=%d serial=%d val=%s' % (name, u64(o._p_oid), u64(o._p_serial), v))
            except POSKeyError:
                out.append('name %s KeyError' % name)
            except Exception as e:      # noqa: BLE001  (damaged storage)
                out.append('name %s ERROR %s' % (name, type(e).__name__))
    except POSKeyError:
        out.append('root KeyError')
    for oid in oids:
        if oid == 0:
            continue
        try:
            o = conn.get(p64(oid))
            v = val_of(o)
            out.append('oid %d serial=%d val=%s' % (oid, u64(o._p_serial), v))
        except POSKeyError:
            out.append('oid %d KeyError' % oid)
        except Exception as e:          # noqa: BLE001
            out.append('oid %d ERROR %s' % (oid, type(e).__name__))
    return out


# ---------------------------------------------------------------- running a case
class Verdict(Exception):
    """an observation of the implementation that is itself a violation (never an InfraError: an exit 2
    on a changed tree would be neither caught nor clean)"""

    def __init__(self, sig, what):
        Exception.__init__(self, what)
        self.sig, self.what = sig, what


class StopCase(Exception):
    """the history was damaged by a write that must have failed: stop probing this case"""


class Obs:
    def __init__(self):
        self.bad = []        # (signature, what)   real != oracle
        self.lines = []      # model driver ops
        self.expect = []     # parallel expectations (None = no check)
        self.nprobe = 0
        self.nontrivial = False
        self.hist = {}
        self.findings = []   # candidate findings of the unchanged tree (reported only when listed as known)

    def count(self, k, n=1):
        self.hist[k] = self.hist.get(k, 0) + n

    def model(self, line, exp=None):
        self.lines.append(line)
        self.expect.append(exp)


def model_txn(obs, tid, writes, ntxn):
    ws = []
    for oid in sorted(writes):
        v = writes[oid]
        ws.append('%d:%s' % (oid, '-' if v is None else (ntxn if isinstance(v, dict) else v)))
    obs.model('begin x %d' % tid, 'ok')
    obs.model('store [%s]' % ','.join(ws), None)
    obs.model('vote', 'ok')
    obs.model('enter', 'ok')
    obs.model('publish', 'ok')


class World:
    def __init__(self, case, tmp, obs):
        import transaction
        import ZODB
        from ZODB.FileStorage import FileStorage
        from ZODB.MappingStorage import MappingStorage
        self.case, self.obs = case, obs
        d = os.path.join(tmp, 'c15case')
        shutil.rmtree(d, ignore_errors=True)
        os.makedirs(d)
        self.dir = d
        if case['kind'] == 'file':
            self.fspath = os.path.join(d, 'Data.fs')
            self.blobdir = os.path.join(d, 'blobs') if case.get('blobs') else None
            if case.get('ctor') == 'config':
                import ZODB.config
                self.st = ZODB.config.storageFromString(
                    '<filestorage>\n path %s\n pack-gc false\n%s</filestorage>\n'
                    % (self.fspath, ' blob-dir %s\n' % self.blobdir if self.blobdir else ''))
            else:
                self.st = FileStorage(self.fspath, pack_gc=False, blob_dir=self.blobdir)
            self.st._tfile = _TfileProxy(self.st._tfile)
        else:
            self.st = MappingStorage()
        self.no_undo = set()     # indices in rec.txns that are never undone (deleteObject and its `del`)
        self.is_blob = {}        # oid -> True for Blob objects
        self.deleted = {}        # oid -> tid of its deleteObject record (while that is its newest record)
        self.root_frozen = 0     # root changes before this index are never undone (an unreachable object
        #                          rewritten behind the live connections' backs must stay unreachable)
        self.rec = Record()
        self.last_touch = {}     # oid -> index in rec.txns of the last txn that wrote it
        self.packed_upto = 0     # bounds must be > this tid
        self.db = ZODB.DB(self.st, historical_pool_size=case.get('hist_pool', 3),
                          historical_timeout=case.get('hist_timeout', 300),
                          historical_cache_size=case.get('hist_cache', 1000))
        self.note_commit({0: {}})
        self.tms = [transaction.TransactionManager() for _ in range(case['live'])]
        self.conns = [self.db.open(tm) for tm in self.tms]
        self.nname = 0
        self.turn = 0
        self.export = None       # an export file made through a live connection (for importFile)

    def new_object(self, v):
        from ZODB.blob import Blob
        from ZODB.tests.MinPO import MinPO
        if self.case.get('blobs') and v % 3 == 0:
            return Blob(b'%d' % v)
        return MinPO(v)

    def note_commit(self, writes):
        tid = u64(self.st.lastTransaction())
        if self.rec.txns and tid <= self.rec.ltid():
            raise Verdict('C15:commit-did-not-advance-lasttransaction',
                          'after a successful commit lastTransaction() is %d, the newest transaction before it '
                          'was %d: the commit got no tid of its own' % (tid, self.rec.ltid()))
        self.rec.add(tid, writes)
        model_txn(self.obs, tid, writes, len(self.rec.txns))
        for oid in writes:
            self.last_touch[oid] = len(self.rec.txns) - 1
        return tid

    def apply(self, op):
        """one history transaction through a live connection; returns True if it committed"""
        from ZODB.tests.MinPO import MinPO
        self.turn += 1
        k = self.turn % len(self.conns)
        tm, c = self.tms[k], self.conns[k]
        tm.begin()
        cur = self.rec.current()
        mapping = dict(cur[0][1])
        root = c.root()
        kind = op[0]
        self.obs.count('op:' + kind)
        try:
            if kind == 'set':
                names = sorted(mapping)
                if not names:
                    tm.abort()
                    return False
                pick = [names[(op[2] + j * 7) % len(names)] for j in range(op[1])]
                writes = {}
                for j, name in enumerate(sorted(set(pick))):
                    set_val(root[name], op[2] + j)
                    writes[mapping[name]] = op[2] + j
                tm.commit()
                self.note_commit(writes)
            elif kind in ('new', 'newset'):
                name = 'n%d' % self.nname
                self.nname += 1
                o = self.new_object(op[1])
                c.add(o)
                root[name] = o
                writes = {u64(o._p_oid): op[1]}
                mapping[name] = u64(o._p_oid)
                self.is_blob[u64(o._p_oid)] = not hasattr(o, 'value')
                if kind == 'newset' and len(mapping) > 1:
                    other = sorted(n for n in mapping if n != name)[op[1] % (len(mapping) - 1)]
                    set_val(root[other], op[1] + 1)
                    writes[mapping[other]] = op[1] + 1
                writes[0] = mapping
                tm.commit()
                self.note_commit(writes)
            elif kind == 'del':
                names = sorted(mapping)
                if not names:
                    tm.abort()
                    return False
                name = names[op[1] % len(names)]
                del root[name]
                del mapping[name]
                tm.commit()
                self.note_commit({0: mapping})
            elif kind == 'undo':
                idx = len(self.rec.txns) - 1 - op[1]
                if idx < 1:
                    tm.abort()
                    return False
                tid, w = self.rec.txns[idx]
                if tid <= self.packed_upto or idx in self.no_undo or (0 in w and idx < self.root_frozen) or \
                        any(self.last_touch[oid] != idx for oid in w):
                    tm.abort()
                    self.obs.count('undo-skipped')
                    return False
                log = self.db.undoLog(0, 50)
                ids = [e['id'] for e in log if e['id'] and self._id_tid(e['id']) == tid]
                if not ids:
                    tm.abort()
                    self.obs.count('undo-not-in-log')
                    return False
                self.db.undo(ids[0], tm.get())
                tm.commit()
                pre = self.rec.state_at(tid)
                self.note_commit({oid: (pre[oid][1] if oid in pre else None) for oid in w})
            elif kind == 'delobj':
                names = sorted(mapping)
                if not names or self.case['kind'] != 'file':
                    tm.abort()
                    return False
                name = names[op[1] % len(names)]
                oid = mapping[name]
                del root[name]
                del mapping[name]
                tm.commit()
                self.note_commit({0: mapping})
                self.no_undo.add(len(self.rec.txns) - 1)
                # the object is unreachable now: delete it at the storage level (what an external
                # garbage collector does): IExternalGC.deleteObject in its own transaction
                from ZODB.Connection import TransactionMetaData
                t = TransactionMetaData()
                serial = self.rec.current()[oid][0]
                self.st.tpc_begin(t)
                try:
                    self.st.deleteObject(p64(oid), p64(serial), t)
                    self.st.tpc_vote(t)
                    self.st.tpc_finish(t)
                except Exception:
                    self.st.tpc_abort(t)
                    raise
                self.deleted[oid] = self.note_commit({oid: None})
                self.no_undo.add(len(self.rec.txns) - 1)
            elif kind == 'recreate':
                # a plain store() under the oid of a deleted object, on top of its deletion record
                tm.abort()
                if not self.deleted or self.case['kind'] != 'file':
                    return False
                oid = sorted(self.deleted)[op[1] % len(self.deleted)]
                from ZODB.Connection import TransactionMetaData
                from ZODB.tests.MinPO import MinPO
                from ZODB.tests.StorageTestBase import zodb_pickle
                t = TransactionMetaData()
                self.st.tpc_begin(t)
                try:
                    self.st.store(p64(oid), p64(self.deleted[oid]), zodb_pickle(MinPO(op[1])), '', t)
                    self.st.tpc_vote(t)
                    self.st.tpc_finish(t)
                except Exception:
                    self.st.tpc_abort(t)
                    raise
                del self.deleted[oid]
                self.note_commit({oid: op[1]})
                self.no_undo.add(len(self.rec.txns) - 1)
                self.root_frozen = len(self.rec.txns)
            elif kind == 'restore':
                # copy-style write of a new revision (IStorageRestoreable.restore, no invalidations) for an
                # object that is no longer reachable
                unreach = sorted(o for o, (ser, v) in cur.items()
                                 if o != 0 and v is not None and isinstance(v, int) and o not in mapping.values()
                                 and not self.is_blob.get(o))
                if not unreach or self.case['kind'] != 'file':
                    tm.abort()
                    return False
                tm.abort()
                oid = unreach[op[1] % len(unreach)]
                from ZODB.Connection import TransactionMetaData
                from ZODB.tests.MinPO import MinPO
                from ZODB.tests.StorageTestBase import zodb_pickle
                t = TransactionMetaData()
                self.st.tpc_begin(t)
                try:
                    self.st.restore(p64(oid), self.st._tid, zodb_pickle(MinPO(op[1])), '', None, t)
                    self.st.tpc_vote(t)
                    self.st.tpc_finish(t)
                except Exception:
                    self.st.tpc_abort(t)
                    raise
                self.note_commit({oid: op[1]})
                self.no_undo.add(len(self.rec.txns) - 1)
                self.root_frozen = len(self.rec.txns)
            elif kind == 'vw':
                return self.vote_window(op, tm, c, root, mapping)
            return True
        except Exception:
            tm.abort()
            raise

    def vote_window(self, op, tm, c, root, mapping):
        """a live commit watched by a historical connection at the current state: it reads everything
        from the storage DURING the vote (between the vote's writes) or AFTER it; the commit then
        finishes or aborts (followed by a commit of the same layout); the historical view must never
        change and later commits must be intact"""
        import transaction
        obs, rec = self.obs, self.rec
        names = sorted(mapping)
        if not names or self.case['kind'] != 'file':
            tm.abort()
            return False
        mode, v = op[1], op[2]
        pick = sorted(set(names[(v + j * 5) % len(names)] for j in range(2)))
        ltid = rec.ltid()
        htm = transaction.TransactionManager()
        h = self.db.open(htm, at=p64(ltid))
        oids = rec.oids()
        exp = expected_reads(rec, ltid + 1, oids)
        ctx = 'at=%d (vote window, %s)' % (ltid, mode)

        def look(where, newest=None):
            obs.nprobe += 1
            obs.count('vote-window-read:' + where)
            check_reads(obs, 'historical read ' + where, 'C15:read-differs',
                        real_reads(h, oids, minimize=True), exp, ctx)
            # the newest transaction is still the last FINISHED one: a voted transaction is not a point
            # of the history yet (and never becomes one if it is vetoed)
            newest = ltid if newest is None else newest
            got = u64(self.db.lastTransaction())
            if got != newest:
                obs.bad.append(('C15:unfinished-tid-is-newest', '%s: DB.lastTransaction() is %d %s, the newest '
                                'finished transaction is %d' % (ctx, got, where, newest)))
            try:
                hx = self.db.open(transaction.TransactionManager(), at=p64(newest + 1))
                hx.close()
                obs.bad.append(('C15:future-accepted', '%s: open(at=%d) accepted %s although the newest '
                                'transaction is %d' % (ctx, newest + 1, where, newest)))
            except ValueError:
                obs.count('vote-window-future-refused')

        def write(delta):
            w = {}
            for j, name in enumerate(pick):
                set_val(root[name], (v ^ delta) + j)
                w[mapping[name]] = (v ^ delta) + j
            return w

        writes = write(0)
        if mode.startswith('during'):
            self.st._tfile.__dict__['_hook'] = lambda: look('during a live vote')
        tm.get().join(VoteWindow(tm, (lambda: look('between a live vote and its outcome'))
                                 if mode.startswith('after') else None, mode.endswith('abort')))
        try:
            tm.commit()
            committed = True
        except VoteAbort:
            tm.abort()
            committed = False
        finally:
            self.st._tfile.__dict__['_hook'] = None
        if committed:
            self.note_commit(writes)
        else:
            tm.begin()
            writes = write(1)                   # same objects, same pickle layout, other values
            tm.commit()
            self.note_commit(writes)
        exp_after = exp
        look('after the outcome', rec.ltid())
        h2 = self.db.open(transaction.TransactionManager(), at=p64(rec.ltid()))
        check_reads(obs, 'historical read of the commit that followed a watched vote', 'C15:read-differs',
                    real_reads(h2, oids, minimize=True), expected_reads(rec, rec.ltid() + 1, oids),
                    'at=%d' % rec.ltid())
        h2.close()
        htm.abort()
        h.close()
        return True

    @staticmethod
    def _id_tid(b):
        import base64
        try:
            return u64(base64.decodebytes(b + b'\n'))
        except Exception:   # noqa: BLE001
            return None

    def make_export(self):
        """an export file of one reachable object, made through a live connection"""
        import io
        cur = self.rec.current()
        names = sorted(cur[0][1]) if 0 in cur and cur[0][1] else []
        plain = [n for n in names if not self.is_blob.get(cur[0][1][n])]
        if plain:
            tm, c = self.tms[0], self.conns[0]
            tm.begin()
            f = io.BytesIO()
            c.exportFile(p64(cur[0][1][plain[0]]), f)
            self.export = f.getvalue()

    def reopen(self):
        """close the DB object and open a new one on the same file (saved index, packed or not)"""
        import transaction
        import ZODB
        from ZODB.FileStorage import FileStorage
        for tm, c in zip(self.tms, self.conns):
            tm.abort()
            c.close()
        self.db.close()
        self.st = FileStorage(self.fspath, pack_gc=False, blob_dir=self.blobdir)
        self.st._tfile = _TfileProxy(self.st._tfile)
        self.db = ZODB.DB(self.st, historical_pool_size=self.case.get('hist_pool', 3),
                          historical_timeout=self.case.get('hist_timeout', 300))
        self.tms = [transaction.TransactionManager() for _ in self.tms]
        self.conns = [self.db.open(tm) for tm in self.tms]
        self.obs.count('db-reopened')

    def pack_point(self):
        """fix the pack time just after the newest transaction; bounds and undos at or before it are
        no longer used (a historical point must not be older than the last pack)"""
        self.packed_upto = self.rec.ltid()

    def pack_run(self):
        """run the pack for the fixed pack time through DB.pack(t, days)"""
        from ZODB.TimeStamp import TimeStamp
        t = TimeStamp(p64(self.packed_upto)).timeTime() + 0.5
        days = self.case.get('pack_days', 0)
        import time as _time
        tz, old = self.case.get('tz'), os.environ.get('TZ')
        if tz:
            os.environ['TZ'] = tz           # the pack time is a UTC instant whatever the process zone is
            _time.tzset()
            self.obs.count('pack:tz:' + tz)
        try:
            if days:
                self.db.pack(t + days * 86400, days=days)
            else:
                self.db.pack(t)
        finally:
            if tz:
                if old is None:
                    os.environ.pop('TZ', None)
                else:
                    os.environ['TZ'] = old
                _time.tzset()
        if self.case['kind'] != 'file':
            self.rec.hide_garbage(self.packed_upto)
        self.obs.count('pack:%s:%s:days=%d' % (self.case['kind'], self.case.get('pack_when', 'now'), days))
        self.obs.count('pack:txns-after-pack-time', sum(1 for tid, _ in self.rec.txns if tid > self.packed_upto))

    def close(self):
        for tm, c in zip(self.tms, self.conns):
            try:
                tm.abort()
                c.close()
            except Exception:   # noqa: BLE001
                pass
        self.db.close()
        shutil.rmtree(self.dir, ignore_errors=True)


def probe_forms(rec, rng, packed_upto, full):
    """[(kw, python value, oracle at/before ints)] around every transaction of the record"""
    forms = []
    tids = [t for t, _ in rec.txns]
    for k, t in enumerate(tids):
        if t < packed_upto:
            continue
        cand = [('at', t), ('before', t + 1), ('at', t + 1), ('before', t), ('at', t - 1), ('before', t + 2)]
        if t == packed_upto:
            cand = [c for c in cand if (c[1] + 1 if c[0] == 'at' else c[1]) > packed_upto]
        if not full:
            cand = rng.sample(cand, 3)
        for kw, v in cand:
            forms.append((kw, p64(v), v, 'raw'))
        dt = datetime_of_raw(t)
        if raw_of_datetime(dt) == t and (full or rng.random() < 0.5):        # exact whole-second tids
            forms.append(('at', dt, t, 'dt-exact'))
            if t > packed_upto:
                forms.append(('before', dt, t, 'dt-exact'))
        nxt = tids[k + 1] if k + 1 < len(tids) else None
        mid = dt + datetime.timedelta(seconds=0.5)
        rmid = raw_of_datetime(mid)
        if (nxt is None or rmid < nxt) and rmid > t and (full or rng.random() < 0.5):
            forms.append(('at', mid, rmid, 'dt-between'))
            forms.append(('before', mid, rmid, 'dt-between'))
    # the same instants as timezone-aware datetimes (UTC and a zone 5.5 h east)
    aware = []
    for kw, val, num, form in forms:
        if form.startswith('dt-') and len(aware) < 8 and (full or rng.random() < 0.5):
            utc = val.replace(tzinfo=datetime.timezone.utc)
            aware.append((kw, utc, num, form + '-utc'))
            aware.append((kw, utc.astimezone(datetime.timezone(datetime.timedelta(hours=5, minutes=30))), num,
                          form + '-tz'))
    forms += aware
    last = tids[-1]
    far = datetime_of_raw(last) + datetime.timedelta(days=1)
    forms.append(('at', far, raw_of_datetime(far), 'dt-future'))
    forms.append(('before', far, raw_of_datetime(far), 'dt-future'))
    return forms


def check_reads(obs, what, sig, real, exp, ctx):
    if real != exp:
        diff = [(a, b) for a, b in zip(real, exp) if a != b][:2] or [(real[len(exp):][:1], exp[len(real):][:1])]
        obs.bad.append((sig, '%s: historical connection %s read %s, the state at the bound is %s'
                        % (what, ctx, diff[0][0], diff[0][1])))
        return False
    return True


def model_reads(obs, hk, rec, bound, oids):
    """model lines for a read-out of all oids through model historical instance hk"""
    st = rec.state_at(bound)
    for oid in oids:
        if oid not in st or st[oid][1] is None:
            obs.model('hread %d %d' % (hk, oid), 'err:KeyError')
        else:
            v = st[oid][1]
            obs.model('hread %d %d' % (hk, oid), dict(serial=st[oid][0], val=None if isinstance(v, dict) else v))


def open_probe(world, obs, kw, val, num, form, nhist, keep):
    """one db.open(at=…/before=…): refusal + read-out + write attempts; returns the connection if kept"""
    import transaction
    from ZODB.POSException import ReadOnlyHistoryError, ReadOnlyError
    from ZODB.tests.MinPO import MinPO
    rec = world.rec
    bound = num + 1 if kw == 'at' else num
    ltid = rec.ltid()
    want_refused = bound > ltid + 1
    obs.nprobe += 1
    obs.count('probe:%s:%s' % (kw, form))
    tm = transaction.TransactionManager()
    ctx = '%s=%s(%s)' % (kw, num, form)
    try:
        h = world.db.open(tm, **{kw: val})
    except ValueError:
        obs.model('hopen %s %d' % (kw, num), 'err:ValueError')
        obs.count('refused')
        if not want_refused:
            obs.bad.append(('C15:past-refused', 'open(%s) refused although the bound %d is not later than the '
                            'newest transaction %d' % (ctx, bound, ltid)))
        return None
    obs.model('hopen %s %d' % (kw, num), 'hist=%d before=%d' % (nhist[0], bound))
    hk = nhist[0]
    nhist[0] += 1
    if want_refused:
        obs.bad.append(('C15:future-accepted', 'open(%s) accepted although the bound %d is later than the '
                        'newest transaction %d' % (ctx, bound, ltid)))
    if h.before is None or u64(h.before) != bound:
        obs.bad.append(('C15:bound-differs', 'open(%s): connection bound %r, expected %d'
                        % (ctx, h.before and u64(h.before), bound)))
    oids = rec.oids()
    real = real_reads(h, oids, minimize=True)      # (a pooled connection of the same bound may be reused)
    check_reads(obs, 'open', 'C15:read-differs', real, expected_reads(rec, bound, oids), ctx)
    model_reads(obs, hk, rec, bound, oids)
    if bound <= ltid:
        obs.count('bound-inside-history')
    # writing through it must fail
    st = rec.state_at(bound)
    try:
        root = h.root()
        names = sorted(root.keys())
        if names:
            set_val(root[names[-1]], 1)          # (a Blob if there is one: storeBlob must be refused too)
        else:
            root['zz'] = 1
        try:
            tm.commit()
            obs.bad.append(('C15:commit-allowed', 'commit through open(%s) succeeded' % ctx))
            raise StopCase()
        except ReadOnlyHistoryError:
            obs.count('commit-refused')
        except ReadOnlyError:
            obs.count('commit-refused')
        except StopCase:
            raise
        except Exception as e:      # noqa: BLE001
            obs.bad.append(('C15:commit-wrong-error', 'commit through open(%s) was not refused as read-only '
                            'but reached the storage: %s' % (ctx, type(e).__name__)))
        tm.abort()
        obs.model('hcommit %d' % hk, 'err:ReadOnlyHistory')
    except StopCase:
        raise
    except Exception as e:     # noqa: BLE001  (no root at this bound)
        tm.abort()
        if 0 in st:
            obs.bad.append(('C15:error', 'open(%s): %r' % (ctx, e)))
    try:
        h.add(MinPO(1))
        obs.bad.append(('C15:new_oid-allowed', 'add()/new_oid through open(%s) succeeded' % ctx))
        tm.abort()
    except ReadOnlyError:
        obs.count('new_oid-refused')
        obs.model('hnewoid %d' % hk, 'err:ReadOnly')
        tm.abort()
    if 0 in st and obs.nprobe % 4 == 0:
        # a savepoint after a change, and importFile (which makes a savepoint), are commits too
        try:
            root = h.root()
            names = sorted(root.keys())
            if names:
                set_val(root[names[0]], 2)
            else:
                root['zz'] = 2
            try:
                tm.savepoint()
                obs.bad.append(('C15:savepoint-allowed', 'savepoint() after a change through open(%s) succeeded'
                                % ctx))
            except (ReadOnlyHistoryError, ReadOnlyError):
                obs.count('savepoint-refused')
            tm.abort()
            if world.export is not None:
                import io
                try:
                    h.importFile(io.BytesIO(world.export))
                    tm.commit()
                    obs.bad.append(('C15:import-allowed', 'importFile + commit through open(%s) succeeded' % ctx))
                    raise StopCase()
                except (ReadOnlyHistoryError, ReadOnlyError):
                    obs.count('import-refused')
                tm.abort()
        except StopCase:
            raise
        except Exception as e:      # noqa: BLE001
            tm.abort()
            obs.bad.append(('C15:error', 'open(%s): savepoint/import route: %r' % (ctx, e)))
    # after the abort the state is the same again
    real2 = real_reads(h, oids)
    check_reads(obs, 'after aborted write', 'C15:read-differs', real2, expected_reads(rec, bound, oids), ctx)
    if keep:
        return (h, tm, bound, hk, ctx)
    h.close()
    return None


def run_case(case, tmp, full=True):
    import random
    obs = Obs()
    rng = random.Random(case['probe_seed'])
    with clock.scripted() as clk:
        try:
            world = World(case, tmp, obs)
        except InfraError:
            raise
        except Exception as e:      # noqa: BLE001  (the implementation failed while creating the database)
            obs.bad.append(('C15:error', 'creating the database: unexpected %s: %s' % (type(e).__name__, str(e)[:200])))
            return obs
        clk.step = case.get('clock', 1.0)           # 0: stalled clock (tids differ by one), < 0: regressing
        try:
            rec = world.rec
            when = case.get('pack_when', 'now')
            for k, op in enumerate(case['ops']):
                world.apply(op)
                if case.get('pack') == k + 1:
                    world.pack_point()
                    if when == 'now':
                        world.pack_run()
            if case.get('pack') is not None and world.packed_upto and when == 'end':
                world.pack_run()
            nhist = [0]
            kept = []
            world.make_export()
            forms = probe_forms(rec, rng, world.packed_upto, full)
            keep_idx = set(rng.sample(range(len(forms)), min(3, len(forms))))
            for i, (kw, val, num, form) in enumerate(forms):
                r = open_probe(world, obs, kw, val, num, form, nhist, i in keep_idx)
                if r:
                    kept.append(r)
            # both at and before: ValueError
            try:
                world.db.open(at=p64(rec.ltid()), before=p64(rec.ltid()))
                obs.bad.append(('C15:at-and-before', 'open(at=…, before=…) accepted'))
            except ValueError:
                obs.model('hopen2 %d %d' % (rec.ltid(), rec.ltid()), 'err:ValueError')
            # live connections keep committing while the kept historical connections are open
            oids0 = rec.oids()
            snap = {id(h): real_reads(h, oids0) for h, _, _, _, _ in kept}
            live = world.conns[0]
            for j, op in enumerate(case['later']):
                touched_before = len(rec.txns)
                world.apply(op)
                if j == 0 and case.get('pack') is not None and world.packed_upto and when == 'later':
                    world.pack_run()            # the kept historical connections are open meanwhile
                if len(rec.txns) > touched_before:
                    last_w = rec.txns[-1][1]
                    for h, tm, bound, hk, ctx in kept:
                        if bound <= rec.txns[touched_before - 1][0] + 1 and bound > rec.txns[1][0] and \
                                any(oid in rec.state_at(bound) for oid in last_w):
                            obs.nontrivial = True
                for h, tm, bound, hk, ctx in kept:
                    mode = (j + hk) % 4
                    if mode == 1:
                        h.sync()
                        obs.model('hpoll %d' % hk, 'ok')
                    elif mode == 2:
                        tm.begin()
                        obs.model('hpoll %d' % hk, 'ok')
                    oids = rec.oids()
                    real = real_reads(h, oids, minimize=(mode == 3))
                    ok = check_reads(obs, 'after later commit', 'C15:moved-after-commit', real,
                                     expected_reads(rec, bound, oids), ctx)
                    if ok and oids[:len(oids0)] == oids0 and real[:len(snap[id(h)])] != snap[id(h)] \
                            and not obs.bad:
                        obs.bad.append(('C15:moved-after-commit', '%s: reads changed after a later commit' % ctx))
                    if mode == 3:
                        model_reads(obs, hk, rec, bound, oids)
            # cache of a live connection is not shared with a historical one (and vice versa)
            for h, tm, bound, hk, ctx in kept:
                shared = h._cache is live._cache
                try:
                    shared = shared or h.get(p64(0)) is live.get(p64(0))
                except Exception:       # noqa: BLE001  (no root at that bound)
                    pass
                if shared:
                    obs.bad.append(('C15:cache-shared', '%s shares cache/objects with a live connection' % ctx))
            # an old bound opened anew after the later commits shows the old state
            for kw, val, num, form in forms[:: max(1, len(forms) // 6)]:
                bound = num + 1 if kw == 'at' else num
                if bound <= rec.txns[len(case['ops'])][0] + 1 if len(rec.txns) > len(case['ops']) else True:
                    open_probe(world, obs, kw, val, num, form, nhist, False)
            for h, tm, bound, hk, ctx in kept:
                tm.abort()
                h.close()
            # pooled reuse of a historical connection keyed by its bound
            if kept:
                h, tm, bound, hk, ctx = kept[0]
                h2 = world.db.open(before=p64(bound))
                oids = rec.oids()
                check_reads(obs, 'pooled historical reopen', 'C15:read-differs', real_reads(h2, oids),
                            expected_reads(rec, bound, oids), ctx)
                if h2 is h:
                    obs.count('historical-pool-reuse')
                h2.close()
            # a new DB object on the same file (after the packs, undos, deletions): the same past
            if case['kind'] == 'file':
                world.reopen()
                lt = u64(world.st.lastTransaction())
                if lt < rec.ltid():
                    # known finding (unchanged tree, recorded open): the pack dropped the newest transaction
                    # (it held only a deleteObject record) and the reopened storage's lastTransaction()
                    # went backwards; the newest points are then refused as "in the future"
                    obs.count('known:pack-reopen-lasttransaction-backwards')
                    obs.findings.append(('C15:pack-reopen-lasttransaction-backwards',
                                         'after pack and reopen lastTransaction() is %d, it was %d' % (lt, rec.ltid())))
                for kw, val, num, form in forms[1:: max(1, len(forms) // 5)]:
                    bound = num + 1 if kw == 'at' else num
                    if bound <= lt + 1 and lt == rec.ltid():
                        open_probe(world, obs, kw, val, num, form + '/reopened', nhist, False)
        except InfraError:
            raise
        except StopCase:
            pass
        except Verdict as v:
            obs.bad.append((v.sig, v.what))
        except Exception as e:      # noqa: BLE001
            obs.bad.append(('C15:error', 'unexpected %s: %s' % (type(e).__name__, str(e)[:200])))
        finally:
            world.close()
    for flag, section in (('sched', run_sched_section), ('multi', run_multi_section)):
        if case.get(flag) and not obs.bad:
            try:
                section(case, tmp, obs)
            except InfraError:
                raise
            except Verdict as v:
                obs.bad.append((v.sig, v.what))
            except Exception as e:      # noqa: BLE001  (set-up of the section on a changed tree)
                obs.bad.append(('C15:%s-error' % flag, '%s section: unexpected %s: %s'
                                % (flag, type(e).__name__, str(e)[:200])))
    return obs


def run_sched_section(case, tmp, obs):
    """a committer thread and historical reader threads under the deterministic scheduler"""
    import random
    import sched
    import transaction
    import ZODB
    from ZODB.MappingStorage import MappingStorage
    from ZODB.FileStorage import FileStorage
    from ZODB.tests.MinPO import MinPO
    rng = random.Random(case['sched']['seed'])
    d = os.path.join(tmp, 'c15sched')
    shutil.rmtree(d, ignore_errors=True)
    os.makedirs(d)
    with clock.scripted(), sched.installed():
        st = FileStorage(os.path.join(d, 'Data.fs')) if case['kind'] == 'file' else MappingStorage()
        db = ZODB.DB(st)
        rec = Record()
        rec.add(u64(st.lastTransaction()), {0: {}})
        tm = transaction.TransactionManager()
        c = db.open(tm)
        root = c.root()
        mapping = {}
        for i in range(3):
            o = MinPO(i)
            c.add(o)
            root['k%d' % i] = o
            mapping['k%d' % i] = u64(o._p_oid)
        tm.commit()
        w0 = {mapping['k%d' % i]: i for i in range(3)}
        w0[0] = dict(mapping)
        rec.add(u64(st.lastTransaction()), w0)
        for r in range(2):
            root['k%d' % (r % 3)].value = 100 + r
            tm.commit()
            rec.add(u64(st.lastTransaction()), {mapping['k%d' % (r % 3)]: 100 + r})
        c.close()
        base_txns = list(rec.txns)
        bounds = [base_txns[rng.randrange(1, len(base_txns))][0] + rng.choice([0, 1]) for _ in range(2)]
        results = {}

        def committer():
            tmw = transaction.TransactionManager()
            cw = db.open(tmw)
            for r in range(4):
                rw = cw.root()
                rw['k%d' % (r % 3)].value = 1000 + r
                rw['k%d' % ((r + 1) % 3)].value = 1000 + r
                tmw.commit()
            cw.close()

        def reader(name, bound):
            tmr = transaction.TransactionManager()
            out = []
            for rnd in range(3):
                h = db.open(tmr, before=p64(bound))
                oids = rec.oids()
                out.append(real_reads(h, oids, minimize=(rnd == 1)))
                tmr.abort()
                out.append(real_reads(h, oids))
                h.close()
            results[name] = out

        s = sched.Scheduler(seed=case['sched']['seed'], stickiness=case['sched']['stick'])
        s.spawn('w', committer)
        for i, b in enumerate(bounds):
            s.spawn('h%d' % i, reader, 'h%d' % i, b)
        res = s.run(timeout=60)
        obs.count('sched-sections')
        if res['deadlock'] or res['errors']:
            obs.bad.append(('C15:sched-error', 'scheduler section: deadlock=%s errors=%r'
                            % (res['deadlock'], {k: repr(v)[:200] for k, v in res['errors'].items()})))
        else:
            for i, b in enumerate(bounds):
                exp = expected_reads(rec, b, rec.oids())
                for got in results.get('h%d' % i, []):
                    obs.nprobe += 1
                    if not check_reads(obs, 'under concurrent commits', 'C15:moved-after-commit', got, exp,
                                       'before=%d' % b):
                        break
            obs.nontrivial = True
        db.close()
    shutil.rmtree(d, ignore_errors=True)


# ---------------------------------------------------------------- multi-database section
def expected_multi(rec1, rec2, bound, oids2):
    st1, st2 = rec1.state_at(bound), rec2.state_at(bound)
    out = []
    if 0 not in st1:
        out.append('root1 KeyError')
    else:
        mapping = st1[0][1]
        out.append('root1 serial=%d names=%s' % (st1[0][0], ','.join(sorted(mapping))))
        for name in sorted(mapping):
            dbn, oid = mapping[name]
            st = st1 if dbn == 'one' else st2
            if oid not in st or st[oid][1] is None:
                out.append('name %s KeyError' % name)
            else:
                out.append('name %s db=%s oid=%d serial=%d val=%s' % (name, dbn, oid, st[oid][0], st[oid][1]))
    return out + ['two: ' + l for l in expected_reads(rec2, bound, oids2)]


def real_multi(h, oids2):
    from ZODB.POSException import POSKeyError
    out = []
    try:
        root = h.root()
        names = sorted(root.keys())
        out.append('root1 serial=%d names=%s' % (u64(root._p_serial), ','.join(names)))
        for name in names:
            try:
                o = root[name]                      # a cross-database reference for the x… names
                v = o.value
                out.append('name %s db=%s oid=%d serial=%d val=%s'
                           % (name, o._p_jar.db().database_name, u64(o._p_oid), u64(o._p_serial), v))
            except POSKeyError:
                out.append('name %s KeyError' % name)
    except POSKeyError:
        out.append('root1 KeyError')
    h2 = h.get_connection('two')
    return out + ['two: ' + l for l in real_reads(h2, oids2)], h2


def run_multi_section(case, tmp, obs):
    """two databases sharing `databases`; historical connections on 'one' must show the objects of
    'two' (reached through cross-database references and get_connection) at the SAME bound, and a
    change to such an object must not be committable"""
    import random
    import transaction
    import ZODB
    from ZODB.FileStorage import FileStorage
    from ZODB.MappingStorage import MappingStorage
    from ZODB.POSException import ReadOnlyHistoryError, ReadOnlyError
    from ZODB.tests.MinPO import MinPO
    rng = random.Random(case['probe_seed'] + 17)
    d = os.path.join(tmp, 'c15multi')
    shutil.rmtree(d, ignore_errors=True)
    os.makedirs(d)
    obs.model('reset', 'ok')                        # the model replays database 'two' of this section
    with clock.scripted():
        dbs = {}
        sts = {}
        recs = {}
        for n in ('one', 'two'):
            sts[n] = FileStorage(os.path.join(d, n + '.fs')) if case['kind'] == 'file' else MappingStorage(n)
            ZODB.DB(sts[n], databases=dbs, database_name=n)
            recs[n] = Record()
            recs[n].add(u64(sts[n].lastTransaction()), {0: {}})
        model_txn(obs, recs['two'].ltid(), {0: {}}, 1)
        rec1, rec2 = recs['one'], recs['two']
        tm = transaction.TransactionManager()
        c1 = dbs['one'].open(tm)
        c2 = c1.get_connection('two')
        cnt = [0]

        def commit(w1, w2):
            tm.commit()
            for n, w in (('one', w1), ('two', w2)):
                lt = u64(sts[n].lastTransaction())
                if lt != recs[n].ltid():
                    recs[n].add(lt, w)
                    if n == 'two':
                        model_txn(obs, lt, w, len(recs[n].txns))
                elif w:
                    raise Verdict('C15:commit-did-not-advance-lasttransaction',
                                  'multi-database commit: lastTransaction() of database %r did not advance '
                                  'although the transaction wrote to it' % n)

        def apply(op):
            tm.begin()
            m1 = dict(rec1.current()[0][1])
            m2 = dict(rec2.current()[0][1])
            r1, r2 = c1.root(), c2.root()
            k, v = op
            obs.count('multi-op:' + k)
            cnt[0] += 1
            loc1 = sorted(n for n in m1 if m1[n][0] == 'one')
            n2 = sorted(m2)
            w1, w2 = {}, {}
            if k == 'set2' and n2:
                name = n2[v % len(n2)]
                r2[name].value = v
                w2[m2[name]] = v
            elif k == 'set1' and loc1:
                name = loc1[v % len(loc1)]
                r1[name].value = v
                w1[m1[name][1]] = v
            elif k == 'both' and n2:
                name = n2[v % len(n2)]
                r2[name].value = v
                w2[m2[name]] = v
                if loc1:
                    nm = loc1[v % len(loc1)]
                    r1[nm].value = v + 1
                    w1[m1[nm][1]] = v + 1
                else:
                    r1['m%d' % cnt[0]] = o = MinPO(v + 1)
                    c1.add(o)
                    m1['m%d' % cnt[0]] = ('one', u64(o._p_oid))
                    w1[u64(o._p_oid)] = v + 1
                    w1[0] = m1
            elif k == 'xnew':
                o = MinPO(v)
                c2.add(o)
                r2['n%d' % cnt[0]] = o
                r1['x%d' % cnt[0]] = o              # cross-database reference
                m2['n%d' % cnt[0]] = u64(o._p_oid)
                m1['x%d' % cnt[0]] = ('two', u64(o._p_oid))
                w2 = {u64(o._p_oid): v, 0: m2}
                w1 = {0: m1}
            elif k == 'new2':
                o = MinPO(v)
                c2.add(o)
                r2['n%d' % cnt[0]] = o
                m2['n%d' % cnt[0]] = u64(o._p_oid)
                w2 = {u64(o._p_oid): v, 0: m2}
            elif k == 'xref' and n2:
                name = n2[v % len(n2)]
                r1['x%d' % cnt[0]] = r2[name]
                m1['x%d' % cnt[0]] = ('two', m2[name])
                w1 = {0: m1}
            elif k == 'new1':
                o = MinPO(v)
                c1.add(o)
                r1['m%d' % cnt[0]] = o
                m1['m%d' % cnt[0]] = ('one', u64(o._p_oid))
                w1 = {u64(o._p_oid): v, 0: m1}
            elif k == 'del2' and len(n2) > 1:
                name = n2[v % len(n2)]
                del r2[name]
                del m2[name]
                w2 = {0: m2}
            else:
                tm.abort()
                return
            commit(w1, w2)

        try:
            for op in case['multi']['ops']:
                apply(op)
            top = min(rec1.ltid(), rec2.ltid()) + 1
            tids = sorted(set(t for t, _ in rec1.txns[1:] + rec2.txns[1:]))
            cands = []
            for t in tids:
                cands += [('at', t), ('before', t), ('at', t - 1), ('before', t + 1)]
            cands = [(kw, v) for kw, v in cands if (v + 1 if kw == 'at' else v) <= top]
            keep_idx = set(rng.sample(range(len(cands)), min(2, len(cands))))
            kept = []
            nh = 0
            for i, (kw, v) in enumerate(cands):
                bound = v + 1 if kw == 'at' else v
                htm = transaction.TransactionManager()
                ctx = 'multi-database %s=%d' % (kw, v)
                h = dbs['one'].open(htm, **{kw: p64(v)})
                obs.nprobe += 1
                obs.count('probe:multi:' + kw)
                oids2 = rec2.oids()
                real, h2 = real_multi(h, oids2)
                check_reads(obs, 'multi-database open', 'C15:multi-read-differs', real,
                            expected_multi(rec1, rec2, bound, oids2), ctx)
                if h2.before != h.before or h2.before is None or u64(h2.before) != bound:
                    obs.bad.append(('C15:multi-bound-differs', '%s: get_connection("two").before is %r, the '
                                    'historical connection\'s bound is %d'
                                    % (ctx, h2.before and u64(h2.before), bound)))
                obs.model('hopen before %d' % bound, 'hist=%d before=%d' % (nh, bound))
                model_reads(obs, nh, rec2, bound, oids2)
                hk = nh
                nh += 1
                # a change to an object of database 'two' reached from the historical connection
                st1, st2 = rec1.state_at(bound), rec2.state_at(bound)
                target = None
                if 0 in st1:
                    for name in sorted(st1[0][1]):
                        dbn, oid = st1[0][1][name]
                        if dbn == 'two' and oid in st2 and st2[oid][1] is not None:
                            target = h.root()[name]         # through the cross-database reference
                            break
                if target is None and 0 in st2:
                    for name in sorted(st2[0][1]):
                        if st2[0][1][name] in st2:
                            target = h2.root()[name]        # through get_connection('two')
                            break
                if target is not None:
                    lt_before = (u64(sts['one'].lastTransaction()), u64(sts['two'].lastTransaction()))
                    try:
                        target.value = -7
                        htm.commit()
                        obs.bad.append(('C15:multi-commit-allowed', '%s: a change to an object of database '
                                        '"two" reached from the historical connection was committed' % ctx))
                    except (ReadOnlyHistoryError, ReadOnlyError):
                        obs.count('multi-commit-refused')
                    htm.abort()
                    obs.model('hcommit %d' % hk, 'err:ReadOnlyHistory')
                    if (u64(sts['one'].lastTransaction()), u64(sts['two'].lastTransaction())) != lt_before:
                        if not any(sg == 'C15:multi-commit-allowed' for sg, _ in obs.bad):
                            obs.bad.append(('C15:multi-commit-allowed', '%s: lastTransaction moved' % ctx))
                        raise StopCase()
                    real, _ = real_multi(h, oids2)
                    check_reads(obs, 'multi-database after aborted write', 'C15:multi-read-differs', real,
                                expected_multi(rec1, rec2, bound, oids2), ctx)
                if bound <= min(rec1.ltid(), rec2.ltid()):
                    obs.count('multi-bound-inside-history')
                if i in keep_idx:
                    kept.append((h, htm, bound, ctx))
                else:
                    h.close()
                    # database 'two' opened on its own at the SAME bound right after 'one' returned its
                    # historical connection for that bound to its pool
                    if bound <= rec2.ltid() + 1:
                        t2 = transaction.TransactionManager()
                        hd = dbs['two'].open(t2, before=p64(bound))
                        obs.nprobe += 1
                        obs.count('probe:multi:two-direct')
                        if hd.db() is not dbs['two']:
                            obs.bad.append(('C15:multi-foreign-connection', '%s: database "two" opened at the same '
                                            'bound was handed a connection of database %r'
                                            % (ctx, hd.db().database_name)))
                        check_reads(obs, 'database "two" opened directly', 'C15:multi-read-differs',
                                    real_reads(hd, oids2, minimize=True), expected_reads(rec2, bound, oids2), ctx)
                        t2.abort()
                        hd.close()
            # a bound that is fine for 'one' but more than one past the newest transaction of 'two'
            if rec1.ltid() > rec2.ltid() + 1:
                b = rec1.ltid() + 1
                hx = dbs['one'].open(transaction.TransactionManager(), at=p64(rec1.ltid()))
                oids2 = rec2.oids()
                try:
                    real, _ = real_multi(hx, oids2)
                    check_reads(obs, 'multi-database, other database older than the bound',
                                'C15:multi-read-differs', real, expected_multi(rec1, rec2, b, oids2),
                                'multi-database at=%d' % rec1.ltid())
                except ValueError as e:
                    obs.count('candidate:multi-secondary-bound-refused')
                    obs.findings.append(('C15:multi-secondary-bound-refused',
                                         'historical connection on database "one" at its newest transaction '
                                         'cannot reach database "two" (whose newest transaction is older): %s' % e))
                hx.close()
            for j, op in enumerate(case['multi']['later']):
                n_before = len(rec2.txns)
                apply(op)
                for h, htm, bound, ctx in kept:
                    if len(rec2.txns) > n_before and any(o in rec2.state_at(bound) for o in rec2.txns[-1][1]) \
                            and bound <= rec2.txns[n_before - 1][0]:
                        obs.nontrivial = True
                    if (j % 3) == 1:
                        h.sync()
                    elif (j % 3) == 2:
                        h.cacheMinimize()
                        h.get_connection('two').cacheMinimize()
                    oids2 = rec2.oids()
                    real, _ = real_multi(h, oids2)
                    check_reads(obs, 'multi-database after later commit', 'C15:multi-moved-after-commit', real,
                                expected_multi(rec1, rec2, bound, oids2), ctx)
            for h, htm, bound, ctx in kept:
                htm.abort()
                h.close()
            obs.count('multi-sections')
        except StopCase:
            pass
        except InfraError:
            raise
        except Verdict as v:
            obs.bad.append((v.sig, v.what))
        except Exception as e:      # noqa: BLE001
            obs.bad.append(('C15:multi-error', 'multi-database section: unexpected %s: %s'
                            % (type(e).__name__, str(e)[:200])))
        finally:
            try:
                tm.abort()
                c1.close()
            except Exception:       # noqa: BLE001
                pass
            for n in ('one', 'two'):
                try:
                    dbs[n].close()
                except Exception:   # noqa: BLE001
                    pass
    shutil.rmtree(d, ignore_errors=True)


# ---------------------------------------------------------------- model comparison
def check_line(exp, got):
    if exp is None:
        return None if not (got in ('blocked', 'bad-op')) else 'model says %s' % got
    if isinstance(exp, str):
        return None if got == exp else 'impl %s, model %s' % (exp, got)
    if got.startswith('err') or got in ('blocked', 'bad-op'):
        return 'impl serial=%d, model %s' % (exp['serial'], got)
    toks = dict(t.split('=') for t in got.split()[1:])
    if int(toks['serial']) != exp['serial']:
        return 'impl serial=%d, model %s' % (exp['serial'], got)
    if exp['val'] is not None and toks['val'] != str(exp['val']):
        return 'impl val=%s, model %s' % (exp['val'], got)
    return None


def signature_of(bad):
    return bad[0][0]


def main(argv=None):
    ck = Check('C15', argv)
    ck.extra['modules'] = ['Props.C15', 'Drivers.Mvcc']
    ck.run_gate(ck.extra['modules'], ['Props.C15'])
    ncases = 3000 if ck.thorough else 100
    cases = []
    corpus_dir = os.path.join(os.path.dirname(os.path.dirname(os.path.abspath(__file__))), 'corpus', 'C15')
    if ck.replay_path:
        with open(ck.replay_path) as f:
            cases = [json.load(f)['case']['case']]
        ncases = 0
    elif os.path.isdir(corpus_dir):
        for fn in sorted(os.listdir(corpus_dir)):
            if fn.endswith('.json'):
                with open(os.path.join(corpus_dir, fn)) as f:
                    cases.append(json.load(f)['case'])
    for _ in range(ncases):
        cases.append(gen_case(ck.rng, ck.thorough))
    results = run_all(ck, cases)
    lines = []
    for case, obs in results:
        lines.append('reset')
        lines += obs['lines']
    out = run_driver('Mvcc', lines, timeout=1200) if lines else []
    pos = 0
    for case, obs in results:
        got = out[pos + 1: pos + 1 + len(obs['lines'])]
        pos += 1 + len(obs['lines'])
        for k, v in obs['hist'].items():
            ck.count(k, v)
        ck.count('probes', obs['nprobe'])
        ck.count('model-lines', len(obs['lines']))
        ck.case(case, obs['nontrivial'],
                sample=dict(kind=case['kind'], ops=case['ops'][:6], later=case['later'][:3],
                            probes=obs['nprobe']) if obs['nontrivial'] else None)
        for fsig, fwhat in obs.get('findings', []):
            # findings of the unchanged tree reported to the coordinator.  The pack/reopen one is recorded
            # (known_findings.json, open): a real signature, printed as KNOWN-FINDING.  A candidate not yet
            # decided is only counted in the histogram until its signature is listed.
            import re
            if fsig == 'C15:pack-reopen-lasttransaction-backwards' or \
                    any(k.get('status', 'open') == 'open' and re.fullmatch(k['signature'], fsig) for k in ck.known):
                ck.violation(fsig, fwhat, dict(case=case))
        if obs['bad']:
            sig = obs['bad'][0][0]

            def build(sub, case=case):
                part = {}
                for tag, op in sub:
                    part.setdefault(tag, []).append(op)
                c = dict(case, ops=part.get('ops', []), later=part.get('later', []))
                if case.get('pack') is not None:
                    c['pack'] = min(case['pack'], max(1, len(c['ops'])))
                if case.get('multi'):
                    c['multi'] = dict(ops=part.get('mops', []), later=part.get('mlater', []))
                return c

            def fails(sub, sig=sig):
                return any(s == sig for s, _ in run_case(build(sub), ck.tmp, full=True).bad)
            flat = [('ops', o) for o in case['ops']] + [('later', o) for o in case['later']]
            if case.get('multi'):
                flat += [('mops', o) for o in case['multi']['ops']] + [('mlater', o) for o in case['multi']['later']]
            small = ddmin(flat, fails, max_tests=80)
            c = build(small)
            o = run_case(c, ck.tmp, full=True)
            if any(s == sig for s, _ in o.bad):
                what = [w for s, w in o.bad if s == sig][0]
            else:
                c, what = case, obs['bad'][0][1]
            ck.violation(sig, what, dict(case=c))
        else:
            for k, (l, e, g) in enumerate(zip(obs['lines'], obs['expect'], got)):
                bad = check_line(e, g)
                if bad:
                    ck.mismatch('model/impl differ at line %d %r: %s' % (k, l, bad),
                                dict(case=case, lines=obs['lines'][max(0, k - 30):k + 1]))
                    break
    ck.finish(rule='seeded histories (set / new / del / undo incl. un-creation / optional pack with gc off) on '
                   'FileStorage and MappingStorage with the scripted clock; every tid probed with at=t, t±1 and '
                   'before=t, t+1, t+2 (raw), exact and between-transaction datetimes and a far-future datetime; '
                   'up to 3 historical connections stay open while live connections commit again (sync / new '
                   'transaction / cacheMinimize in between), plus a scheduler section; non-trivial = a kept bound '
                   'lies strictly inside the history and a later commit writes an oid it had read; distinct by '
                   'hash of the case',
              assumptions=['TimeStamp.laterThan(t) = t + 1 (DESIGN 6.3; generators keep the low 32 bits away from '
                           'all ones)', 'FileStorage packs with pack_gc=False, MappingStorage packs with garbage collection and '
                           'objects unreachable from the pack time on are left out of the by-oid read-outs; only '
                           'bounds later than the pack time are probed (what pack may remove is C07)'])


def _worker(args):
    case, tmp = args
    os.makedirs(tmp, exist_ok=True)
    o = run_case(case, tmp, full=True)
    return dict(bad=o.bad, lines=o.lines, expect=o.expect, nprobe=o.nprobe, nontrivial=o.nontrivial, hist=o.hist,
                findings=o.findings)


def run_all(ck, cases):
    import multiprocessing as mp
    nproc = 16 if ck.thorough else 4
    if len(cases) <= 2:
        return [(c, _worker((c, ck.tmp))) for c in cases]
    args = [(c, os.path.join(ck.tmp, 'w%d' % (i % (nproc * 2)))) for i, c in enumerate(cases)]
    # one scratch directory per worker process: chunk so that a directory is used by one process
    chunks = {}
    for a in args:
        chunks.setdefault(a[1], []).append(a)
    with mp.get_context('fork').Pool(nproc) as pool:
        res = pool.map(_chunk, list(chunks.values()))
    flat = {}
    for part in res:
        for key, o in part:
            flat[key] = o
    return [(c, flat[json.dumps(c, sort_keys=True)]) for c in cases]


def _chunk(args):
    return [(json.dumps(a[0], sort_keys=True), _worker(a)) for a in args]


if __name__ == '__main__':
    try:
        main()
    except InfraError as e:
        print('INFRA-ERROR', e)
        sys.exit(2)
