"""Scripted clock: makes tids deterministic and lets clock behaviour (stall, step back, jump)
be an input.  ZODB reads the clock through `time.time()` only (BaseStorage.tpc_begin,
utils.newTid, MappingStorage, DB pack), so rebinding `time.time` in-process is enough.
Active only inside the harness process (guard ZODB_VERIF=1)."""
import contextlib
import time

_real = time.time


class Clock:
    def __init__(self, start=1_700_000_000.0, step=1.0):
        self.now = start
        self.step = step
        self.script = []          # optional list of deltas consumed first

    def __call__(self):
        d = self.script.pop(0) if self.script else self.step
        self.now += d
        return self.now


@contextlib.contextmanager
def scripted(start=1_700_000_000.0, step=1.0):
    c = Clock(start, step)
    time.time = c
    try:
        yield c
    finally:
        time.time = _real
