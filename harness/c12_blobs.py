"""C12, blob family (oracle only: the Lean model has no blobs; C13 is about the blob files of a storage).

Savepoint programs over blobs: three slots k = 0..2; slot k is the container root['c<k>'] (a PMap) whose
key 'b' holds a ZODB.blob.Blob.  The harness keeps NO Python reference to containers or blobs between ops
(after `gc` = Connection.cacheMinimize() they leave the cache, as in the memory-saving use of savepoints).

    new k d | w k d | a k d | rp k d | r k       create / open('w') / open('a') / open('r+') + write d / read
    sp | rb n | commit | abort | gc | peek k     peek: committed bytes through a second connection
    Bw k d | Ba k d | Brp k d | Br k | Bsp | Brb n | Bcommit | Babort
                                                 the same through ANOTHER connection of the process (own transaction
                                                 manager) whose transaction overlaps; it works on its own slots 3, 4
                                                 (committed before the program starts), so there are no conflicts

Observation per op: the result only.  Oracle: the bytes of every slot; a savepoint copies them, a rollback
restores the copy (and invalidates later savepoints), commit publishes them, abort discards them."""
import os

from c11_lib import errname, make_storage


def blob_storage(kind, tmpdir, tag):
    if kind == 'file':
        return make_storage('file', tmpdir, tag, blobs=True)
    if kind == 'mapping':
        from ZODB.blob import BlobStorage
        from ZODB.MappingStorage import MappingStorage
        d = os.path.join(tmpdir, 'fs-%s' % tag, 'blobs')
        os.makedirs(d, exist_ok=True)
        return BlobStorage(d, MappingStorage())
    return make_storage('demo', tmpdir, tag)


class World4:
    def __init__(self, case, tmpdir, tag):
        import ZODB
        import transaction
        self.st = blob_storage(case['kind'], tmpdir, tag)
        self.db = ZODB.DB(self.st)
        self.tm = transaction.TransactionManager()
        self.conn = self.db.open(self.tm)
        self.tm2 = transaction.TransactionManager()
        self.c2 = self.db.open(self.tm2)
        self.sps = []
        self.tmB = transaction.TransactionManager()
        self.connB = self.db.open(self.tmB)
        self.spsB = []
        if case.get('two'):
            from ZODB.blob import Blob
            from c11_classes import PMap
            for k, d in ((3, 'P3'), (4, 'QQ4')):
                c = PMap()
                c['b'] = Blob(d.encode())
                self.connB.root()['c%d' % k] = c
            del c
            self.tmB.commit()
            self.tm.abort()             # (the connection under test starts after that commit)

    def close(self):
        for f in (self.tm.abort, self.tm2.abort, self.tmB.abort, self.db.close):
            try:
                f()
            except Exception:
                pass

    def blob(self, k):
        return self.conn.root()['c%d' % k]['b']

    def run_op(self, op):
        if op.startswith('B'):
            # the same op through the other connection
            keep = self.conn, self.tm, self.sps
            self.conn, self.tm, self.sps = self.connB, self.tmB, self.spsB
            try:
                return self.run_op1(op[1:])
            finally:
                self.spsB = self.sps
                self.conn, self.tm, self.sps = keep
        return self.run_op1(op)

    def run_op1(self, op):
        from ZODB.blob import Blob
        from c11_classes import PMap
        t = op.split()
        try:
            if t[0] == 'new':
                c = PMap()
                c['b'] = Blob(t[2].encode())
                self.conn.root()['c%s' % t[1]] = c
                del c
                r = 'ok'
            elif t[0] in ('w', 'a', 'rp'):
                with self.blob(int(t[1])).open({'w': 'w', 'a': 'a', 'rp': 'r+'}[t[0]]) as f:
                    f.write(t[2].encode())
                r = 'ok'
            elif t[0] == 'r':
                with self.blob(int(t[1])).open('r') as f:
                    r = 'd=' + f.read().decode()
            elif t[0] == 'sp':
                self.sps.append(self.tm.savepoint())
                r = 'ok'
            elif t[0] == 'rb':
                n = int(t[1])
                if n >= len(self.sps):
                    r = 'err:InvalidSavepoint'
                else:
                    self.sps[n].rollback()
                    r = 'ok'
            elif t[0] == 'commit':
                self.sps = []
                self.tm.commit()
                r = 'ok'
            elif t[0] == 'abort':
                self.sps = []
                self.tm.abort()
                r = 'ok'
            elif t[0] == 'gc':
                self.conn.cacheMinimize()
                r = 'ok'
            elif t[0] == 'peek':
                self.tm2.begin()
                try:
                    c = self.c2.root().get('c%s' % t[1])
                    if c is None:
                        r = 'none'
                    else:
                        with c['b'].open('r') as f:
                            r = 'd=' + f.read().decode()
                finally:
                    self.tm2.abort()
            else:
                r = 'bad-op'
        except Exception as e:
            r = ('fail:' if t[0] == 'commit' else 'err:') + errname(e)
            if t[0] == 'commit':
                try:
                    self.tm.abort()
                except Exception:
                    pass
        return r


def run_real(case, tmpdir, tag):
    import shutil
    w = World4(case, tmpdir, tag)
    try:
        return ['ok'] + [w.run_op(op) for op in case['ops']]
    finally:
        w.close()
        shutil.rmtree(os.path.join(tmpdir, 'fs-' + tag), ignore_errors=True)


def judge(case, real):
    com = {3: 'P3', 4: 'QQ4'} if case.get('two') else {}
    state = {'A': [{}, []], 'B': [{k: v for k, v in com.items()}, []]}       # who -> [bytes of its slots, savepoints]
    for idx, op in enumerate(case['ops'], 1):
        res = real[idx]
        who = 'B' if op.startswith('B') else 'A'
        own = (lambda s: s >= 3) if who == 'B' else (lambda s: s < 3)
        cur, sps = state[who]
        t = (op[1:] if who == 'B' else op).split()
        k = t[0]
        if k in ('new', 'w', 'a', 'rp', 'r') and not own(int(t[1])):
            return ('taint', idx)
        if k == 'new':
            cur[int(t[1])] = t[2]
            exp = 'ok'
        elif k in ('w', 'a', 'rp'):
            s = int(t[1])
            if s not in cur:
                return ('taint', idx)
            old, d = cur[s], t[2]
            cur[s] = d if k == 'w' else (old + d if k == 'a' else d + old[len(d):])
            exp = 'ok'
        elif k == 'r':
            if int(t[1]) not in cur:
                return ('taint', idx)
            exp = 'd=' + cur[int(t[1])]
        elif k == 'sp':
            sps.append(dict(cur))
            exp = 'ok'
        elif k == 'rb':
            n = int(t[1])
            if n >= len(sps) or sps[n] is None:
                exp = 'err:InvalidSavepoint'
            else:
                cur = dict(sps[n])
                for m in range(n + 1, len(sps)):
                    sps[m] = None
                exp = 'ok'
        elif k == 'commit':
            com.update(cur)
            sps, exp = [], 'ok'
        elif k == 'abort':
            cur, sps, exp = {s: v for s, v in com.items() if own(s)}, [], 'ok'
        elif k == 'gc':
            exp = 'ok'
        elif k == 'peek':
            exp = ('d=' + com[int(t[1])]) if int(t[1]) in com else 'none'
        else:
            return ('taint', idx)
        state[who] = [cur, sps]
        if res != exp:
            return (idx, 'C12:blob:%s:result' % k, 'op %r returned %r, the property requires %r' % (op, res, exp))
    return None


def gen(rng, kind):
    ops = []
    have = set()        # slots that exist now (upper bound for the generator; the oracle decides)
    com = set()
    nsp = 0
    spsets = []
    letters = 'ABCDEFGH'
    cnt = [0]

    def data():
        cnt[0] += 1
        return letters[cnt[0] % 8] * rng.choice([1, 2, 3]) + str(cnt[0])
    for _ in range(rng.choice([6, 10, 14, 20])):
        r = rng.random()
        k = rng.randrange(3)
        if not have or r < 0.14:
            ops.append('new %d %s' % (k, data()))
            have.add(k)
        elif r < 0.40:
            k = rng.choice(sorted(have))
            ops.append('%s %d %s' % (rng.choice(['w', 'a', 'a', 'rp', 'rp']), k, data()))
        elif r < 0.50:
            ops.append('r %d' % rng.choice(sorted(have)))
        elif r < 0.66:
            ops.append('sp')
            spsets.append(set(have))
            nsp += 1
        elif r < 0.78 and nsp:
            n = rng.randrange(nsp)
            ops.append('rb %d' % n)
            have = set(spsets[n])
        elif r < 0.84:
            ops.append('gc')
        elif r < 0.91:
            ops.append('commit')
            com, nsp, spsets = set(have), 0, []
        elif r < 0.95:
            ops.append('abort')
            have, nsp, spsets = set(com), 0, []
        else:
            ops.append('peek %d' % k)
    ops += ['r %d' % k for k in sorted(have)]
    if rng.random() < 0.5:
        ops.append('gc')
    ops.append('commit')
    ops += ['peek %d' % k for k in range(3)] + ['r %d' % k for k in sorted(have)]
    return dict(kind=kind, n=3, ops=ops, family='blobs')


def gen_two(rng, kind):
    """two connections of the process whose transactions overlap, both holding blob data in savepoints"""
    opsA = ['new 0 AAA1', 'sp', rng.choice(['w', 'a', 'rp']) + ' 0 BB2']
    if rng.random() < 0.5:
        opsA += ['sp', 'w 0 C3']
    opsA += ['rb 0', 'r 0', rng.choice(['commit', 'abort']), 'peek 0']
    opsB = ['B%s %d DD4' % (rng.choice(['w', 'a', 'rp']), rng.choice([3, 4])), 'Bsp']
    if rng.random() < 0.5:
        opsB += ['B%s %d E5' % (rng.choice(['w', 'a']), rng.choice([3, 4])), 'Brb 0']
    opsB += ['Br 3', 'Br 4', rng.choice(['Bcommit', 'Babort', 'Bcommit']), 'peek 3', 'peek 4']
    # a random interleaving that keeps each connection's order
    ops = []
    while opsA or opsB:
        src = opsA if (opsA and (not opsB or rng.random() < 0.5)) else opsB
        ops.append(src.pop(0))
    ops += ['r 0', 'Br 3', 'Br 4'] if 'commit' in ops else ['Br 3', 'Br 4']
    return dict(kind=kind, n=5, ops=ops, family='blobs', two=1)


def gen_scenario(rng, kind):
    t = rng.randrange(5)
    if t >= 3:
        return gen_two(rng, kind)
    if t == 0:      # the savepoint's copy of a blob must survive a later open('a'/'r+') and a rollback
        ops = ['new 0 AAA1']
        if rng.random() < 0.5:
            ops += ['commit', 'w 0 BB2']
        ops += ['sp', '%s 0 CC3' % rng.choice(['a', 'rp'])]
        if rng.random() < 0.5:
            ops += ['sp', 'w 0 D4']
        ops += ['rb 0', 'r 0']
        if rng.random() < 0.5:
            ops += ['a 0 E5', 'rb 0', 'r 0']
        ops += ['commit', 'peek 0']
    elif t == 1:    # batches of new blobs, savepoint + cacheMinimize after each batch, then commit
        ops = ['new 0 AAA1', 'sp', 'gc', 'new 1 BB2', 'sp', 'gc']
        if rng.random() < 0.5:
            ops += ['new 2 C3', 'sp', 'gc']
        ops += ['commit', 'peek 0', 'peek 1', 'r 0', 'r 1']
    else:           # committed blob rewritten in a savepoint, collected from the cache, committed
        ops = ['new 0 AAA1', 'commit', rng.choice(['w', 'a', 'rp']) + ' 0 BB2', 'sp', 'gc',
               rng.choice(['commit', 'abort']), 'peek 0', 'r 0']
    return dict(kind=kind, n=3, ops=ops, family='blobs')
