"""C07 — Packing never changes what is observable at or after the pack time.

Correspondence: object-graph histories (cycles, garbage, garbage written after T, undo records whose
back pointers cross T, un-created objects, deleteObject, dangling and weak references) are committed
with explicit tids to the REAL FileStorage / MappingStorage / DemoStorage(changes=FileStorage); every
storage is then packed at every tid boundary and between, gc on/off, followed by a second pack to the
same / an earlier time, close + reopen, and an undo series of the transactions after the pack time.

Direct oracle (`judge_*`, plain Python over observations of the real storage only, with the
generator's own reference lists as ground truth — not `referencesf`, not the Lean model): the
property sentence by sentence.  Model (`Drivers/Pack.lean`): fed with the history *as iterated from
the real storage before the pack*; compared on the packed history (records kept, status, data_txn),
on every loadBefore answer for b > T, and on the kind of refusal.
"""
import base64
import hashlib
import io
import json
import logging
import os
import pickle
import shutil
import sys
import time

sys.path.insert(0, os.path.dirname(os.path.abspath(__file__)))
from common import Check, InfraError, run_driver, ddmin, VERIF  # noqa: E402

logging.disable(logging.CRITICAL)

SIG_GARBAGE_WRITTEN = 'C07:fs-gc-drops-current-revision-of-garbage-object-written-after-T'
SIG_REPACK = 'C07:fs-repack-same-time-removes-more'
SIG_MAP_KEYERROR = 'C07:mapping-gc-keyerror-leaves-partial-state'
SIG_DEMO_ATTR = 'C07:demo-pack-attributeerror'
SIG_REFUSED_BACKPTR = 'C07:pack-refused-backpointer-to-removed'
SIG_FIRST_DUP = 'C07:fs-pack-copier-backpointer-to-first-duplicate'

EPOCH = 1577836800        # 2020-01-01 00:00:00 UTC; model time m <-> EPOCH + 15*m seconds
STEP = 15                 # multiples of 15 s are exactly representable in a TimeStamp
ROOT = 0
# MappingStorage, DemoStorage() over a temporary MappingStorage, MVCCMappingStorage (main instance +
# a second view), HexStorage(MappingStorage)
MAPLIKE = ('map', 'demo', 'mvccmap', 'hexmap')
# FileStorage, DemoStorage(base=empty, changes=FileStorage), HexStorage(FileStorage) (records are
# transformed: pack must untransform before extracting references),
# DemoStorage(base=MappingStorage holding the first half of the history, changes=FileStorage)
FSLIKE = ('fs', 'demofs', 'hexfs', 'demobase')
DEMOFS = ('demofs', 'demobase')       # pack delegates to changes.pack(gc=False); gc=True is refused
HEXED = ('hexfs', 'hexmap')
BIG_OIDS = [65536, 65537 + 255, 3 * 65536, 2 ** 32 + 1, 2 ** 48 + 0xff00, 2 ** 63 + 5, 2 ** 64 - 1, 0x0100ff00]


# ------------------------------------------------------------------------------------------ time
def _zodb():
    import ZODB.FileStorage
    import ZODB.MappingStorage
    import ZODB.DemoStorage
    from ZODB.Connection import TransactionMetaData
    from ZODB.TimeStamp import TimeStamp
    from ZODB.utils import p64, u64, z64
    from ZODB.serialize import referencesf
    from ZODB import POSException
    return dict(FS=ZODB.FileStorage.FileStorage, MS=ZODB.MappingStorage.MappingStorage,
                DS=ZODB.DemoStorage.DemoStorage, TMD=TransactionMetaData, TimeStamp=TimeStamp,
                p64=p64, u64=u64, z64=z64, referencesf=referencesf, POS=POSException)


Z = None
_TID = {}
_M = {}


def real_time(m):
    return float(EPOCH + STEP * m)


def real_tid(m):
    """tid bytes of model time m — computed exactly as FileStorage.pack computes `stop`"""
    r = _TID.get(m)
    if r is None:
        t = real_time(m)
        r = Z['TimeStamp'](*time.gmtime(t)[:5] + (t % 60,)).raw()
        if Z['TimeStamp'](r).timeTime() != t:
            raise InfraError('time %r is not exactly representable as a tid' % (t,))
        _TID[m] = r
        _M[r] = m
    return r


def model_time(tid):
    if tid is None:
        return None
    m = _M.get(tid)
    if m is None:
        t = Z['TimeStamp'](tid).timeTime()
        m = int(round((t - EPOCH) / STEP))
        if real_tid(m) != tid:
            raise InfraError('tid %r does not map to a model time' % (tid,))
    return m


# ------------------------------------------------------------------------------------------ pickles
def mkpickle(val, refs, weak=(), pad=0):
    """class-meta pickle + state pickle, persistent references in the two strong formats
    (bare oid, (oid, class)) and the list formats referencesf must ignore: weak ['w', (oid,)],
    weak / strong references into another database ['w', (oid, db)], ['n', (db, oid)],
    ['m', (db, oid, class)]; `pad` bytes of ballast (records above 64 KiB)"""
    f = io.BytesIO()
    p = pickle.Pickler(f, 3)

    def pid(o):
        if isinstance(o, tuple) and o and o[0] == 'REF':
            return Z['p64'](o[1]) if o[2] == 0 else (Z['p64'](o[1]), None)
        if isinstance(o, tuple) and o and o[0] == 'WEAK':
            oid = Z['p64'](o[1])
            return [['w', (oid,)], ['w', (oid, 'other')], ['n', ('other', oid)],
                    ['m', ('other', oid, None)]][o[2] % 4]
        return None
    p.persistent_id = pid
    p.dump((('ZODB.tests.MinPO', 'MinPO'), None))
    state = {'value': val,
             'refs': [('REF', r, (val + i) % 2) for i, r in enumerate(refs)],
             'weak': [('WEAK', r, val + i) for i, r in enumerate(weak)]}
    if pad:
        state['pad'] = b'x' * pad
    p.dump(state)
    return f.getvalue()


def dig(data, n=4):
    return hashlib.sha1(data).hexdigest()[:2 * n]


# ------------------------------------------------------------------------------------------ generator
def gen_history(rng, ntx):
    """ops: {'m', 'op': store|undo|delete, ...}; m = 2, 4, 6, … (model tid of the transaction)"""
    pool = [1, 2, 3, 4, 5]
    ops = []
    created = set()
    stores = []           # m of store ops (undo targets)
    allm = []
    # back-pointer CHAINS: modify / undo / modify / undo … on one parent whose restored state is the
    # only thing referencing a child (oids 6-8 are used by nothing else), so that the record current
    # at a pack time is an undo record pointing at another undo record (findrefs must chase them all)
    episode = []
    chain_at = rng.randrange(1, max(2, ntx - 4)) if (ntx >= 6 and rng.random() < 0.4) else None
    for i in range(ntx):
        m = 2 * i + 2
        if i == chain_at:
            par = rng.choice(pool)
            episode = [('store', [[ROOT, [par] + [rng.choice(pool) for _ in range(rng.choice([0, 1]))], []],
                                  [par, [6], []], [6, [], []]]),
                       ('store', [[par, [7], []], [7, [], []]]), ('undo-last', None),
                       ('store', [[par, [8] + ([6] if rng.random() < 0.2 else []), []], [8, [], []]]),
                       ('undo-last', None)]
            if rng.random() < 0.5:
                episode += [('undo-last', None)] * rng.choice([1, 2])      # redo, undo of the redo
        if episode:
            kind, recs = episode.pop(0)
            if kind == 'store':
                ops.append(dict(m=m, op='store', recs=recs))
                for o, _, _ in recs:
                    created.add(o)
                stores.append(m)
            else:
                ops.append(dict(m=m, op='undo', target=allm[-1]))
            allm.append(m)
            continue
        r = rng.random()
        if i == 0 or r < 0.52 or not stores:
            recs = []
            oids = set()
            if i == 0 or rng.random() < 0.45:
                oids.add(ROOT)
            for _ in range(rng.choice([0, 1, 1, 2, 3]) if oids else rng.choice([1, 1, 2, 3])):
                oids.add(rng.choice(pool))
            todo = sorted(oids)
            seen = set()
            while todo:
                o = todo.pop(0)
                if o in seen:
                    continue
                seen.add(o)
                k = rng.choice([0, 0, 1, 1, 2, 3]) if o != ROOT else rng.choice([0, 1, 2, 2, 3])
                refs = [rng.choice(pool) for _ in range(k)]
                if rng.random() < 0.02:
                    refs.append(9)                       # never created: dangling reference
                weak = [rng.choice(pool)] if rng.random() < 0.08 else []
                recs.append([o, refs, weak])
                for x in refs:
                    if x != 9 and x not in created and x not in seen and rng.random() < 0.93:
                        todo.append(x)                   # create what is referenced for the first time
            for o, _, _ in recs:
                created.add(o)
            if rng.random() < 0.15:
                # the same oid stored twice in one transaction (the last record wins)
                o, refs, weak = rng.choice(recs)
                dup = [o, [rng.choice(pool) for _ in range(rng.choice([0, 1, 2]))], []]
                for x in dup[1]:
                    if x not in created:
                        recs.append([x, [], []])
                        created.add(x)
                recs.append(dup) if rng.random() < 0.7 else recs.insert(0, dup)
            ops.append(dict(m=m, op='store', recs=recs))
            stores.append(m)
        elif r < 0.86 and len(allm) >= 2 and rng.random() < 0.25:
            # several undo() calls in ONE transaction (DB.undoMultiple): may leave two records of one oid
            k = rng.choice([2, 2, 3])
            cand = allm[-k:][::-1] if rng.random() < 0.7 else rng.sample(allm, min(k, len(allm)))
            ops.append(dict(m=m, op='undo', target=cand[0], targets=cand))
        elif r < 0.86:
            # undo: mostly recent transactions, sometimes old ones or earlier undos
            x = rng.random()
            cand = allm[-1:] if x < 0.45 else (allm[-3:] if x < 0.8 else allm)
            ops.append(dict(m=m, op='undo', target=rng.choice(cand)))
        elif r < 0.94:
            ops.append(dict(m=m, op='delete', oids=sorted({rng.choice(pool) for _ in range(rng.choice([1, 1, 2]))})))
        elif r < 0.97:
            # restore(): what copyTransactionsFrom / recovery use — data with a prev_txn hint (becomes a
            # back pointer when that transaction holds the same data), plain data, or an un-creation
            recs = []
            for o in sorted({rng.choice(pool) for _ in range(rng.choice([1, 2]))}):
                recs.append([o, rng.choice(['copy', 'copy', 'new', 'del']), rng.choice(allm)])
            ops.append(dict(m=m, op='restore', recs=recs))
        else:
            ops.append(dict(m=m, op='empty'))            # a transaction without records
        allm.append(m)
    # boundary values: a record above 64 KiB, long / non-empty metadata
    st_ops = [op for op in ops if op['op'] == 'store']
    if st_ops and rng.random() < 0.06:
        rng.choice(rng.choice(st_ops)['recs']).append(rng.choice([65536, 70001, 140000]))
    if rng.random() < 0.1:
        rng.choice(ops)['ext'] = {'k': rng.randrange(1000), 'why': 'x' * rng.choice([1, 300])}
    if rng.random() < 0.05:
        rng.choice(ops)['desc_len'] = rng.choice([65535, 65534, 4000])
    # oids >= 2^16 (several index buckets), with 0x00 / 0xff bytes, high bit set, 2^64-1
    if rng.random() < 0.25:
        omap = dict(zip(rng.sample(pool + [6, 7, 8], rng.choice([1, 2, 4])), rng.sample(BIG_OIDS, 4)))
        f = lambda o: omap.get(o, o)
        for op in ops:
            if op['op'] == 'store':
                op['recs'] = [[f(r[0]), [f(x) for x in r[1]], [f(x) for x in r[2]]] + r[3:] for r in op['recs']]
            elif op['op'] == 'delete':
                op['oids'] = [f(o) for o in op['oids']]
            elif op['op'] == 'restore':
                op['recs'] = [[f(o), mode, m0] for o, mode, m0 in op['recs']]
    return ops


def gen_sequences(rng, ops, thorough):
    """pack sequences for one history: [[T, gc], [T2, gc2], …]"""
    ms = [op['m'] for op in ops]
    if not ms:                                   # empty database
        return [[[1, 1], [1, 1]], [[5, 0], [3, 0]], [[4, 1], [8, 0]]]
    times = sorted(set([1] + ms + [m + 1 for m in ms]))
    seqs = []
    for T in times:
        for gc in (1, 0):
            earlier = [t for t in times if t <= T]
            seqs.append([[T, gc], [rng.choice(earlier) if rng.random() < 0.5 else T, gc]])
    for _ in range(4 if thorough else 1):
        if True:
            k = rng.choice([2, 3])
            ts = sorted(rng.sample(times, min(k, len(times))))
            seqs.append([[t, rng.choice([0, 1])] for t in ts])
    return seqs


# ------------------------------------------------------------------------------------------ real code
class Truth(dict):
    """data bytes -> the generator's reference list (ground truth of the oracle)"""


def all_oids(ops):
    return sorted({ROOT} | {r[0] for op in ops if op['op'] in ('store', 'restore') for r in op['recs']}
                  | {x for op in ops if op['op'] == 'store' for r in op['recs'] for x in r[1]}
                  | {o for op in ops if op['op'] == 'delete' for o in op['oids']})


def fs_of(st, kind):
    """the FileStorage / MappingStorage that is actually packed (whose own history the model gets)"""
    if kind in DEMOFS:
        return st.changes
    if kind in HEXED:
        return st.base
    return st


def open_storage(kind, path, cfg=None, base=None):
    if kind == 'fs' and cfg and cfg.get('ctor'):
        # direct constructor with explicit non-default option values
        return Z['FS'](path, pack_gc=bool(cfg['pack_gc']), pack_keep_old=bool(cfg['keep_old']), create=False) \
            if os.path.exists(path) else Z['FS'](path, pack_gc=bool(cfg['pack_gc']),
                                                 pack_keep_old=bool(cfg['keep_old']))
    if kind == 'hexfs':
        from ZODB.tests.hexstorage import HexStorage
        return HexStorage(Z['FS'](path))
    if kind == 'hexmap':
        from ZODB.tests.hexstorage import HexStorage
        return HexStorage(Z['MS']())
    if kind == 'mvccmap':
        from ZODB.tests.MVCCMappingStorage import MVCCMappingStorage
        return MVCCMappingStorage()
    if kind == 'demobase':
        return Z['DS'](base=base, changes=Z['FS'](path), close_base_on_close=False)
    if kind == 'fs' and cfg:
        # the storage as a deployment creates it: ZODB.config / ZConfig <filestorage> section with
        # explicit pack-gc / pack-keep-old (pack is then called without a gc argument)
        import ZODB.config
        return ZODB.config.storageFromString(
            '<filestorage>\n path %s\n pack-gc %s\n pack-keep-old %s\n</filestorage>\n'
            % (path, 'true' if cfg['pack_gc'] else 'false', 'true' if cfg['keep_old'] else 'false'))
    if kind == 'fs':
        return Z['FS'](path)
    if kind == 'demofs':
        return Z['DS'](base=Z['MS'](), changes=Z['FS'](path))
    if kind == 'demo':
        return Z['DS']()                     # temporary MappingStorage changes: pack delegates with gc
    return Z['MS']()


def apply_ops(st, kind, ops, truth, serial=None):
    """commit the ops; an op the storage refuses (conflict, undo error, …) is aborted and skipped"""
    POS = Z['POS']
    serial = {} if serial is None else serial
    done = []
    for op in ops:
        if kind in MAPLIKE and op['op'] not in ('store', 'empty'):
            continue
        tid = real_tid(op['m'])
        desc = 'txn %d' % op['m']
        if op.get('desc_len'):
            desc = desc.ljust(op['desc_len'], '.')
        t = Z['TMD']('u%d' % (op['m'] % 3), desc, op.get('ext'))
        st.tpc_begin(t, tid=tid)
        written = []
        datalog = truth.__dict__.setdefault('datalog', {})
        try:
            if op['op'] == 'store':
                for j, rec in enumerate(op['recs']):
                    o, refs, weak = rec[0], rec[1], rec[2]
                    dupidx = sum(1 for x in op['recs'][:j] if x[0] == o)
                    data = mkpickle(op['m'] * 100 + (o % 89) + 10 * dupidx, refs, weak,
                                    rec[3] if len(rec) > 3 else 0)
                    truth[data] = list(refs)
                    datalog[(o, op['m'])] = data
                    st.store(Z['p64'](o), serial.get(o, Z['z64']), data, '', t)
                    written.append(o)
            elif op['op'] == 'empty':
                pass
            elif op['op'] == 'restore':
                for o, mode, m0 in op['recs']:
                    data, prev = None, None
                    if mode == 'copy' and (o, m0) in datalog:
                        data, prev = datalog[(o, m0)], real_tid(m0)
                    elif mode != 'del':
                        data = mkpickle(op['m'] * 100 + (o % 89) + 50, [], [])
                        truth[data] = []
                    if data is not None:
                        datalog[(o, op['m'])] = data
                    st.restore(Z['p64'](o), tid, data, '', prev, t)
                    written.append(o)
            elif op['op'] == 'undo':
                for tg in (op.get('targets') or [op['target']]):
                    _, oids = st.undo(base64.encodebytes(real_tid(tg)).rstrip(), t)
                    written += [Z['u64'](o) for o in oids]
            else:
                for o in op['oids']:
                    (st if hasattr(st, 'deleteObject') else st.changes).deleteObject(
                        Z['p64'](o), serial.get(o, Z['z64']), t)
                    written.append(o)
            st.tpc_vote(t)
            st.tpc_finish(t)
        except (POS.POSError, KeyError, AssertionError, AttributeError) as e:
            st.tpc_abort(t)
            done.append((op['m'], type(e).__name__))
            continue
        for o in written:
            serial[o] = tid
        done.append((op['m'], 'ok'))
    return done, serial


def listing(st):
    out = []
    it = st.iterator()
    for t in it:
        recs = []
        for r in t:
            recs.append((Z['u64'](r.oid), r.data, model_time(r.data_txn)))
        ext = t.extension if isinstance(t.extension, dict) else {}
        out.append(dict(m=model_time(t.tid), status=t.status, user=t.user, desc=t.description,
                        ext=repr(sorted(ext.items())), recs=recs,
                        elen=len(getattr(t, 'extension_bytes', b'') or b'')))
    if hasattr(it, 'close'):
        it.close()
    return out


def errkind(e):
    n = type(e).__name__
    return {'POSKeyError': 'K', 'KeyError': 'K'}.get(n, 'EXC:' + n)


def observe(st, oids, bounds, view=None):
    """every query the property talks about: iterator, loadBefore at every bound, load (through
    `view`, a second MVCC instance, when given), loadSerial of every listed revision, history, undoLog"""
    obs = dict(listing=listing(st), loads={}, cur={}, ser={}, hist={}, undolog=None)
    try:
        log = st.undoLog(0, 100000) if hasattr(st, 'undoLog') and st.supportsUndo() else None
        obs['undolog'] = log if log is None else [
            (model_time(base64.decodebytes(d['id'] + b'\n')), d['description']) for d in log]
    except Exception as e:
        obs['undolog'] = errkind(e)
    for o in oids:
        po = Z['p64'](o)
        try:
            # ('size' is the stored length — 0 for a record stored as a back pointer — a representation
            #  detail that legitimately changes when a pack writes the data in full: tids only)
            obs['hist'][o] = [(model_time(d['tid']),) for d in st.history(po, 100000)]
        except Exception as e:
            obs['hist'][o] = errkind(e)
        for b in bounds:
            try:
                r = st.loadBefore(po, real_tid(b))
                r = None if r is None else (r[0], model_time(r[1]), model_time(r[2]))
            except Exception as e:
                r = errkind(e)
            obs['loads'][(o, b)] = r
        try:
            r = (view or st).load(po, '')
            r = (r[0], model_time(r[1]))
        except Exception as e:
            r = errkind(e)
        obs['cur'][o] = r
    for t in obs['listing']:
        for o, _, _ in t['recs']:
            try:
                r = st.loadSerial(Z['p64'](o), real_tid(t['m']))
            except Exception as e:
                r = errkind(e)
            obs['ser'][(o, t['m'])] = r
    return obs


class _DBShim(object):
    """just what ZODB.DB.DB.pack touches (constructing a real DB would commit a root object into
    storages whose root is absent / un-created)"""

    def __init__(self, st):
        self.storage = st
        self.references = Z['referencesf']


def do_pack(st, T, gc, tz=None, via=None):
    """pack to model time T; `tz`: POSIX TZ string in force during the call (the pack time is a UTC
    time stamp: the local zone must not matter)"""
    old = os.environ.get('TZ')
    if tz:
        os.environ['TZ'] = tz
        time.tzset()
    try:
        return _do_pack(st, T, gc, via)
    finally:
        if tz:
            if old is None:
                os.environ.pop('TZ', None)
            else:
                os.environ['TZ'] = old
            time.tzset()


def _do_pack(st, T, gc, via=None):
    """via = None: storage.pack(t, referencesf, gc).  via = ['db', days]: the public entry point
    DB.pack(t=T + days, days=days); ['dbnow', days]: DB.pack(days=days) with the clock at T + days —
    both must pack to T (gc is then the storage's default, True)."""
    try:
        if via and via[0] == 'default':
            st.pack(real_time(T), Z['referencesf'])        # gc: the storage's configured default
            return 'done'
        if via:
            dbmod = sys.modules['ZODB.DB']
            days = via[1]
            shim = _DBShim(st)
            if via[0] == 'db':
                dbmod.DB.pack(shim, t=real_time(T) + days * 86400, days=days)
            else:
                import types
                real = dbmod.time
                dbmod.time = types.SimpleNamespace(time=lambda: real_time(T) + days * 86400)
                try:
                    dbmod.DB.pack(shim, days=days)
                finally:
                    dbmod.time = real
            return 'done'
        st.pack(real_time(T), Z['referencesf'], gc=bool(gc))
        return 'done'
    except BaseException as e:       # AssertionError included
        if isinstance(e, (KeyboardInterrupt, SystemExit)):
            raise
        n = type(e).__name__
        return {'KeyError': 'err:KeyError', 'POSKeyError': 'err:KeyError', 'PackError': 'err:PackError',
                'AssertionError': 'err:Assertion', 'ValueError': 'err:ValueError',
                'TypeError': 'err:TypeError'}.get(n, 'err:Other(%s)' % n)


# ------------------------------------------------------------------------------------------ oracle
class Hist:
    """the committed history as listed by the real storage + ground-truth references"""

    def __init__(self, lst, truth):
        self.recs = {}                       # oid -> [(m, data)] ascending
        for t in lst:
            for o, data, _ in t['recs']:
                self.recs.setdefault(o, []).append((t['m'], data))
        self.truth = truth

    def state(self, o, b):
        """newest (m, data) of o with m < b, or None"""
        best = None
        for m, d in self.recs.get(o, ()):
            if m < b:
                best = (m, d)
        return best

    def live_reach(self, b):
        seen = set()
        todo = [ROOT]
        while todo:
            o = todo.pop()
            if o in seen:
                continue
            s = self.state(o, b)
            if s is None or s[1] is None:
                continue                     # absent / un-created: not an object of this snapshot
            seen.add(o)
            todo += self.truth.get(s[1], [])
        return seen

    def written_after(self, o, T):
        return any(m > T for m, _ in self.recs.get(o, ()))

    def superseded(self, o, m, T):
        return any(m < m2 <= T for m2, _ in self.recs.get(o, ()))


def rec_set(lst):
    return {(t['m'], o): d for t in lst for o, d, _ in t['recs']}


def post_listing(lst, T):
    return [(t['m'], t['status'], t['user'], t['desc'], t['ext'],
             sorted(((o, d) for o, d, _ in t['recs']), key=lambda x: x[0])) for t in lst if t['m'] > T]


def full_listing(lst):
    return [(t['m'], t['status'], t['user'], t['desc'], t['ext'], [(o, d) for o, d, _ in t['recs']])
            for t in lst]


def short(x):
    if isinstance(x, tuple):
        return tuple(short(y) for y in x)
    if isinstance(x, bytes):
        return dig(x)
    return x


def judge_pack(before, after, T, gc, kind, outcome, truth, bounds, counts):
    """The property, sentence by sentence, for ONE pack call at time T.  Returns [(signature, what)]."""
    H = Hist(before['listing'], truth)
    reachT = H.live_reach(T + 1)
    fslike = kind in FSLIKE
    bad = []

    def removable_object(o):                 # sentence 1, second clause
        return o not in reachT and not H.written_after(o, T)

    def known_sig(o):                        # the recorded FileStorage defect, exactly
        return fslike and gc and o not in reachT and H.written_after(o, T)

    # oids with a record after T whose back pointer targets a transaction (also after T) that holds
    # two records of that oid: PackCopier._data_find re-points it at the FIRST of them
    multi = {(t['m'], o) for t in before['listing'] for o in {x[0] for x in t['recs']}
             if sum(1 for x in t['recs'] if x[0] == o) > 1}
    firstdup = {o for t in before['listing'] if t['m'] > T for o, _, bk in t['recs']
                if bk is not None and bk > T and (bk, o) in multi} if fslike else set()

    def load_sig(o):
        if known_sig(o):
            return SIG_GARBAGE_WRITTEN
        return SIG_FIRST_DUP if o in firstdup else 'C07:load-changed'

    # sentence 2a: every object reachable in a snapshot b > T loads identically
    for b in bounds:
        if b <= T:
            continue
        for o in sorted(H.live_reach(b)):
            x, y = before['loads'][(o, b)], after['loads'][(o, b)]
            if x == y:
                continue
            if removable_object(o):
                counts['excused:resurrected-object-of-R'] = counts.get('excused:resurrected-object-of-R', 0) + 1
                continue
            bad.append((load_sig(o),
                        'loadBefore(oid %d, b=%d) after pack(T=%d, gc=%d) on %s: %r, was %r'
                        % (o, b, T, gc, kind, short(y), short(x))))
    last = max(bounds)
    for o in sorted(H.live_reach(last)):
        for name, x, y in (('load', before['cur'][o], after['cur'][o]),):
            if x != y and not removable_object(o):
                bad.append((load_sig(o),
                            '%s(oid %d) after pack(T=%d, gc=%d) on %s: %r, was %r'
                            % (name, o, T, gc, kind, short(y), short(x))))
    # loadSerial of every revision that answers some snapshot b > T for a reachable object
    need = set()
    for b in bounds:
        if b > T:
            for o in H.live_reach(b):
                s = H.state(o, b)
                need.add((o, s[0]))
    for (o, m) in sorted(need):
        x, y = before['ser'].get((o, m)), after['ser'].get((o, m))
        if x != y and not removable_object(o):
            bad.append((load_sig(o),
                        'loadSerial(oid %d, tid %d) after pack(T=%d, gc=%d) on %s: %r, was %r'
                        % (o, m, T, gc, kind, short(y if y is not None else 'K'), short(x))))
    # history(oid): the revisions after T of every object reachable now
    for o in sorted(H.live_reach(last)):
        x, y = before['hist'].get(o), after['hist'].get(o)
        fx = [e for e in x if e[0] > T] if isinstance(x, list) else x
        fy = [e for e in y if e[0] > T] if isinstance(y, list) else y
        if fx != fy and not removable_object(o):
            bad.append((load_sig(o), 'history(oid %d) after pack(T=%d, gc=%d) on %s lists %r after T, was %r'
                        % (o, T, gc, kind, fy, fx)))
    # undoLog: the transactions after T are still offered
    x, y = before.get('undolog'), after.get('undolog')
    if isinstance(x, list) or isinstance(y, list):
        fx = [e for e in x if e[0] > T] if isinstance(x, list) else x
        fy = [e for e in y if e[0] > T] if isinstance(y, list) else y
        if fx != fy:
            bad.append(('C07:later-transaction-changed',
                        'undoLog after pack(T=%d, gc=%d) on %s offers %r after T, offered %r'
                        % (T, gc, kind, [e[0] for e in fy] if isinstance(fy, list) else fy,
                           [e[0] for e in fx] if isinstance(fx, list) else fx)))
    # sentence 2b: every transaction after T still listed and iterable, identical records
    if post_listing(before['listing'], T) != post_listing(after['listing'], T):
        pb = {(x[0], o): d for x in post_listing(before['listing'], T) for o, d in x[5]}
        pa = {(x[0], o): d for x in post_listing(after['listing'], T) for o, d in x[5]}
        only_firstdup = (set(pb) == set(pa) and bool(firstdup) and
                         all(o in firstdup for k, o in pb if pb[(k, o)] != pa[(k, o)]) and
                         [x[:5] for x in post_listing(before['listing'], T)] ==
                         [x[:5] for x in post_listing(after['listing'], T)])
        bad.append((SIG_FIRST_DUP if only_firstdup else 'C07:later-transaction-changed',
                    'transactions after T=%d differ after pack(gc=%d) on %s' % (T, gc, kind)))
    # the iterator lists exactly the revisions the storage still holds: a listed record loads by its
    # serial (MappingStorage-like: every listed record; FileStorage: those of unpacked transactions after
    # T — packed records have no prev pointers to chase), with the listed data
    rs_after = rec_set(after['listing'])
    packed = {t['m'] for t in after['listing'] if t['status'] == 'p'}
    for (m, o), d in sorted(rs_after.items(), key=lambda kv: kv[0]):
        if d is None or not (kind in MAPLIKE or (m > T and m not in packed)):
            continue
        got = after['ser'].get((o, m))
        if got != d:
            bad.append(('C07:iterator-lists-removed-record' if isinstance(got, str) else 'C07:record-altered',
                        'after pack(T=%d, gc=%d) on %s the iterator lists record (tid %d, oid %d) but '
                        'loadSerial gives %r' % (T, gc, kind, m, o, short(got))))
            break
    # sentence 1: only R is removed; nothing is invented or altered
    rb, ra = rec_set(before['listing']), rec_set(after['listing'])
    for (m, o), d in sorted(ra.items(), key=lambda kv: kv[0]):
        if (m, o) not in rb:
            bad.append(('C07:record-invented', 'record (tid %d, oid %d) appears after pack' % (m, o)))
        elif rb[(m, o)] != d:
            bad.append((SIG_FIRST_DUP if (o in firstdup and m > T) else 'C07:record-altered',
                        'record (tid %d, oid %d) changed data after pack' % (m, o)))
    for (m, o), d in sorted(rb.items(), key=lambda kv: kv[0]):
        if (m, o) in ra or d is None:        # tombstones (un-creation / deletion) carry no revision
            continue
        if m <= T and (H.superseded(o, m, T) or removable_object(o)):
            continue
        sig = (SIG_GARBAGE_WRITTEN if (known_sig(o) and m <= T and not H.superseded(o, m, T))
               else 'C07:removed-outside-R')
        bad.append((sig, 'pack(T=%d, gc=%d) on %s removed revision (tid %d, oid %d): not superseded at T and '
                         'the object is %s' % (T, gc, kind, m, o,
                                               'reachable at T' if o in reachT else 'written after T')))
    # a crash is not a refusal (only KeyError / ValueError / TypeError are raised on purpose by the
    # pack code)
    if outcome in ('err:PackError', 'err:Assertion'):
        # (repaired in /repo: the copier writes the data in full and patches the header length)
        bad.append((SIG_REFUSED_BACKPTR,
                    'pack(T=%d, gc=%d) on %s failed with %s: a record after T points back to a revision the '
                    'pack removes' % (T, gc, kind, outcome[4:])))
    if outcome == 'err:TypeError' and not (kind in DEMOFS and gc):
        # only DemoStorage-with-a-base refuses gc with TypeError; elsewhere it is a crash
        # (PackCopier._data_find: len(None) when the first of two records of the oid carries data)
        bad.append((SIG_FIRST_DUP if firstdup else 'C07:pack-crashed',
                    'pack(T=%d, gc=%d) on %s crashed with TypeError' % (T, gc, kind)))
    if outcome.startswith('err:Other('):
        bad.append((SIG_DEMO_ATTR if (kind in DEMOFS and 'AttributeError' in outcome) else 'C07:pack-crashed',
                    'pack(T=%d, gc=%d) on %s crashed with %s' % (T, gc, kind, outcome[10:-1])))
    # a refused pack (exception) must leave everything as it was
    if outcome.startswith('err:'):
        # (a MappingStorage whose gc sweep fails — dangling reference, injected fault — has done step 1)
        mapping_gc_keyerror = (kind in MAPLIKE and outcome in ('err:KeyError', 'err:Injected'))
        if not mapping_gc_keyerror and (
                full_listing(before['listing']) != full_listing(after['listing'])
                or before['loads'] != after['loads'] or before['cur'] != after['cur']
                or before['ser'] != after['ser'] or before['hist'] != after['hist']
                or before.get('undolog') != after.get('undolog')):
            bad.append(('C07:failed-pack-changed-storage',
                        'pack(T=%d, gc=%d) on %s raised %s and changed the storage' % (T, gc, kind, outcome)))
        if mapping_gc_keyerror and bad and outcome == 'err:KeyError':
            bad = [(SIG_MAP_KEYERROR, w) for _, w in bad]
    return bad


def judge_repack(before, after, T, prevT, gc, kind, outcome):
    """sentence 3: packing again to the same or an earlier time changes nothing"""
    if full_listing(before['listing']) == full_listing(after['listing']) and \
            before['loads'] == after['loads']:
        return []
    rb, ra = rec_set(before['listing']), rec_set(after['listing'])
    removed = [k for k in rb if k not in ra]
    only_tombstones = (removed and all(rb[k] is None for k in removed) and
                       all(k in rb and rb[k] == d for k, d in ra.items()))
    sig = SIG_REPACK if (kind in FSLIKE and only_tombstones) else 'C07:repack-changed'
    return [(sig, 'second pack(T=%d, gc=%d) after pack(T=%d) on %s (%s) changed the storage: removed %r'
             % (T, gc, prevT, kind, outcome, sorted(removed)))]


# ------------------------------------------------------------------------------------------ one case
def model_lines_history(lst, hexed=False):
    lines = ['reset']
    for t in lst:
        mlen = len(t['user']) + len(t['desc']) + t.get('elen', 0)
        lines.append('txn %d %d %d %s' % (t['m'], 1 if t['status'] == 'p' else 0, mlen,
                                          dig(t['user'] + b'|' + t['desc'], 2)))
        for o, d, back in t['recs']:
            refs = [Z['u64'](x) for x in Z['referencesf'](d)] if d else []
            dlen = (len(d) if not hexed else 2 + 2 * len(d)) if d else 0     # HexStorage: b'.h' + hex
            lines.append('rec %d %s %d %s %s' % (o, dig(d) if d is not None else '-', dlen,
                                                 '-' if back is None else str(back),
                                                 ','.join(map(str, refs)) or '-'))
    lines += ['wf', 'save']
    return lines


def canon_dump(lst, with_back=True):
    out = []
    for t in lst:
        out.append('%d:%s:%s:[%s]' % (
            t['m'], 'p' if t['status'] == 'p' else '_', dig(t['user'] + b'|' + t['desc'], 2),
            ','.join('%d/%s/%s' % (o, dig(d) if d is not None else '-',
                                   '-' if (back is None or not with_back) else str(back))
                     for o, d, back in t['recs'])))
    return ';'.join(out)


def canon_loads(obs, T, oids, bounds):
    out = []
    for o in oids:
        for b in bounds:
            if b > T:
                r = obs['loads'][(o, b)]
                if r is None:
                    s = 'N'
                elif isinstance(r, str):
                    s = r
                else:
                    s = 'd%s.s%d.e%s' % (dig(r[0]), r[1], '-' if r[2] is None else str(r[2]))
                out.append('%d@%d=%s' % (o, b, s))
    return ';'.join(out)


FS_FAULTS = ('gc', 'toPacktime', 'copyRest', 'copyOne1', 'copyOne2')


class Injected(Exception):
    pass


def inject_fault(fault, referencesf):
    """install a fault at a packer phase; returns (undo function, referencesf to pass).  FileStorage:
    GC.findReachable / after copyToPacktime / copyRest / n-th copyOne raise OSError (disk full) or a
    non-OSError; MappingStorage: the k-th referencesf call of the gc sweep raises."""
    import errno
    fspack = sys.modules['ZODB.FileStorage.fspack']
    saved = []

    def patch(cls, name, fn):
        saved.append((cls, name, getattr(cls, name)))
        setattr(cls, name, fn)
    if fault == 'gc':
        patch(fspack.GC, 'findReachable', lambda self: (_ for _ in ()).throw(Injected('gc')))
    elif fault == 'toPacktime':
        orig = fspack.FileStoragePacker.copyToPacktime

        def copyToPacktime(self):
            orig(self)
            raise OSError(errno.ENOSPC, 'No space left on device (injected)')
        patch(fspack.FileStoragePacker, 'copyToPacktime', copyToPacktime)
    elif fault == 'copyRest':
        patch(fspack.FileStoragePacker, 'copyRest',
              lambda self, ipos: (_ for _ in ()).throw(OSError(errno.ENOSPC, 'injected')))
    elif fault in ('copyOne1', 'copyOne2'):
        orig1 = fspack.FileStoragePacker.copyOne
        n = dict(n=0)

        def copyOne(self, ipos):
            n['n'] += 1
            if n['n'] >= int(fault[-1]):
                raise (Injected('copyOne') if fault == 'copyOne2' else OSError(errno.EIO, 'injected'))
            return orig1(self, ipos)
        patch(fspack.FileStoragePacker, 'copyOne', copyOne)
    elif fault.startswith('refs'):
        k = dict(n=0, at=int(fault[4:]))
        inner = referencesf

        def referencesf(p, oids=None):           # noqa: F811
            k['n'] += 1
            if k['n'] == k['at']:
                raise Injected('referencesf')
            return inner(p, oids)

    def undo():
        for cls, name, v in saved:
            setattr(cls, name, v)
    return undo, referencesf


def run_case(case, tmp, want_model=True):
    """Execute one (ops, kind, seq) on the real code.  Returns a dict with the oracle's findings,
    the model script and the real observations the model must reproduce.
    seq entries: [T, gc] or [T, gc, fault] (a pack with a fault injected at a packer phase)."""
    global Z
    if Z is None:
        Z = _zodb()
    ops, kind, seq = case['ops'], case['kind'], case['seq']
    res = dict(bad=[], counts={}, lines=[], expect=[], nontrivial=False, sample=None, log=[])
    counts = res['counts']
    d = os.path.join(tmp, 'c%d' % os.getpid())
    shutil.rmtree(d, ignore_errors=True)
    os.makedirs(d)
    path = os.path.join(d, 'Data.fs')
    truth = Truth()
    base = None
    buddy = None
    view = None
    hexed = kind in HEXED
    try:
        ms = [op['m'] for op in ops]
        half = len(ops) // 2
        if kind == 'demobase':
            # the first half of the history lives in the base, the rest in the changes FileStorage
            base = Z['MS']()
            done0, serial = apply_ops(base, 'map', ops[:half], truth)
            st = open_storage(kind, path, base=base)
            done, serial = apply_ops(st, kind, ops[half:], truth, serial)
            done = done0 + done
        else:
            st = open_storage(kind, path, case.get('cfg'))
            done, serial = apply_ops(st, kind, ops[:half], truth)
            if kind in FSLIKE and case.get('pre_index') == 'stale':
                fs_of(st, kind)._save_index()
                shutil.copy(path + '.index', path + '.index.stale')
            done2, serial = apply_ops(st, kind, ops[half:], truth, serial)
            done += done2
        res['log'] = done
        bounds = sorted(set(ms + [max(ms) + 1])) if ms else [1, 4, 9]
        oids = all_oids(ops)
        if kind == 'mvccmap':
            view = st.new_instance()              # a second instance with its own (polled) snapshot
            view.poll_invalidations()
        before = observe(st, oids, bounds, view)
        first = before
        inner = fs_of(st, kind)
        two = inner is not st and kind == 'demobase'     # the model gets the packed storage's own history
        before_m = observe(inner, oids, bounds) if two else before
        if want_model:
            res['lines'] += model_lines_history(before_m['listing'], hexed)
            res['expect'] += [None] * (len(res['lines']) - 2) + ['sorted=1 backok=1', None]
        if kind in FSLIKE:
            st.close()
            shutil.copy(path, path + '.orig')
            # open for the pack with the saved index, without one (scan), or with a stale one
            pi = case.get('pre_index')
            if pi == 'none' and os.path.exists(path + '.index'):
                os.remove(path + '.index')
            elif pi == 'stale' and os.path.exists(path + '.index.stale'):
                shutil.copy(path + '.index.stale', path + '.index')
            if pi:
                counts['pre-index:' + pi] = 1
            st = open_storage(kind, path, case.get('cfg'), base=base)
            inner = fs_of(st, kind)
            if pi:
                chk = observe(st, oids, bounds)
                if (full_listing(chk['listing']) != full_listing(before['listing'])
                        or chk['loads'] != before['loads'] or chk['cur'] != before['cur']):
                    res['bad'].append(('C07:reopen-differs', 'answers differ after reopening the unpacked %s '
                                       'with index mode %s' % (kind, pi)))
        if case.get('buddy'):
            # a second storage of the same class alive in the process, packed at other times in between
            bpath = os.path.join(d, 'Buddy.fs')
            buddy = open_storage('fs' if kind in FSLIKE else 'map', bpath)
            btruth = Truth()
            counts['two-storages-in-process'] = 1
            apply_ops(buddy, 'fs' if kind in FSLIKE else 'map', ops[:max(1, half)], btruth)
        maxT = None
        later_changed = False
        crossing = False
        freed = False
        for i, step in enumerate(seq):
            T, gc = step[0], step[1]
            fault = step[2] if len(step) > 2 else None
            if i == 0 and want_model:
                res['lines'].append('nr %d' % T)
                res['expect'].append(('nr', T, gc))
            if kind in FSLIKE and os.path.exists(path + '.old'):
                os.remove(path + '.old')
            if buddy is not None:
                bT = (T * 7 + 3 * i) % (max(bounds) + 1) + 1
                bb = observe(buddy, oids, bounds)
                bo = do_pack(buddy, bT, 1 - gc)
                ba = observe(buddy, oids, bounds)
                res['bad'] += [(sg, 'second storage in the process: ' + w) for sg, w in
                               judge_pack(bb, ba, bT, 1 - gc, 'fs' if kind in FSLIKE else 'map', bo, btruth,
                                          bounds, counts)]
                if os.path.exists(bpath + '.old'):
                    os.remove(bpath + '.old')
            via = case.get('via') if (gc and kind in ('fs', 'map', 'demo') and not fault) else None
            cfg = case.get('cfg') if kind == 'fs' else None
            if cfg:
                if bool(gc) != bool(cfg['pack_gc']):
                    raise InfraError('case with a configured storage must use its pack-gc in every step')
                via = via or (None if fault else ['default'])
                key = 'cfg:%s:pack-gc=%d,keep-old=%d' % ('ctor' if cfg.get('ctor') else 'config',
                                                         cfg['pack_gc'], cfg['keep_old'])
                counts[key] = counts.get(key, 0) + 1
            ino0 = os.stat(path).st_ino if kind in FSLIKE else None
            if kind in FSLIKE:
                # several pooled read handles at pack time, as after simultaneous loads by several threads
                # (every one of them must be discarded when the packed file is swapped in)
                pool = getattr(inner, '_files', None)
                if pool is not None and hasattr(pool, 'get'):
                    with pool.get(), pool.get(), pool.get():
                        pass
                    counts['filepool-prewarmed'] = 1
            if via:
                counts['via:%s' % via[0]] = counts.get('via:%s' % via[0], 0) + 1
            if fault:
                undo_fault, refsf = inject_fault(fault, Z['referencesf'])
                try:
                    try:
                        st.pack(real_time(T), refsf, gc=bool(gc))
                        outcome = 'done'
                    except Injected:
                        outcome = 'err:Injected'
                    except OSError as e:
                        outcome = 'err:Injected' if 'injected' in str(e) else 'err:Other(OSError)'
                    except Exception as e:
                        outcome = {'KeyError': 'err:KeyError', 'POSKeyError': 'err:KeyError',
                                   'ValueError': 'err:ValueError', 'TypeError': 'err:TypeError'}.get(
                            type(e).__name__, 'err:Other(%s)' % type(e).__name__)
                finally:
                    undo_fault()
                counts['fault:%s:%s' % (fault, outcome)] = counts.get('fault:%s:%s' % (fault, outcome), 0) + 1
            else:
                outcome = do_pack(st, T, gc, case.get('tz'), via)
            if case.get('tz'):
                counts['tz:' + case['tz']] = counts.get('tz:' + case['tz'], 0) + 1
            if kind in FSLIKE and outcome == 'done':
                # the packed file replaces Data.fs (new inode); the old one is kept as Data.fs.old
                # unless pack-keep-old is false
                outcome = 'ok' if os.stat(path).st_ino != ino0 else 'none'
                keep_old = cfg['keep_old'] if cfg else True
                if os.path.exists(path + '.old') != (outcome == 'ok' and keep_old):
                    res['bad'].append(('C07:pack-keep-old',
                                       'pack(T=%d) on %s %s and pack-keep-old is %s, but Data.fs.old %s'
                                       % (T, kind, 'rewrote the file' if outcome == 'ok' else 'changed nothing',
                                          keep_old, 'exists' if os.path.exists(path + '.old') else 'is missing')))
            counts['pack:%s:%s' % (kind, outcome)] = counts.get('pack:%s:%s' % (kind, outcome), 0) + 1
            after = observe(st, oids, bounds, view)
            after_m = observe(inner, oids, bounds) if two else after
            # iterator(start, stop) with bounds equal to existing tids
            later = [t['m'] for t in after['listing'] if t['m'] > T]
            if later:
                try:
                    it = st.iterator(real_tid(later[0]), real_tid(later[-1]))
                    got = [model_time(t.tid) for t in it]
                    if hasattr(it, 'close'):
                        it.close()
                except Exception as e:
                    got = errkind(e)
                if got != later:
                    res['bad'].append(('C07:later-transaction-changed',
                                       'iterator(start=tid %d, stop=tid %d) after pack(T=%d) on %s lists %r, not %r'
                                       % (later[0], later[-1], T, kind, got, later)))
            same_gc = all(x[1] == gc for x in seq[:i + 1])
            if maxT is not None and T <= maxT and same_gc and outcome != 'err:Injected':
                res['bad'] += judge_repack(before, after, T, maxT, gc, kind, outcome)
            # DemoStorage(changes=FileStorage) refuses gc (TypeError): a refusal must leave everything as it was
            demo_refused = kind in DEMOFS and outcome in ('err:TypeError', 'err:Other(AttributeError)')
            res['bad'] += judge_pack(before, after, T, gc, kind, outcome, truth, bounds, counts)
            if any(bk is not None and bk <= T < t['m'] for t in before['listing'] for _, _, bk in t['recs']):
                crossing = True
            if len(rec_set(after['listing'])) < len(rec_set(before['listing'])):
                freed = True
            if want_model:
                mgc = gc if kind not in DEMOFS else 0   # DemoStorage with a base delegates with gc=False
                if outcome == 'err:Injected':
                    # a FileStorage pack that fails changes nothing; a MappingStorage whose sweep fails has
                    # done step 1 and remembers the pack time: exactly the model's gc-off pack
                    if kind in MAPLIKE:
                        res['lines'].append('map.pack %d 0' % T)
                        res['expect'].append(('mapout', 'done'))
                elif demo_refused:
                    pass                                # refused by DemoStorage itself: model not consulted
                else:
                    res['lines'].append('%s.pack %d %d' % ('map' if kind in MAPLIKE else 'fs', T, mgc))
                    if kind in MAPLIKE:
                        res['expect'].append(('mapout', outcome))
                    else:
                        res['expect'].append(('fsout', outcome))
                res['lines'].append('dump')
                res['expect'].append(canon_dump(after_m['listing']))
                # (a packed FileStorage answers b <= an earlier pack time by prev-chasing through
                #  records whose prev is 0: outside the property, not compared)
                Tc = T if maxT is None else max(T, maxT)
                res['lines'].append('loads %d %s %s' % (Tc, ','.join(map(str, oids)), ','.join(map(str, bounds))))
                res['expect'].append(canon_loads(after_m, Tc, oids, bounds))
            # "packing again" presupposes a pack that was carried out: FileStorage keeps no record of a
            # pack that freed nothing, so a later pack to an earlier time is then judged as a first pack
            if outcome in ('ok', 'done') or (outcome == 'err:Injected' and kind in MAPLIKE):
                maxT = T if maxT is None else max(maxT, T)
            if i > 0 and full_listing(before['listing']) != full_listing(after['listing']):
                later_changed = True
            before = after
        res['nontrivial'] = bool(crossing and freed)
        if kind == 'mvccmap' and view is not None:
            # a transaction committed after the pack through an instance created BEFORE the pack must be
            # visible through the main storage, through a fresh instance and in the iterator
            new_m = (max(ms) if ms else 0) + 2
            new_op = dict(m=new_m, op='store', recs=[[21, [22], []], [22, [], []]])
            r, _ = apply_ops(view, kind, [new_op], truth, {})
            want = {rec[0]: mkpickle(new_m * 100 + rec[0], rec[1], rec[2]) for rec in new_op['recs']}
            fresh = st.new_instance()
            lost = []
            for name, inst in (('the main storage', st), ('a fresh instance', fresh), ('the committing instance', view)):
                for o, dta in sorted(want.items()):
                    try:
                        got1 = inst.load(Z['p64'](o), '')[0]
                        got2 = inst.loadBefore(Z['p64'](o), real_tid(new_m + 1))
                        if got1 != dta or got2 is None or got2[0] != dta:
                            lost.append((name, o))
                    except Exception as e:
                        lost.append((name, o, errkind(e)))
            listed = sorted((o, dta) for t in listing(st) if t['m'] == new_m for o, dta, _ in t['recs'])
            if r[0][1] != 'ok' or lost or listed != sorted(want.items()):
                res['bad'].append(('C07:commit-after-pack-lost',
                                   'transaction %d committed after pack%r through an MVCCMappingStorage instance '
                                   'created before the pack (%s): not loadable through %r, iterator lists oids %r'
                                   % (new_m, [x[:2] for x in seq], r[0][1], lost, [o for o, _ in listed])))
        # reopen: the packed file answers identically
        if kind in FSLIKE:
            st.close()
            if case.get('drop_index') and os.path.exists(path + '.index'):
                os.remove(path + '.index')
            st = open_storage(kind, path, case.get('cfg'), base=base)
            again = observe(st, oids, bounds)
            if (full_listing(again['listing']) != full_listing(before['listing'])
                    or again['loads'] != before['loads'] or again['cur'] != before['cur']
                    or again['ser'] != before['ser'] or again['hist'] != before['hist']
                    or again['undolog'] != before['undolog']):
                res['bad'].append(('C07:reopen-differs', 'answers differ after close/reopen of the packed %s' % kind))
            # undo series of the transactions after the pack time, newest first
            T0 = seq[0][0]
            if (maxT is not None and T0 == maxT and not later_changed and kind != 'demobase'
                    and not any(len(x) > 2 for x in seq)
                    and not any(sig == SIG_MAP_KEYERROR for sig, _ in res['bad'])):
                res['bad'] += undo_series(st, kind, path, first, T0, seq[0][1], oids, truth, counts, serial)
        if res['bad'] or res['nontrivial']:
            res['sample'] = dict(kind=kind, seq=seq, ops=ops[:6], outcomes=[k for k in counts if k.startswith('pack:')])
    finally:
        for x in (locals().get('st'), buddy, base):
            try:
                if x is not None:
                    x.close()
            except Exception:
                pass
        shutil.rmtree(d, ignore_errors=True)
    return res


def run_cc(case, tmp, want_model=False):
    """A transaction committed by a second thread while MappingStorage.pack (directly or as the
    changes of a DemoStorage) is inside its gc sweep.  The thread is started from the `referencesf`
    callback of the sweep and given 0.25 s; a storage that serialises pack and commit lets it wait.
    Whatever the order, that transaction lies after the pack time: it must be listed completely and
    its objects must load; everything else is judged as for a pack without it."""
    global Z
    import threading
    if Z is None:
        Z = _zodb()
    ops, kind, (T, gc) = case['ops'], case['kind'], case['seq'][0]
    res = dict(bad=[], counts={}, lines=[], expect=[], nontrivial=False, sample=None, log=[])
    truth = Truth()
    st = open_storage(kind, None)
    try:
        done, serial = apply_ops(st, kind, ops, truth)
        res['log'] = done
        ms = [op['m'] for op in ops]
        bounds = sorted(set(ms + [max(ms) + 1]))
        oids = all_oids(ops)
        before = observe(st, oids, bounds)
        new_m = max(ms) + 2
        new_op = dict(m=new_m, op='store', recs=[[17, [18], []], [18, [], []]])
        finished = threading.Event()
        errors = []

        def committer():
            try:
                r, _ = apply_ops(st, kind, [new_op], truth, {})
                if r[0][1] != 'ok':
                    errors.append(r[0][1])
            except Exception as e:
                errors.append(repr(e))
            finally:
                finished.set()
        thread = threading.Thread(target=committer)
        state = dict(started=False, during=False)

        def hooked(p, oids=None):
            if not state['started']:
                state['started'] = True
                thread.start()
                state['during'] = finished.wait(0.25)
            return Z['referencesf'](p, oids)
        try:
            st.pack(real_time(T), hooked, gc=True)
            outcome = 'done'
        except Exception as e:
            outcome = {'KeyError': 'err:KeyError', 'ValueError': 'err:ValueError'}.get(
                type(e).__name__, 'err:Other(%s)' % type(e).__name__)
        if not state['started']:
            thread.start()
        thread.join(30)
        res['counts']['cc:%s:commit-%s-pack' % (kind, 'during' if state['during'] else 'after')] = 1
        res['counts']['pack:%s:%s' % (kind, outcome)] = 1
        if errors or thread.is_alive():
            res['bad'].append(('C07:commit-during-pack-failed',
                               'the commit arriving during pack(T=%d) on %s failed: %r' % (T, kind, errors)))
        after = observe(st, oids, bounds)
        mine = [t for t in after['listing'] if t['m'] == new_m]
        want = sorted((o, mkpickle(new_m * 100 + o, r, w)) for o, r, w in new_op['recs'])
        got = sorted((o, d) for t in mine for o, d, _ in t['recs'])
        lost = []
        for o, d in want:
            try:
                r = st.loadBefore(Z['p64'](o), real_tid(new_m + 1))
                if r is None or r[0] != d:
                    lost.append(o)
            except Exception:
                lost.append(o)
        if not errors and (got != want or lost):
            res['bad'].append(('C07:commit-during-pack-lost',
                               'transaction %d committed by another thread %s pack(T=%d, gc=1) on %s: listed '
                               'records of oids %r (wrote %r), not loadable: %r'
                               % (new_m, 'during' if state['during'] else 'after', T, kind,
                                  [o for o, _ in got], [o for o, _ in want], lost)))
        after['listing'] = [t for t in after['listing'] if t['m'] != new_m]
        res['bad'] += judge_pack(before, after, T, 1, kind, outcome, truth, bounds, res['counts'])
        if res['bad']:
            res['sample'] = dict(kind=kind, seq=case['seq'], cc=True, ops=ops[:6])
    finally:
        try:
            st.close()
        except Exception:
            pass
    return res


def blob_pickle(val):
    """a record ZODB.blob.is_blob_record recognises: the class pickled as a global, then a state"""
    import ZODB.blob
    f = io.BytesIO()
    p = pickle.Pickler(f, 3)
    p.dump(ZODB.blob.Blob)
    p.dump(val)
    return f.getvalue()


def run_blob(case, tmp, want_model=False):
    """FileStorage with a blob directory: a pack to T2 that FAILS at a packer phase (injected fault),
    then a pack to T1 that succeeds.  A failed pack must leave everything as it was (records, blob
    files), and must not influence what the later pack removes: every snapshot above T1 still
    loads every object with the same data, serial, end tid and blob file contents, and a blob write
    after T1 is still undoable."""
    global Z
    import errno
    if Z is None:
        Z = _zodb()
    res = dict(bad=[], counts={}, lines=[], expect=[], nontrivial=False, sample=None, log=[])
    counts = res['counts']
    d = os.path.join(tmp, 'b%d' % os.getpid())
    shutil.rmtree(d, ignore_errors=True)
    os.makedirs(d)
    p64, z64 = Z['p64'], Z['z64']
    st = Z['FS'](os.path.join(d, 'Data.fs'), blob_dir=os.path.join(d, 'blobs'))
    fspack = sys.modules['ZODB.FileStorage.fspack']
    packer = fspack.FileStoragePacker
    serial = {}
    content = {}                                  # (oid, m) -> blob bytes

    def commit(m, recs):
        t = Z['TMD']('u', 'txn %d' % m)
        st.tpc_begin(t, tid=real_tid(m))
        for o, kind_, refs in recs:
            if kind_ == 'blob':
                fn = os.path.join(d, 'tmp-%d-%d.blob' % (m, o))
                body = b'blob %d of txn %d' % (o, m)
                with open(fn, 'wb') as f:
                    f.write(body)
                st.storeBlob(p64(o), serial.get(o, z64), blob_pickle(m * 100 + o), fn, '', t)
                content[(o, m)] = body
            else:
                st.store(p64(o), serial.get(o, z64), mkpickle(m * 100 + o, refs), '', t)
        st.tpc_vote(t)
        st.tpc_finish(t)
        for o, _, _ in recs:
            serial[o] = real_tid(m)

    def observe_blobs(bounds, oids):
        out = {}
        for o in oids:
            for b in bounds:
                try:
                    r = st.loadBefore(p64(o), real_tid(b))
                except Exception as e:
                    out[(o, b)] = errkind(e)
                    continue
                if r is None:
                    out[(o, b)] = None
                    continue
                blob = None
                if st.is_blob_record(r[0]):
                    try:
                        with open(st.loadBlob(p64(o), r[1]), 'rb') as f:
                            blob = f.read()
                    except Exception as e:
                        blob = 'blob file: ' + errkind(e)
                out[(o, b)] = (dig(r[0]), model_time(r[1]), model_time(r[2]), blob)
        return out
    saved = {}
    try:
        for m, recs in case['hist']:
            commit(m, recs)
        ms = [m for m, _ in case['hist']]
        bounds = sorted(set(ms + [max(ms) + 1]))
        oids = sorted({o for _, recs in case['hist'] for o, _, _ in recs})
        T1, gc1 = case['T1']
        T2, gc2 = case['T2']
        before = observe_blobs(bounds, oids)
        lst0 = full_listing(listing(st))
        # 1. the pack to T2 fails
        fault = case['fault']
        calls = dict(n=0)
        if fault == 'copyRest':
            saved['copyRest'] = packer.copyRest

            def copyRest(self, ipos):
                raise OSError(errno.ENOSPC, 'No space left on device (injected)')
            packer.copyRest = copyRest
        elif fault in ('copyOne2', 'runtime'):
            saved['copyOne'] = packer.copyOne
            orig = packer.copyOne

            def copyOne(self, ipos):
                calls['n'] += 1
                if calls['n'] >= (2 if fault == 'copyOne2' else 1):
                    if fault == 'runtime':
                        raise RuntimeError('injected')
                    raise OSError(errno.EIO, 'I/O error (injected)')
                return orig(self, ipos)
            packer.copyOne = copyOne
        try:
            st.pack(real_time(T2), Z['referencesf'], gc=bool(gc2))
            out1 = 'done'
        except BaseException as e:
            if isinstance(e, (KeyboardInterrupt, SystemExit)):
                raise
            out1 = 'err:' + type(e).__name__
        finally:
            for k, v in saved.items():
                setattr(packer, k, v)
        counts['blobpack:first:%s:%s' % (fault, out1)] = 1
        mid = observe_blobs(bounds, oids)
        if out1.startswith('err:'):
            if mid != before or full_listing(listing(st)) != lst0:
                k = sorted(x for x in before if mid.get(x) != before[x])[:3]
                res['bad'].append(('C07:failed-pack-changed-storage',
                                   'pack(T=%d, gc=%d) with blobs failed (%s at %s) and changed the storage: %r'
                                   % (T2, gc2, out1, fault, [(x, short(before[x]), short(mid.get(x))) for x in k])))
        # 2. the pack to T1 succeeds
        ref = mid if not out1.startswith('err:') else before
        try:
            st.pack(real_time(T1), Z['referencesf'], gc=bool(gc1))
            out2 = 'done'
        except BaseException as e:
            if isinstance(e, (KeyboardInterrupt, SystemExit)):
                raise
            out2 = 'err:' + type(e).__name__
        counts['blobpack:second:%s' % out2] = 1
        after = observe_blobs(bounds, oids)
        Tm = max(T1, T2) if not out1.startswith('err:') else T1
        def reach(bd):                             # blobs reference nothing: root + what it references
            cur = [refs for m, recs in case['hist'] if m < bd for o, _, refs in recs if o == ROOT]
            return {ROOT} | set(cur[-1] if cur else [])
        diff = sorted(x for x in ref if x[1] > Tm and x[0] in reach(x[1]) and after.get(x) != ref[x])
        if diff:
            x = diff[0]
            res['bad'].append(('C07:pack-after-failed-pack-lost-blob' if out1.startswith('err:')
                               else 'C07:blob-load-changed',
                               'pack(T=%d, gc=%d) after a pack(T=%d) that %s: loadBefore(oid %d, b=%d) + blob file '
                               'gives %r, was %r' % (T1, gc1, T2, 'failed at ' + str(fault) if out1.startswith('err:')
                                                     else 'succeeded', x[0], x[1], short(after.get(x)), short(ref[x]))))
        # a blob write after the pack time is still undoable (undo copies the previous revision's file)
        for m, recs in reversed(case['hist']):
            blobs = [o for o, k_, _ in recs if k_ == 'blob']
            if m > Tm and blobs and all(serial[o] == real_tid(m) for o, _, _ in recs) and not diff:
                prev = {o: max((mm for (oo, mm) in content if oo == o and mm < m), default=None) for o in blobs}
                t = Z['TMD']('u', 'undo')
                st.tpc_begin(t, tid=real_tid(max(ms) + 2))
                try:
                    st.undo(base64.encodebytes(real_tid(m)).rstrip(), t)
                    st.tpc_vote(t)
                    st.tpc_finish(t)
                    for o in blobs:
                        if prev[o] is None:
                            continue
                        data, s = st.load(p64(o), '')
                        with open(st.loadBlob(p64(o), s), 'rb') as f:
                            got = f.read()
                        if got != content[(o, prev[o])]:
                            res['bad'].append(('C07:undo-after-pack-differs', 'undo of blob write %d: blob reads %r' % (m, got)))
                except Exception as e:
                    st.tpc_abort(t)
                    res['bad'].append(('C07:undo-after-pack-differs',
                                       'undo of the blob write of transaction %d after the packs raised %s'
                                       % (m, type(e).__name__)))
                break
        res['nontrivial'] = out1.startswith('err:') and out2 == 'done'
        if res['bad']:
            res['sample'] = dict(case)
    finally:
        for k, v in saved.items():
            setattr(packer, k, v)
        try:
            st.close()
        except Exception:
            pass
        shutil.rmtree(d, ignore_errors=True)
    return res


def gen_blob_case(rng):
    R = lambda refs: [ROOT, 'obj', refs]
    unlink = rng.random() < 0.4
    hist = [[2, [R([1, 2]), [1, 'blob', []], [2, 'blob', []]]],
            [4, [R([1, 2])]],
            [6, [[1, 'blob', []]] + ([R([1])] if unlink else [])],
            [8, [R([1] if unlink else [1, 2])]],
            [10, [[2, 'blob', []]] if not unlink else [R([1])]],
            [12, [R([1] if unlink else [1, 2])]]]
    T1 = rng.choice([3, 5, 7, 9])
    T2 = rng.choice([t for t in (5, 7, 9, 11) if t > T1])
    return dict(blob=True, hist=hist, T1=[T1, rng.choice([0, 1])], T2=[T2, rng.choice([0, 1, 1])],
                fault=rng.choice(['copyRest', 'copyRest', 'copyOne2', 'runtime', None]),
                ops=[], kind='fsblob', seq=[[T2, 1], [T1, 1]])


def undo_series(st, kind, path, first, T, gc, oids, truth, counts, serial):
    """undo the (up to 4) newest transactions after T, newest first, on the packed storage and on a
    fresh copy of the unpacked file; outcomes and resulting current states must agree"""
    targets = [t['m'] for t in first['listing'] if t['m'] > T and t['status'] == ' '][-4:][::-1]
    if not targets or kind not in FSLIKE:
        return []
    last = max(t['m'] for t in first['listing'])

    def series(s):
        out = []
        for i, m in enumerate(targets):
            done, _ = apply_ops(s, kind, [dict(m=last + 2 * (i + 1), op='undo', target=m)], truth, {})
            out.append(done[0][1] if done[0][1] == 'ok' else 'UndoError')
        cur = {}
        for o in oids:
            try:
                cur[o] = s.load(Z['p64'](o), '')[0]
            except Exception as e:
                cur[o] = errkind(e)
        return out, cur
    got = series(st)
    base = open_storage(kind, path + '.orig')
    try:
        want = series(base)
    finally:
        base.close()
    counts['undo-series'] = counts.get('undo-series', 0) + 1
    for r in got[0]:
        counts['undo:' + r] = counts.get('undo:' + r, 0) + 1
    if got == want:
        return []
    H = Hist(first['listing'], truth)
    reachT = H.live_reach(T + 1)
    # objects of R (unreachable at T, not written afterwards) may be gone: sentence 1
    diff = [o for o in oids if got[1][o] != want[1][o] and (o in reachT or H.written_after(o, T))]
    if got[0] == want[0] and not diff:
        return []
    involved = set(diff)
    if got[0] != want[0]:
        for t in first['listing']:
            if t['m'] in targets:
                involved |= {o for o, _, _ in t['recs']}
    known = (kind in FSLIKE and gc and involved and
             all(o not in reachT and H.written_after(o, T) for o in diff) and
             any(o not in reachT and H.written_after(o, T) for o in involved))
    return [(SIG_GARBAGE_WRITTEN if known else 'C07:undo-after-pack-differs',
             'undo of transactions %r after pack(T=%d, gc=%d) on %s: outcomes %r / states of %r differ from '
             'the unpacked storage (outcomes %r)' % (targets, T, gc, kind, got[0], diff, want[0]))]


# ------------------------------------------------------------------------------------------ driver
class CaseTimeout(Exception):
    pass


def _worker(args):
    """one case; a step that blocks or an exception escaping a harness step becomes a verdict with the
    failing input instead of a hang / a crash of the whole run"""
    import signal
    import traceback
    case, tmp = args

    def on_alarm(signum, frame):
        raise CaseTimeout()
    try:
        signal.signal(signal.SIGALRM, on_alarm)
        signal.alarm(180)
    except Exception:
        pass
    try:
        return runner_of(case)(case, tmp)
    except InfraError as e:
        return dict(infra=str(e))
    except CaseTimeout:
        return dict(bad=[('C07:case-timeout', 'a step of the case did not return within 180 s')], counts={},
                    lines=[], expect=[], nontrivial=False, sample=None, log=[])
    except Exception:
        return dict(bad=[('C07:harness-step-raised', traceback.format_exc()[-1500:])], counts={},
                    lines=[], expect=[], nontrivial=False, sample=None, log=[])
    finally:
        try:
            signal.alarm(0)
        except Exception:
            pass


def compare_model(ck, case, res, mo):
    """real vs model on one case (after the oracle accepted the real observations)"""
    nr = None
    for line, want, got in zip(res['lines'], res['expect'], mo):
        if want is None:
            if got != 'ok':
                return 'model driver answered %r to %r' % (got, line), nr
            continue
        if isinstance(want, tuple) and want[0] == 'nr':
            nr = got
            continue
        if isinstance(want, tuple) and want[0] == 'mapout':
            if {'ok': 'done', 'noop': 'done'}.get(got, got) != want[1]:
                return 'pack outcome: impl %s, model %s (%s)' % (want[1], got, line), nr
            continue
        if isinstance(want, tuple) and want[0] == 'fsout':
            real = want[1]
            m = {'ok': 'ok', 'noop': 'none', 'redundant': 'none'}.get(got, got)
            if m != real:
                return 'pack outcome: impl %s, model %s (%s)' % (real, got, line), nr
            continue
        if want != got:
            k = next((i for i, (x, y) in enumerate(zip(want, got)) if x != y), min(len(want), len(got)))
            k = max(0, k - 60)
            return 'op %r: at char %d impl …%s | model …%s' % (line, k, want[k:k + 240], got[k:k + 240]), nr
    return None, nr


def runner_of(case):
    return run_cc if case.get('cc') else (run_blob if case.get('blob') else run_case)


def load_corpus():
    d = os.path.join(VERIF, 'corpus', 'C07')
    out = []
    if os.path.isdir(d):
        for fn in sorted(os.listdir(d)):
            if fn.endswith('.json'):
                with open(os.path.join(d, fn)) as f:
                    j = json.load(f)
                out += j['cases'] if 'cases' in j else [j['case']]
    return out


def shrink(case, sig, tmp):
    def fails(ops):
        c = dict(case, ops=ops)
        try:
            r = runner_of(c)(c, tmp, want_model=False)
        except Exception:
            return False
        return any(s == sig for s, _ in r['bad'])
    ops = ddmin(case['ops'], fails, max_tests=120)
    small = dict(case, ops=ops)
    # fewer records per store
    for i, op in enumerate(list(small['ops'])):
        if op['op'] == 'store':
            for j in range(len(op['recs']) - 1, -1, -1):
                cand = [dict(o) for o in small['ops']]
                cand[i] = dict(op, recs=op['recs'][:j] + op['recs'][j + 1:])
                if cand[i]['recs'] and fails(cand):
                    small = dict(small, ops=cand)
                    op = cand[i]
    return small


def main(argv=None):
    global Z
    ck = Check('C07', argv)
    ck.extra['modules'] = ['Props.C07', 'Drivers.Pack']
    ck.run_gate(ck.extra['modules'], ['Props.C07'])
    Z = _zodb()
    cases = []
    if ck.replay_path:
        with open(ck.replay_path) as f:
            j = json.load(f)
        cases = [j['case']['case'] if 'case' in j['case'] else j['case']]
    else:
        cases += load_corpus()
        nh = 64 if not ck.thorough else 600
        for i in range(nh):
            ops = gen_history(ck.rng, ck.rng.choice([3, 4, 5, 6, 7, 8, 9])) if i % 40 != 7 else []
            seqs = gen_sequences(ck.rng, ops, ck.thorough)
            kinds = ['fs', 'map'] + (['demo', 'demofs'] if i % 4 == 0 else []) + \
                (['hexfs', 'mvccmap'] if i % 4 == 1 else []) + (['demobase', 'hexmap'] if i % 4 == 2 else [])
            for kind in kinds:
                for seq in seqs:
                    if kind not in ('fs', 'map') and ck.rng.random() < 0.6:
                        continue
                    x = ck.rng.random()
                    tz = 'JST-9' if x < 0.2 else ('XXX-5:30' if x < 0.3 else ('PST8' if x < 0.4 else None))
                    y = ck.rng.random()
                    via = (['db', ck.rng.choice([1, 0.5, 30])] if y < 0.15 else
                           (['dbnow', ck.rng.choice([1, 2])] if y < 0.2 else None))
                    cfg = None
                    if kind == 'fs' and ck.rng.random() < 0.2:
                        g = seq[0][1]
                        cfg = dict(pack_gc=bool(g), keep_old=ck.rng.random() < 0.5, ctor=ck.rng.random() < 0.35)
                        seq = [[x[0], g] for x in seq]
                        if not g:
                            via = None
                    extra = {}
                    z = ck.rng.random()
                    if ops and kind in ('fs', 'hexfs', 'map', 'hexmap', 'mvccmap') and z < 0.12:
                        # a pack that FAILS at a packer phase, then the same pack again
                        T0, g0 = seq[0][0], seq[0][1]
                        if kind in ('fs', 'hexfs'):
                            seq = [[T0, g0, ck.rng.choice(FS_FAULTS)]] + seq
                        elif g0:
                            seq = [[T0, 1, 'refs%d' % ck.rng.choice([1, 2, 3])]] + seq
                    elif ops and kind in ('fs', 'map') and z < 0.2:
                        extra['buddy'] = True
                    if kind in FSLIKE:
                        extra['pre_index'] = ck.rng.choice([None, None, 'saved', 'none', 'stale'])
                    cases.append(dict(ops=ops, kind=kind, seq=seq, drop_index=ck.rng.random() < 0.5, tz=tz,
                                      via=via, cfg=cfg, **extra))
            if i % 5 == 1:
                # FileStorage with blobs: a pack that fails at a packer phase, then a pack that succeeds
                cases.append(gen_blob_case(ck.rng))
            if i % 10 == 3 and ops:
                # a commit arriving from another thread while a MappingStorage is being packed
                ms = [op['m'] for op in ops]
                for kind in ('map', 'map', 'demo'):
                    T = ck.rng.choice(sorted(set(ms + [m + 1 for m in ms])))
                    cases.append(dict(ops=ops, kind=kind, seq=[[T, 1]], cc=True))
    # ---- real code + oracle
    nproc = 1 if len(cases) < 50 else min(16, os.cpu_count() or 1)
    if nproc > 1:
        import multiprocessing as mp
        with mp.Pool(nproc) as pool:
            results = pool.map(_worker, [(c, ck.tmp) for c in cases], chunksize=8)
    else:
        results = [_worker((c, ck.tmp)) for c in cases]
    for r in results:
        if 'infra' in r:
            raise InfraError(r['infra'])
    # ---- model: one driver run for everything
    lines = []
    for r in results:
        lines += r['lines']
    mo = run_driver('Pack', lines, timeout=1500) if lines else []
    pos = 0
    reported = set()
    for case, r in zip(cases, results):
        out = mo[pos:pos + len(r['lines'])]
        pos += len(r['lines'])
        for k, v in r['counts'].items():
            ck.count(k, v)
        for m, o in r['log']:
            ck.count('op:' + ('committed' if o == 'ok' else 'refused:' + o))
        ck.case([case['ops'], case['kind'], case['seq']] + ([case] if case.get('blob') else []),
                r['nontrivial'], sample=r['sample'])
        mism, nr = compare_model(ck, case, r, out)
        if nr:
            ck.count('NoResurrection:' + {'strong=1 weak=1': 'holds',
                                          'strong=0 weak=1': 'only-weak(DESIGN)-form-holds',
                                          'strong=0 weak=0': 'violated(out-of-guarantee-by-sentence-1)'}.get(nr, nr))
        if r['bad']:
            for sig in sorted({s for s, _ in r['bad']}):
                known = any(k.get('status', 'open') == 'open' and k['signature'] == sig for k in ck.known)
                if sig in reported and known:
                    ck.count('known:' + sig)
                    continue
                if (sig in reported and len(ck.violations) >= 3):
                    continue
                reported.add(sig)
                small = case if (known or case.get('blob')) else shrink(case, sig, ck.tmp)
                rr = runner_of(small)(small, ck.tmp, want_model=False)
                what = [w for s, w in rr['bad'] if s == sig] or [w for s, w in r['bad'] if s == sig]
                ck.violation(sig, what[0], dict(case=small, signature=sig, findings=[w for _, w in rr['bad']][:6]))
        elif mism:
            ck.mismatch('model/impl differ (%s, seq %r): %s' % (case['kind'], case['seq'], mism),
                        dict(case=case, what=mism))
    ck.finish(
        rule='seeded object-graph histories (3-9 transactions over root + 5 oids: stores with bare/tuple/weak '
             'references, cycles, garbage, undo incl. undo of creation / of undo, deleteObject, dangling refs) x '
             'every pack time (each tid, each midpoint, before the first) x gc on/off x {FileStorage, '
             'MappingStorage, and for 1/4 of the histories DemoStorage() and DemoStorage(changes=FileStorage)}, each followed by a pack to the same/an '
             'earlier time, reopen and an undo series; a case = one pack sequence on one storage; non-trivial = '
             'the sequence frees >= 1 record and a back pointer (data_txn) of a record after T points to a '
             'transaction at or before T; distinct by hash of (ops, storage, sequence)',
        assumptions=[
            'NoResurrection (strengthened: a record after T references an oid unreachable at T only if that oid has '
            'a record with T < tid <= the referencing tid) is a hypothesis of pack_preserves_loads for FileStorage '
            'gc packs; its satisfaction rate on the generated (history, T) pairs is in histogram NoResurrection:*; '
            'differences it excuses by sentence 1 are counted as excused:resurrected-object-of-R',
            'tombstones (un-creation / deletion records) are not "revisions" in the sense of sentence 1',
            'sentence 3 ("packing again") is judged after a pack that was carried out (rewrote the file / set '
            'MappingStorage._last_pack); after a pack that freed nothing FileStorage keeps no trace of the pack '
            'time, and a later pack to an earlier time is judged as a first pack (sentences 1-2)',
            'a deliberate refusal (KeyError for a dangling reference, ValueError, TypeError, RedundantPackWarning) '
            'must leave the storage unchanged; any other exception is reported as C07:pack-crashed',
            'referencesf is run on the real pickles to feed the model; the oracle uses the generator\'s own lists',
            'oracle-only (no Lean model behind them): blob files (run_blob), a commit arriving during a '
            'MappingStorage pack (run_cc), the second storage packed in the same process, history() / undoLog() / '
            'iterator(start, stop) / loadSerial answers, Data.fs.old presence; model-compared: FileStorage, '
            'MappingStorage, MVCCMappingStorage, HexStorage(FileStorage|MappingStorage) (record lengths as stored, '
            'i.e. hex-encoded), DemoStorage() and DemoStorage(base, changes=FileStorage) (the changes storage\'s own '
            'history, gc off), every construction path (constructor options, ZODB.config, DB.pack), injected pack '
            'failures (FileStorage: nothing changes; MappingStorage sweep failure = the model\'s gc-off pack)',
            'history(oid) is compared on tids only: its size field is the stored length (0 for a back pointer) and '
            'changes when a pack writes an undo record\'s data in full',
        ])


if __name__ == '__main__':
    try:
        main()
    except InfraError as e:
        print('INFRA-ERROR', e)
        sys.exit(2)
