"""C17 — copying or recovering a storage reproduces its full history.

(a) copy matrix: seeded storage-level histories (stores, deleteObject, undo, blobs, pack, explicit tids)
    on {FileStorage, FileStorage+blobs, MappingStorage, DemoStorage} are copied with
    `dst.copyTransactionsFrom(src)` (also `src.iterator(start, stop)`) into {FileStorage,
    FileStorage+blobs, BlobStorage(FileStorage)}.
      direct oracle: full dump of the destination == full dump of the source (iterator with status,
      metadata, records with resolved data; load / loadBefore at every tid boundary / loadSerial /
      history for every oid; blob contents); for a range, == a plain-Python history over the
      source's transactions in [start, stop].
      model: Drivers/Copy.lean is fed what the real `source.iterator()` yielded; its destination's
      iterator (hints included) and Data.fs image (length + fnv64) must equal the real destination's.
(b) fsrecover: small Data.fs files, `ZODB.fsrecover.recover(inp, outp)` in watchdogged child
    processes on the undamaged file, truncations and damaged windows at every field class.
      direct oracle (parses the ORIGINAL file with its own parser): terminates; every transaction
      ending before the damage is recovered; all other output transactions are transactions of the
      input, unchanged and in order — unless the explicit hypothesis of the theorem fails for that
      image (a header inside the damaged transactions still passes the plausibility checks, or an
      intact transaction points back into the damage), which is classified and counted, not alarmed.
      model: Drivers/Recover.lean (byte-level) on the same damaged image: same output transactions
      and the same output file image."""
import base64
import contextlib
import io
import json
import logging
import multiprocessing
import os
import pickle
import shutil
import struct
import sys
import time

sys.path.insert(0, os.path.dirname(os.path.abspath(__file__)))
from common import Check, InfraError, run_driver, ddmin, REPO, VERIF  # noqa: E402

logging.disable(logging.CRITICAL)

BASE = 0x03f0000000000000
GAP = 0x1000000          # spacing of generated tids (0.23 s): pack times fall between them


def p64(n):
    return struct.pack('>Q', n)


def u64(b):
    return struct.unpack('>Q', b)[0]


def hx(b):
    return b.hex() if b else '-'


def fnv64(b):
    h = 0xcbf29ce484222325
    for x in b:
        h = ((h ^ x) * 0x100000001b3) & 0xffffffffffffffff
    return h


# =================================================================== history programs
# extension bytes that are NOT what pickling the dictionary again yields (protocol 1): a copy must
# carry the source's extension bytes verbatim when the source has them
RAW_EXT = pickle.dumps({'k': 'raw'}, 1)


def mkdata(oid, n, rng):
    """a valid two-pickle record (so that pack's referencesf can read it); ends with '.'"""
    pad = rng.choice([0, 0, 1, 3, 9]) if rng else 0
    return b'N.' + pickle.dumps((oid, n, '.' * pad), 3)


class _Ref:
    def __init__(self, oid):
        self.oid = oid


def mkrefdata(n, refs):
    """a two-pickle record whose state holds persistent references to `refs` (for gc packs)"""
    f = io.BytesIO()
    for obj in (None, (n, [_Ref(p64(o)) for o in refs])):
        pk = pickle.Pickler(f, 3)
        pk.persistent_id = lambda o: o.oid if isinstance(o, _Ref) else None
        pk.dump(obj)
    return f.getvalue()


GC_KINDS = ('mapping', 'mvcc', 'cfg-mapping', 'file', 'fileblob', 'hexfile', 'cfg-file', 'demo-mm', 'demo-mf')


def gc_scenario(rng, steps, tid):
    """prepend: a root (oid 0) referencing two objects, one of which references a third; then the
    root drops one and the other drops its child: two objects become unreachable; then a pack WITH
    garbage collection after that, and one more revision.  The source's iterator must no longer
    yield the collected objects' records — a copy must not bring them back."""
    def add(ops, d=b'gc'):
        nonlocal tid
        steps.append(dict(t=tid, u='', d=d.hex(), e=None, ops=ops))
        tid += GAP
    n = rng.randrange(1000)
    add([['s', 0, mkrefdata(n, [20, 21]).hex()], ['s', 20, mkrefdata(n, [22]).hex()],
         ['s', 21, mkrefdata(n, []).hex()], ['s', 22, mkrefdata(n, []).hex()]])
    add([['s', 0, mkrefdata(n + 1, [20]).hex()]])
    if rng.random() < 0.5:
        add([['s', 21, mkrefdata(n + 2, []).hex()]])       # garbage written again after it became garbage
    add([['s', 20, mkrefdata(n + 3, []).hex()]])
    steps.append(dict(pack=tid - GAP // 2, gc=True))
    add([['s', 20, mkrefdata(n + 4, []).hex()]])
    return tid


def mkblobdata(n):
    return b'cZODB.blob\nBlob\n.' + pickle.dumps(n, 3)


# source kinds: which operations their histories may contain
UNDO_KINDS = ('file', 'fileblob', 'demo-mf', 'demo-ff', 'hexfile', 'hexblob', 'cfg-file')
DEL_KINDS = ('file', 'fileblob', 'hexfile', 'hexblob', 'cfg-file')
BLOB_KINDS = ('fileblob', 'hexblob', 'cfg-file')
FILE_FAMILY = ('file', 'fileblob', 'hexfile', 'hexblob', 'cfg-file')


def gen_program(rng, kind, ntx=None, small=False, multi_undo=None):
    """a storage-level history as a json-able program"""
    ntx = ntx or rng.choice([2, 3, 4, 5, 6, 8])
    # oids in several index buckets (6-byte prefixes), with 0xff / 0x00 bytes, high bit, the largest
    oids = [1, 2, 0x10000, 2 ** 63, 0x1ffff, 2 ** 64 - 1] if not small else [1, 2, 3]
    steps = []
    live = {}            # oid -> True (exists) / False (deleted)
    undoable = []        # step indices
    step_oids = {}       # step index -> oids it writes
    base_oids = set()    # demo: oids with a revision in the base
    canundo = kind in UNDO_KINDS
    candel = kind in DEL_KINDS
    split = rng.randrange(1, ntx) if kind.startswith('demo') else 0
    n = 0
    tid = BASE + GAP * rng.choice([1, 1, 5])
    presteps = 0
    chg_start = None
    if kind in GC_KINDS and not small and rng.random() < 0.3:
        tid = gc_scenario(rng, steps, tid)
        presteps = sum(1 for x in steps if 'pack' not in x)
    for i in range(ntx):
        ops = []
        nops = rng.choice([1, 1, 2, 2, 3]) if not small else rng.choice([1, 2])
        empty = rng.random() < 0.08                # an EMPTY transaction (tlen = header length)
        if empty:
            nops = 0
        in_changes = kind.startswith('demo') and i >= split
        if in_changes and chg_start is None:
            chg_start = len(steps)                 # index of the first step of the changes layer
        for _ in range(nops):
            r = rng.random()
            # DemoStorage: only transactions of the changes layer whose objects have no revision in
            # the base (undo below the changes layer is the open finding C17:copy-demo-undo-below-changes,
            # exercised by its own corpus probe)
            cands = [j for j in undoable if (not kind.startswith('demo')) or
                     (chg_start is not None and j >= chg_start and not (step_oids.get(j, set()) & base_oids))]
            if canundo and cands and r < 0.42 and (in_changes or not kind.startswith('demo')) \
                    and not ops:
                # mostly the newest candidate: undo of an undo gives multi-hop back-pointer chains
                # (an undo of the immediately preceding transaction always succeeds)
                ops.append(['u', cands[-1] if rng.random() < 0.7 else rng.choice(cands[-3:])])
                break                                  # an undo is the only op of its transaction
            elif candel and r < 0.4 and any(live.values()):
                o = rng.choice(sorted(k for k, v in live.items() if v))
                if not any(op[1] == o for op in ops):
                    ops.append(['d', o])
                    live[o] = False
            elif (kind in BLOB_KINDS or (kind == 'demo-bm' and not in_changes)) and r < 0.65:
                o = rng.choice(oids)
                if not any(op[1] == o for op in ops):
                    n += 1
                    ops.append(['b', o, mkblobdata(n).hex(),
                                (b'blob%d-' % n + bytes(rng.randrange(256) for _ in range(rng.choice([0, 5, 40])))).hex()])
                    live[o] = True
            else:
                o = rng.choice(oids)
                # (rarely) a second record for an oid already stored in this transaction: the
                # last record of a transaction wins (_data_find, load)
                if not any(op[1] == o for op in ops) or \
                        (rng.random() < 0.25 and all(op[0] == 's' for op in ops if op[1] == o)):
                    n += 1
                    ops.append(['s', o, mkdata(o, n, rng).hex()])
                    live[o] = True
        if not ops and not empty:
            n += 1
            ops.append(['s', oids[0], mkdata(oids[0], n, rng).hex()])
            live[oids[0]] = True
        so = set()
        for op in ops:
            so |= step_oids.get(op[1], set()) if op[0] == 'u' else {op[1]}
        step_oids[len(steps)] = so
        if kind.startswith('demo') and i < split:
            base_oids |= so
        steps.append(dict(t=tid, u=rng.choice([b'', b'u', b'user.name', b'\xc3\xa9']).hex(),
                          d=rng.choice([b'', b'd', b'a description. with dots.', b'x' * 30]).hex(),
                          e=rng.choice([None, None, 1, 'ext.', dict(raw=RAW_EXT.hex())]), ops=ops))
        if ops and (ops[0][0] != 'u' or rng.random() < 0.8):
            undoable.append(len(steps) - 1)
        tid += GAP * rng.choice([1, 1, 2, 7])
        if rng.random() < 0.15 and i < ntx - 1 and not (kind.startswith('demo') and i >= split - 1):
            # pack somewhere in the past (between two tids): packed prefix, status 'p'
            steps.append(dict(pack=tid - GAP * rng.choice([1, 2, 3]) + GAP // 2))
            undoable = []
    if canundo and rng.random() < (0.35 if multi_undo is None else multi_undo):
        tid = multi_undo_scenario(rng, steps, tid, rng.choice([2, 2, 3]))
    if kind in BLOB_KINDS and rng.random() < 0.7:
        tid = blob_undo_scenario(rng, steps, tid)
    if canundo and rng.random() < (0.35 if multi_undo is None else multi_undo):
        tid = uncreation_chain_scenario(rng, steps, tid, rng.choice([3, 4, 5]), candel and rng.random() < 0.5)
    prog = dict(kind=kind, steps=steps, split=split + presteps if kind.startswith('demo') else split)
    if not small and rng.random() < 0.06:
        # boundary values: a record larger than 64 KiB (utils.cp chunks) followed by a small one;
        # user / description / extension at the 65535 limit
        big = [x for x in steps if x.get('ops') and x['ops'][0][0] == 's']
        if big:
            x = rng.choice(big)
            x['ops'][0][2] = (b'N.' + pickle.dumps(b'B' * rng.choice([65536, 70000, 131073]), 3)).hex()
            x['u'] = (b'u' * rng.choice([65535, 65534])).hex()
            x['d'] = (b'd' * 65535).hex()
    if kind in FILE_FAMILY and rng.random() < 0.2:
        # a voted, unfinished transaction at the end of the source while it is copied / recovered
        prog['tail'] = dict(t=tid + GAP, oid=5, data=mkdata(5, 9999, rng).hex())
    return prog


def multi_undo_scenario(rng, steps, tid, k):
    """append: k+1 revisions of a fresh oid; ONE transaction undoing the last k of them, newest first
    (= db.undoMultiple: k back-pointer records for the same oid in one transaction, the LAST one is
    the effective one); another revision; its undo — whose back pointer targets the last record of
    the multi-undo transaction (restore / _data_find must find that one, not the first)."""
    oid = 7

    def add(ops, d=b'multi.undo'):
        nonlocal tid
        steps.append(dict(t=tid, u='', d=d.hex(), e=None, ops=ops))
        tid += GAP
        return len(steps) - 1
    n = 1000 + len(steps)
    revs = []
    for j in range(k + 1):
        ops = [['s', oid, mkdata(oid, n + j, rng).hex()]]
        if j == 1 and rng.random() < 0.5:
            ops.append(['s', 8, mkdata(8, n + j, rng).hex()])
        revs.append(add(ops))
    add([['u', r] for r in reversed(revs[1:])])
    last = add([['s', oid, mkdata(oid, n + k + 1, rng).hex()]])
    add([['u', last]])
    return tid


def blob_undo_scenario(rng, steps, tid):
    """append: a blob, a modification of it, the undo of the modification (a back-pointer record whose
    blob file <oid>/<undo tid>.blob exists separately), optionally the undo of that undo / a further
    revision: every (oid, tid) blob file must be in a blob-aware copy, the undo records' too."""
    oid = 11

    def add(ops, d=b'blob.undo'):
        nonlocal tid
        steps.append(dict(t=tid, u='', d=d.hex(), e=None, ops=ops))
        tid += GAP
        return len(steps) - 1
    n = 3000 + len(steps)
    # (a blob record FOLLOWED by plain records of other objects in the same transaction)
    add([['b', oid, mkblobdata(n).hex(), (b'first blob revision %d' % n).hex()],
         ['s', 12, mkdata(12, n, rng).hex()], ['s', 13, mkdata(13, n, rng).hex()]])
    mod = add([['b', oid, mkblobdata(n + 1).hex(), (b'second blob revision %d' % n).hex()]] +
              ([['s', 12, mkdata(12, n + 1, rng).hex()]] if rng.random() < 0.5 else []))
    last = add([['u', mod]])
    r = rng.random()
    if r < 0.35:
        add([['u', last]])
    elif r < 0.6:
        add([['b', oid, mkblobdata(n + 2).hex(), b'third'.hex()]])
    return tid


def uncreation_chain_scenario(rng, steps, tid, k, use_delete):
    """append: create a fresh oid; un-create it (undo of the creation, or deleteObject); then k
    undos each undoing the previous transaction: the records alternate between 'back pointer to the
    pickle' and 'back pointer (over 1, 2, … hops) to the UN-CREATION record' — the iterator must
    yield data None for the latter (_loadBackTxn(…, fail=False)), restore must write them back."""
    oid = 9

    def add(ops, d=b'uncreation.chain'):
        nonlocal tid
        steps.append(dict(t=tid, u='', d=d.hex(), e=None, ops=ops))
        tid += GAP
        return len(steps) - 1
    first = add([['s', oid, mkdata(oid, 2000 + len(steps), rng).hex()]])
    last = add([['d', oid]] if use_delete else [['u', first]])
    for _ in range(k):
        last = add([['u', last]])
    return tid


def txn_steps(prog):
    return [s for s in prog['steps'] if 'pack' not in s]


class Built:
    def __init__(self):
        self.storage = None
        self.path = None
        self.closers = []
        self.skipped = 0
        self.undos = 0
        self.packs = 0
        self.packfail = 0

    def close(self):
        for c in self.closers:
            try:
                c()
            except Exception:
                pass


def open_storage(kind, d, name):
    import ZODB.FileStorage
    import ZODB.MappingStorage
    import ZODB.blob
    FileStorage = ZODB.FileStorage.FileStorage
    if kind == 'file':
        return FileStorage(os.path.join(d, name + '.fs')), os.path.join(d, name + '.fs')
    if kind == 'fileblob':
        return (FileStorage(os.path.join(d, name + '.fs'), blob_dir=os.path.join(d, name + '.blobs')),
                os.path.join(d, name + '.fs'))
    if kind == 'blobwrap':
        return (ZODB.blob.BlobStorage(os.path.join(d, name + '.blobs'),
                                      FileStorage(os.path.join(d, name + '.fs'))),
                os.path.join(d, name + '.fs'))
    if kind == 'blobwrap-lawn':
        return (ZODB.blob.BlobStorage(os.path.join(d, name + '.blobs'),
                                      FileStorage(os.path.join(d, name + '.fs')), layout='lawn'),
                os.path.join(d, name + '.fs'))
    if kind == 'mapping':
        return ZODB.MappingStorage.MappingStorage(), None
    if kind == 'mvcc':
        from ZODB.tests.MVCCMappingStorage import MVCCMappingStorage
        return MVCCMappingStorage(), None
    if kind in ('hexfile', 'hexblob'):
        from ZODB.tests.hexstorage import HexStorage
        base, path = open_storage('file' if kind == 'hexfile' else 'fileblob', d, name)
        return HexStorage(base), path
    if kind == 'cfg-file':
        # built by ZODB.config with explicit true AND false option values
        import ZODB.config
        path = os.path.join(d, name + '.fs')
        return ZODB.config.storageFromString(
            '<filestorage>\n path %s\n blob-dir %s\n create %s\n read-only false\n'
            ' pack-gc false\n pack-keep-old false\n</filestorage>\n'
            % (path, os.path.join(d, name + '.blobs'), 'false' if os.path.exists(path) else 'true')), path
    if kind == 'cfg-mapping':
        import ZODB.config
        return ZODB.config.storageFromString('<mappingstorage>\n</mappingstorage>\n'), None
    raise ValueError(kind)


def pack_time(tid):
    from persistent.TimeStamp import TimeStamp
    return TimeStamp(p64(tid)).timeTime()


def run_steps(st, steps, serial, tids, d, built, index0=0):
    from ZODB.Connection import TransactionMetaData
    from ZODB.serialize import referencesf
    from ZODB.POSException import UndoError, POSKeyError, ConflictError
    for k, s in enumerate(steps):
        if 'pack' in s:
            try:
                try:
                    st.pack(pack_time(s['pack']), referencesf, gc=bool(s.get('gc')))
                except TypeError:
                    st.pack(pack_time(s['pack']), referencesf)
                built.packs += 1
            except Exception:
                # pack refusing a history (e.g. an undo record after the pack time pointing at a
                # record the pack removes) is C07's business: the source simply stays unpacked
                built.packfail += 1
            continue
        if isinstance(s['e'], dict):
            ext = bytes.fromhex(s['e']['raw'])      # raw extension bytes
        else:
            ext = {} if s['e'] is None else {'k': s['e']}
        t = TransactionMetaData(bytes.fromhex(s['u']), bytes.fromhex(s['d']), ext)
        st.tpc_begin(t, p64(s['t']))
        written = []
        aborted = False
        for op in s['ops']:
            try:
                if op[0] == 's':
                    oid = p64(op[1])
                    st.store(oid, serial.get(oid, p64(0)), bytes.fromhex(op[2]), '', t)
                    written.append(oid)
                elif op[0] == 'd':
                    oid = p64(op[1])
                    st.deleteObject(oid, serial.get(oid, p64(0)), t)
                    written.append(oid)
                elif op[0] == 'b':
                    oid = p64(op[1])
                    fn = os.path.join(d, 'blobtmp-%d' % len(os.listdir(d)))
                    with open(fn, 'wb') as f:
                        f.write(bytes.fromhex(op[3]))
                    st.storeBlob(oid, serial.get(oid, p64(0)), bytes.fromhex(op[2]), fn, '', t)
                    written.append(oid)
                elif op[0] == 'u':
                    target = tids.get(op[1])
                    if target is None:
                        built.skipped += 1
                        continue
                    try:
                        _, oids = st.undo(base64.encodebytes(target).rstrip(b'\n'), t)
                    except UndoError:
                        # a failed undo leaves records in the temp file: the transaction must abort
                        aborted = True
                        break
                    written += list(oids)
                    built.undos += 1
            except (UndoError, POSKeyError, ConflictError, KeyError):
                built.skipped += 1
        if aborted:
            st.tpc_abort(t)
            built.skipped += 1
            continue
        st.tpc_vote(t)
        st.tpc_finish(t)
        tids[index0 + k] = p64(s['t'])
        for oid in written:
            serial[oid] = p64(s['t'])


def build(prog, d, name='src'):
    """execute the program; returns Built with .storage open"""
    import ZODB.DemoStorage
    b = Built()
    kind = prog['kind']
    serial, tids = {}, {}
    if kind.startswith('demo'):
        bk = {'m': 'mapping', 'f': 'file', 'b': 'fileblob', 'p': 'file'}[kind[5]]
        ck = 'mapping' if kind[6] == 'm' else 'file'
        # split counts transactions; find the step index
        nt, cut = 0, len(prog['steps'])
        for i, s in enumerate(prog['steps']):
            if 'pack' not in s:
                if nt == prog['split']:
                    cut = i
                    break
                nt += 1
        base, _ = open_storage(bk, d, name + '-base')
        run_steps(base, prog['steps'][:cut], serial, tids, d, b)
        if kind == 'demo-bm':
            # a FRESH DemoStorage with its default volatile changes over a base that has blobs;
            # no blob method is called on it before the copy (its lazy _blobify happens in the copy)
            st = ZODB.DemoStorage.DemoStorage(base=base)
        elif kind == 'demo-push':
            # three layers: file base, file changes, then a pushed volatile layer
            changes, _ = open_storage('file', d, name + '-changes')
            mid = ZODB.DemoStorage.DemoStorage(base=base, changes=changes)
            rest = prog['steps'][cut:]
            h = len(rest) // 2
            run_steps(mid, rest[:h], serial, tids, d, b, index0=cut)
            st = mid.push()
            run_steps(st, rest[h:], serial, tids, d, b, index0=cut + h)
            b.storage = st
            b.closers = [st.close]
            return b
        else:
            changes, _ = open_storage(ck, d, name + '-changes')
            st = ZODB.DemoStorage.DemoStorage(base=base, changes=changes)
        run_steps(st, prog['steps'][cut:], serial, tids, d, b, index0=cut)
        b.storage = st
        b.closers = [st.close]
    else:
        st, path = open_storage(kind, d, name)
        run_steps(st, prog['steps'], serial, tids, d, b)
        b.storage, b.path = st, path
        b.closers = [st.close]
        if prog.get('tail'):
            from ZODB.Connection import TransactionMetaData
            tl = prog['tail']
            t = TransactionMetaData(b'tail', b'voted, never finished', {})
            st.tpc_begin(t, p64(tl['t']))
            st.store(p64(tl['oid']), serial.get(p64(tl['oid']), p64(0)), bytes.fromhex(tl['data']), '', t)
            st.tpc_vote(t)
            b.closers = [lambda: st.tpc_abort(t), st.close]
    return b


# =================================================================== dumps (observations)
def ext_bytes(t):
    eb = getattr(t, 'extension_bytes', None)
    if isinstance(eb, bytes):
        return eb
    # a record of a volatile storage (MappingStorage) only has the dictionary; the copy pickles it
    from ZODB.Connection import TransactionMetaData
    return TransactionMetaData(extension=t.extension).extension_bytes


def ext_repr(t):
    try:
        return repr(sorted(t.extension.items()))
    except Exception as e:                      # damaged extension bytes (recover part only)
        return 'unreadable:' + type(e).__name__


def iter_dump(it, unpickle_ext=True):
    """[(tid, status, user, desc, ext_bytes, ext_repr, [(oid, rtid, data|None, hint|None)])]
    (unpickle_ext=False for recovered files: a damaged extension pickle must not be loaded)"""
    out = []
    for t in it:
        recs = [(r.oid.hex(), r.tid.hex(), None if r.data is None else r.data.hex(),
                 None if getattr(r, 'data_txn', None) is None else r.data_txn.hex()) for r in t]
        out.append((t.tid.hex(), t.status if isinstance(t.status, str) else t.status.decode(),
                    t.user.hex(), t.description.hex(), ext_bytes(t).hex(),
                    ext_repr(t) if unpickle_ext else '', recs,
                    isinstance(getattr(t, 'extension_bytes', None), bytes)))
    return out


def prop_view(dump, with_ext_bytes=True):
    """the property-level part of an iterator dump: ids, status, metadata, records (no hints)"""
    return [(t[0], t[1], t[2], t[3], t[4] if with_ext_bytes else '', t[5],
             [(r[0], r[1], r[2]) for r in t[6]]) for t in dump]


def errk(e):
    n = type(e).__name__
    return 'err:' + ('KeyError' if isinstance(e, KeyError) else n)


def q(f, *a):
    try:
        return f(*a)
    except Exception as e:
        return errk(e)


def query_dump(st, dump, blobs=False, family=False):
    """answers of every revision query at every oid x tid boundary"""
    oids = sorted({r[0] for t in dump for r in t[6]})
    tids = [t[0] for t in dump]
    out = {}
    out['lastTransaction'] = q(lambda: st.lastTransaction().hex())
    for o in oids:
        oid = bytes.fromhex(o)
        out['load ' + o] = q(lambda: (lambda r: (r[0].hex(), r[1].hex()))(st.load(oid, '')))
        out['getTid ' + o] = q(lambda: st.getTid(oid).hex())

        def hist():
            return [(h['tid'].hex(), h['size'], h['user_name'].hex(), h['description'].hex())
                    for h in st.history(oid, 1000)]
        out['history ' + o] = q(hist)
        for th in tids:
            tb = bytes.fromhex(th)
            for b in (tb, p64(u64(tb) + 1)):
                def lb():
                    r = st.loadBefore(oid, b)
                    return None if r is None else (r[0].hex(), r[1].hex(), None if r[2] is None else r[2].hex())
                out['loadBefore %s %s' % (o, b.hex())] = q(lb)
            out['loadSerial %s %s' % (o, th)] = q(lambda: st.loadSerial(oid, tb).hex())
    if family:
        # less-travelled queries, compared between storages of the FileStorage family only
        out['len'] = q(lambda: len(st))

        def walk():
            res, nxt = [], None
            while True:
                oid, tid, data, nxt = st.record_iternext(nxt)
                res.append((oid.hex(), tid.hex(), None if data is None else data.hex()))
                if nxt is None or len(res) > 10000:
                    return res
        out['record_iternext'] = q(walk)
        out['undoLog'] = q(lambda: [(u['id'].hex() if isinstance(u['id'], bytes) else str(u['id']),
                                     u['user_name'].hex(), u['description'].hex())
                                    for u in st.undoLog(0, -1000)])
        for o in oids:
            out['lastTid ' + o] = q(lambda: (lambda v: v and v.hex())(st.lastTid(bytes.fromhex(o))))
    if blobs:
        # the blob file of EVERY record (oid, tid), blob record or not: the copy must have exactly the
        # blob files the source has — none missing, none extra (POSKeyError where the source raises)
        for t in dump:
            for r in t[6]:
                def lb():
                    with open(st.loadBlob(bytes.fromhex(r[0]), bytes.fromhex(r[1])), 'rb') as f:
                        return f.read().hex()
                out['blob %s %s' % (r[0], r[1])] = q(lb)
    return out


def history_oracle(dump):
    """plain-Python History spec (DESIGN 3.1) over an iterator dump: expected query answers"""
    revs = {}
    meta = {}
    for t in dump:
        meta[t[0]] = t
        seen = {}
        for r in t[6]:
            seen[r[0]] = r[2]                # last record per transaction wins
        for o, data in seen.items():
            revs.setdefault(o, []).append((t[0], data))
    out = {'lastTransaction': dump[-1][0] if dump else '00' * 8}
    tids = [t[0] for t in dump]
    for o, rv in sorted(revs.items()):
        last = rv[-1]
        out['load ' + o] = 'err:KeyError' if last[1] is None else (last[1], last[0])
        # (getTid is not predicted: for a back-pointer record whose chain ends in an un-creation
        #  FileStorage.getTid answers the tid although load raises — a C04 quirk, not a copy matter)
        for th in tids:
            for b in (th, '%016x' % (int(th, 16) + 1)):
                before = [x for x in rv if x[0] < b]
                if not before:
                    out['loadBefore %s %s' % (o, b)] = None
                elif before[-1][1] is None:
                    out['loadBefore %s %s' % (o, b)] = 'err:KeyError'
                else:
                    after = [x for x in rv if x[0] >= b]
                    out['loadBefore %s %s' % (o, b)] = (before[-1][1], before[-1][0],
                                                        after[0][0] if after else None)
            hit = [x for x in rv if x[0] == th]
            out['loadSerial %s %s' % (o, th)] = (hit[0][1] if hit and hit[0][1] is not None
                                                 else 'err:KeyError')
    return out


# =================================================================== (a) copy cases
SRC_KINDS = ['file', 'fileblob', 'hexfile', 'mapping', 'demo-mf', 'fileblob', 'demo-ff', 'hexblob', 'demo-mm',
             'demo-bm', 'file', 'cfg-file', 'mvcc', 'demo-push', 'cfg-mapping', 'fileblob']
DST_KINDS = ['file', 'fileblob', 'blobwrap', 'hexfile', 'hexblob', 'cfg-file', 'blobwrap-lawn']


class RangeSource:
    """`other` for copyTransactionsFrom: anything with an .iterator() method"""

    def __init__(self, st, a, b):
        self.st, self.a, self.b = st, a, b

    def iterator(self):
        return self.st.iterator(self.a, self.b)

    def loadBlob(self, oid, tid):
        return self.st.loadBlob(oid, tid)


class CopyInterrupted(Exception):
    pass


class FailingSource(RangeSource):
    """a source whose iteration breaks down after `k` records (an I/O error of the source in the
    middle of a transaction): the copy fails, is aborted, and is RESUMED from that transaction"""

    def __init__(self, st, k):
        RangeSource.__init__(self, st, None, None)
        self.k = k
        self.failed_tid = None

    def iterator(self):
        outer = self
        n = [0]

        class T:
            def __init__(self, t):
                self._t = t

            def __getattr__(self, name):
                return getattr(self._t, name)

            def __iter__(self):
                for r in self._t:
                    if n[0] >= outer.k:
                        outer.failed_tid = self._t.tid
                        raise CopyInterrupted()
                    n[0] += 1
                    yield r
        for t in self.st.iterator():
            yield T(t)


BLOB_DST = ('fileblob', 'blobwrap', 'blobwrap-lawn', 'hexblob', 'cfg-file')
HEX_KINDS = ('hexfile', 'hexblob')


def manual_restore(src_dump, src, dsts, mode, seed, use_blobs):
    """restore / restoreBlob by hand, transaction by transaction, into one or more destinations in
    lockstep (interleaved two-phase commits); hints as yielded ('keep'), dropped ('none'), naming a
    transaction the destination does not have ('bogus'), or a mixture"""
    import random
    import tempfile
    from ZODB.Connection import TransactionMetaData
    from ZODB.blob import is_blob_record
    rnd = random.Random(seed)
    for t in src_dump:
        metas = []
        for dst in dsts:
            m = TransactionMetaData(bytes.fromhex(t[2]), bytes.fromhex(t[3]), bytes.fromhex(t[4]))
            dst.tpc_begin(m, bytes.fromhex(t[0]), t[1])
            metas.append(m)
        for r in t[6]:
            hint = None if r[3] is None else bytes.fromhex(r[3])
            md = mode if mode != 'mixed' else rnd.choice(['keep', 'none', 'bogus', 'below'])
            if md == 'none':
                hint = None
            elif md == 'bogus' and hint is not None:
                hint = p64(u64(hint) + 3)              # no such transaction anywhere
            elif md == 'below' and hint is not None:
                hint = p64(u64(hint) - 1)              # absent, just below the transaction that has the data
            data = None if r[2] is None else bytes.fromhex(r[2])
            oid, tid = bytes.fromhex(r[0]), bytes.fromhex(r[1])
            for dst, m in zip(dsts, metas):
                fn = None
                if use_blobs and data is not None and is_blob_record(data):
                    try:
                        fn = src.loadBlob(oid, tid)
                    except KeyError:
                        fn = None
                if fn is not None:
                    fd, name = tempfile.mkstemp(prefix='HAND', suffix='.tmp', dir=dst.temporaryDirectory())
                    os.close(fd)
                    shutil.copyfile(fn, name)
                    dst.restoreBlob(oid, tid, data, name, hint, m)
                else:
                    dst.restore(oid, tid, data, '', hint, m)
        for dst, m in zip(dsts, metas):
            dst.tpc_vote(m)
        for dst, m in zip(dsts, metas):
            dst.tpc_finish(m)


def base_iterator(st):
    """the iterator of the storage under a HexStorage (records as they are in the file)"""
    return (st.base if hasattr(st, 'base') and type(st).__name__ == 'HexStorage' else st).iterator()


def run_copy_case(case, tmp):
    """returns dict(obs…) of the real code for one copy case: program, destination kind, entry point
    (method | basecopy | blobcopy | twopass | resume | manual | manual2), optional range"""
    import ZODB.BaseStorage
    import ZODB.blob
    d = os.path.join(tmp, 'copy')
    shutil.rmtree(d, ignore_errors=True)
    os.makedirs(d)
    res = dict(error=None)
    b = None
    dst = dst2 = None
    entry = case.get('entry', 'method')
    kind = case['prog']['kind']
    phase = 'build'
    try:
        b = build(case['prog'], d)
        src = b.storage
        res['skipped'], res['undos'] = b.skipped, b.undos
        phase = 'source-iterator'
        src_dump = iter_dump(src.iterator())
        res['src_dump'] = src_dump
        res['src_blobs'] = kind in BLOB_KINDS or kind == 'demo-bm'
        # every iterator range at every tid boundary (start = tid-1, tid, tid+1; stop open or at a
        # later boundary): cheap, and exercises both scan directions of FileIterator._skip_to_start
        phase = 'range-iterator'
        rc = []
        alltids = [int(t[0], 16) for t in src_dump]
        for a in sorted({x + dlt for x in alltids for dlt in (-1, 0, 1)}):
            zs = [None] + [x for x in alltids if x >= a][1:3]
            for z in zs:
                it = src.iterator(p64(a), None if z is None else p64(z))
                try:
                    got = [t.tid.hex() for t in it]
                except Exception as e:
                    got = 'raised %s: %s' % (type(e).__name__, str(e)[:120])
                finally:
                    close = getattr(it, 'close', None)
                    if close is not None:
                        close()
                rc.append(('%016x' % a, None if z is None else '%016x' % z, got))
        res['range_checks'] = rc
        phase = 'open-destination'
        dst, dpath = open_storage(case['dst'], d, 'dst')
        if entry == 'manual2':
            dst2, dpath2 = open_storage(case.get('dst2', 'file'), d, 'dst2')
        rng_ = case.get('range')
        both_blobs = res['src_blobs'] and case['dst'] in BLOB_DST and entry != 'basecopy'
        res['both_blobs'] = both_blobs
        phase = 'copy'
        if rng_:
            a = None if rng_[0] is None else bytes.fromhex(rng_[0])
            z = None if rng_[1] is None else bytes.fromhex(rng_[1])
            phase = 'source-iterator'
            res['range_dump'] = iter_dump(src.iterator(a, z))
            phase = 'copy'
            dst.copyTransactionsFrom(RangeSource(src, a, z))
        elif entry == 'method':
            dst.copyTransactionsFrom(src)
        elif entry == 'basecopy':
            ZODB.BaseStorage.copy(src, dst)
        elif entry == 'blobcopy':
            ZODB.blob.copyTransactionsFromTo(src, dst)
        elif entry == 'twopass':
            z1, a2 = case['bounds']
            dst.copyTransactionsFrom(RangeSource(src, None, bytes.fromhex(z1)))
            res['pass1'] = [t.tid.hex() for t in dst.iterator()]
            dst.copyTransactionsFrom(RangeSource(src, bytes.fromhex(a2), None))
        elif entry == 'resume':
            fsrc = FailingSource(src, case['failafter'])
            try:
                dst.copyTransactionsFrom(fsrc)
                res['interrupted'] = False
            except CopyInterrupted:
                res['interrupted'] = True
                dst.tpc_abort(dst.tpc_transaction())
                dst.copyTransactionsFrom(RangeSource(src, fsrc.failed_tid, None))
        elif entry in ('manual', 'manual2'):
            manual_restore(src_dump, src, [dst] + ([dst2] if dst2 is not None else []),
                           case.get('hints', 'keep'), case.get('hseed', 0), both_blobs)
        else:
            raise ValueError(entry)
        phase = 'destination-iterator'
        res['dst_dump'] = iter_dump(dst.iterator())
        if case['dst'] in HEX_KINDS:
            res['dst_dump_raw'] = iter_dump(base_iterator(dst))
        if dst2 is not None:
            res['dst2_dump'] = iter_dump(dst2.iterator())
        family = kind in FILE_FAMILY and not rng_
        res['family'] = family
        phase = 'source-queries'
        if not rng_:
            res['src_q'] = query_dump(src, src_dump, blobs=both_blobs, family=family)
        phase = 'destination-queries'
        res['dst_q'] = query_dump(dst, res['dst_dump'], blobs=both_blobs, family=family)
        phase = 'blobs'
        if both_blobs:
            from ZODB.blob import is_blob_record
            bl = []
            for t in src_dump:
                for r in t[6]:
                    if r[2] is not None and is_blob_record(bytes.fromhex(r[2])):
                        try:
                            with open(src.loadBlob(bytes.fromhex(r[0]), bytes.fromhex(r[1])), 'rb') as f:
                                bl.append((r[0], r[1], r[2], f.read().hex()))
                        except KeyError:
                            bl.append((r[0], r[1], r[2], None))
            res['blobrecs'] = bl
        # destination file image ([I], compared with the model's encoding)
        fs_file = getattr(dst, '_file', None)
        if fs_file is not None:
            fs_file.flush()
        with open(dpath, 'rb') as f:
            img = f.read()
        res['dst_img'] = (len(img), '%016x' % fnv64(img))
        # close and reopen the copy (saved index, or by scan): it must still answer the same
        phase = 'reopen-destination'
        dst.close()
        dst = None
        if case.get('reopen') == 'scan' and os.path.exists(dpath + '.index'):
            os.remove(dpath + '.index')
        dst, _ = open_storage(case['dst'], d, 'dst')
        res['reopen_dump'] = iter_dump(dst.iterator())
        res['reopen_q'] = query_dump(dst, res['reopen_dump'], blobs=both_blobs, family=family)
    except Exception as e:
        # an exception of the real code is an OBSERVATION, judged by the oracle (judge_copy)
        res['error'] = '%s: %s' % (type(e).__name__, str(e)[:200])
        res['phase'] = phase
    finally:
        for s in (dst, dst2, b):
            try:
                if s is not None:
                    s.close()
            except Exception:
                pass
    return res


def hexed(h):
    """the record data a HexStorage destination writes for data `h` (hex string)"""
    from binascii import hexlify
    return None if h is None else (b'.h' + hexlify(bytes.fromhex(h))).hex() if h else h


def copy_model_lines(case, res):
    """driver lines for one copy case (source = what the real iterator yielded; for a HexStorage
    destination the records as that destination transforms them; for hand restores the hints as
    they were passed)"""
    import random
    tr = hexed if case['dst'] in HEX_KINDS else (lambda h: h)
    entry = case.get('entry', 'method')
    rnd = random.Random(case.get('hseed', 0))
    lines = ['reset']
    for t in res['src_dump']:
        lines.append('txn %s %d %s %s %s' % (t[0], ord(t[1]), t[2] or '-', t[3] or '-', t[4] or '-'))
        for r in t[6]:
            hint = r[3]
            if entry in ('manual', 'manual2'):
                mode = case.get('hints', 'keep')
                md = mode if mode != 'mixed' else rnd.choice(['keep', 'none', 'bogus', 'below'])
                if md == 'none':
                    hint = None
                elif md == 'bogus' and hint is not None:
                    hint = '%016x' % (int(hint, 16) + 3)
                elif md == 'below' and hint is not None:
                    hint = '%016x' % (int(hint, 16) - 1)
            d = tr(r[2])
            lines.append('rec %s %s %s %s' % (r[0], r[1], 'none' if d is None else (d or '-'), hint or 'none'))
    if case.get('range'):
        lines.append('copyrange %s %s' % (case['range'][0] or 'none', case['range'][1] or 'none'))
    elif res.get('both_blobs'):
        for (o, t, data, content) in res.get('blobrecs', []):
            lines.append('isblob %s' % tr(data))
            if content is not None:
                lines.append('blob %s %s %s' % (o, t, content or '-'))
        lines.append('copyblob')
    elif entry in ('manual', 'manual2', 'blobcopy') or case['dst'] in BLOB_DST or case['dst'] in HEX_KINDS:
        lines.append('copyblob')        # copyTransactionsFromTo / by hand: no time-stamp fix-up
    else:
        lines.append('copy')
    return lines


def model_dump_str(dump):
    return '|'.join('%s:%d:%s:%s:%s:[%s]' % (
        t[0], ord(t[1]), t[2] or '-', t[3] or '-', t[4] or '-',
        ';'.join('%s,%s,%s,%s' % (r[0], r[1], 'none' if r[2] is None else (r[2] or '-'), r[3] or 'none')
                 for r in t[6])) for t in dump)


def judge_copy(case, res):
    """direct oracle; returns (signature, what) or None"""
    if res.get('error') and res.get('phase') == 'build':
        return None          # counted by the caller (copy:source-build-raised); not a copy matter
    if res.get('error') == 'timeout':
        return ('C17:copy-hangs', 'the copy case did not end within the watchdog time (hanging in: %s)'
                % ' < '.join((res.get('where') or [])[:5]))
    if res.get('error') and res.get('phase', 'copy') != 'copy':
        sig = {'source-iterator': 'C17:source-iterator-raised',
               'destination-iterator': 'C17:destination-iterator-raised'}.get(
            res['phase'], 'C17:%s-raised' % res['phase'])
        return sig, '%s raised %s' % (res['phase'], res['error'])
    if res.get('error'):
        sig = 'C17:copy-raises:' + res['error'].split(':')[0]
        if 'extension_bytes' in res['error']:
            sig = 'C17:copy-from-mapping-extension-bytes'
        if res['error'].startswith('UndoError'):
            sig = 'C17:restore-missing-prev-txn'
        return sig, 'copyTransactionsFrom raised ' + res['error']
    for (a, z, got) in res.get('range_checks', []):
        want = [t[0] for t in res['src_dump'] if t[0] >= a and (z is None or t[0] <= z)]
        if got != want:
            return ('C17:iterator-range', 'iterator(%s, %s) yielded %r, the transactions in range are %r'
                    % (a, z, got, want))
    exp_dump = res['range_dump'] if case.get('range') else res['src_dump']
    # FileStorage <-> FileStorage keeps extension bytes verbatim; other sources re-pickle the dict
    # "same metadata": where the source transaction HAS extension bytes (FileStorage family) the copy
    # must carry exactly those bytes; a volatile source only has the dictionary (compared as such)
    for i, (ts_, td_) in enumerate(zip(exp_dump, res['dst_dump'])):
        if ts_[7] and ts_[:4] == td_[:4] and ts_[4] != td_[4]:
            return ('C17:copy-extension-bytes-differ',
                    'transaction %s: source extension bytes %s, destination %s' % (ts_[0], ts_[4], td_[4]))
    pv_s, pv_d = prop_view(exp_dump, False), prop_view(res['dst_dump'], False)
    if pv_s != pv_d:
        k = [i for i in range(max(len(pv_s), len(pv_d)))
             if i >= len(pv_s) or i >= len(pv_d) or pv_s[i] != pv_d[i]][0]
        return ('C17:copy-history-differs',
                'transaction #%d differs: source %r destination %r' % (
                    k, pv_s[k] if k < len(pv_s) else None, pv_d[k] if k < len(pv_d) else None))
    if 'pass1' in res:
        want1 = [t[0] for t in res['src_dump'] if t[0] <= case['bounds'][0]]
        if res['pass1'] != want1:
            return ('C17:copy-two-pass', 'after the first pass (stop=%s) the destination has %r, expected %r'
                    % (case['bounds'][0], res['pass1'], want1))
    if 'dst2_dump' in res and prop_view(res['dst2_dump'], False) != pv_s:
        return ('C17:copy-history-differs', 'second destination restored in lockstep differs: %r'
                % ([t[0] for t in res['dst2_dump']],))
    if 'reopen_dump' in res and (res['reopen_dump'] != res['dst_dump'] or res['reopen_q'] != res['dst_q']):
        k = [k for k in sorted(res['dst_q']) if res['reopen_q'].get(k) != res['dst_q'][k]]
        return ('C17:copy-differs-after-reopen', 'the copy answers differently after close + reopen (%s): %s'
                % (case.get('reopen', 'index'), k[:3] or 'iterator'))
    if case.get('range'):
        a, z = case['range']
        want = [t for t in res['src_dump'] if (a is None or t[0] >= a) and (z is None or t[0] <= z)]
        if prop_view(want, True) != prop_view(res['range_dump'], True):
            return ('C17:iterator-range', 'iterator(%s, %s) yielded %r, the transactions in range are %r' % (
                a, z, [t[0] for t in res['range_dump']], [t[0] for t in want]))
        exp_q = history_oracle(res['dst_dump'])
        got = {k: v for k, v in res['dst_q'].items() if k in exp_q}
        got = json.loads(json.dumps(got))
        exp_q = json.loads(json.dumps(exp_q))
        for k in sorted(exp_q):
            if got.get(k) != exp_q[k]:
                return ('C17:copy-range-query', 'destination %s = %r, history of the copied range says %r'
                        % (k, got.get(k), exp_q[k]))
        return None
    sq, dq = res['src_q'], res['dst_q']
    if (case['prog']['kind'] in HEX_KINDS) != (case['dst'] in HEX_KINDS):
        # a record transform on one side only: history() reports the size of the STORED record
        def nosize(qd):
            return {k: ([(h[0],) + tuple(h[2:]) for h in v] if k.startswith('history ') and isinstance(v, list)
                        else v) for k, v in qd.items()}
        sq, dq = nosize(sq), nosize(dq)
    if case.get('entry') in ('manual', 'manual2') and case.get('hints', 'keep') != 'keep':
        # restored without (or with useless) hints the copy holds full pickles / plain un-creations
        # where the source has back pointers: same revisions, but history() sizes and the getTid /
        # lastTid quirk for a pointer to an un-creation depend on that representation
        def norep(qd):
            return {k: ([(h[0],) + tuple(h[2:]) for h in v] if k.startswith('history ') and isinstance(v, list)
                        else v) for k, v in qd.items() if not k.startswith(('getTid ', 'lastTid '))}
        sq, dq = norep(sq), norep(dq)
    for k in sorted(sq):
        if sq[k] != dq.get(k):
            sig = 'C17:copy-query-differs:' + k.split()[0]
            if k.startswith(('load ', 'loadSerial ', 'loadBefore ', 'getTid ')) and sq[k] == 'err:KeyError' \
                    and dq.get(k) not in ('err:KeyError', None):
                # an oid the source's iterator mentions, which the source no longer has, is back in the copy
                sig = 'C17:copy-resurrects'
            if case['prog']['kind'].startswith('demo') and demo_undo_below_changes(res['src_dump'], k):
                sig = 'C17:copy-demo-undo-below-changes'
            return (sig, '%s: source %r destination %r' % (k, sq[k], dq.get(k)))
    return None


def demo_undo_below_changes(dump, key):
    """the differing query concerns an oid for which the (DemoStorage) source iterator yields an
    un-creation record although an earlier transaction holds a revision: the undo in the changes
    layer of an object whose pre-state lives in the base"""
    parts = key.split()
    if len(parts) < 2:
        return False
    oid = parts[1]
    seen = False
    for t in dump:
        for r in t[6]:
            if r[0] == oid:
                if r[2] is None and seen:
                    return True
                seen = True
    return False


def nontrivial_copy(res):
    d = res.get('src_dump') or []
    return any(r[3] is not None for t in d for r in t[6])


def gen_copy_case(rng, i):
    kind = SRC_KINDS[i % len(SRC_KINDS)]
    prog = gen_program(rng, kind)
    blobsrc = kind in BLOB_KINDS or kind == 'demo-bm'
    if blobsrc:
        dsts = BLOB_DST if rng.random() < 0.85 else ('file',)
    else:
        dsts = DST_KINDS
    dst = rng.choice(dsts)
    case = dict(part='copy', prog=prog, dst=dst, reopen=rng.choice(['index', 'scan']))
    ts = [s['t'] for s in txn_steps(prog)]
    r = rng.random()
    if r < 0.22:
        a = rng.choice(ts + [None, ts[0] - 1, ts[-1] + 1])
        z = rng.choice([None, None] + [t for t in ts if a is None or t >= a] + [ts[-1] + 5])
        if a is not None and rng.random() < 0.3:
            a += rng.choice([1, -1])
        case['range'] = ['%016x' % a if a is not None else None, '%016x' % z if z is not None else None]
    elif r < 0.34:
        # two-pass copy: bounds equal to an existing tid and tid +- 1
        t = rng.choice(ts)
        z1, a2 = rng.choice([(t, t + 1), (t - 1, t), (t, t)]) if len(ts) > 1 else (t, t + 1)
        if (z1, a2) == (t, t):       # inclusive bounds would copy t twice: second pass from the next tid
            a2 = t + 1
        case['entry'], case['bounds'] = 'twopass', ['%016x' % z1, '%016x' % a2]
    elif r < 0.44:
        case['entry'], case['failafter'] = 'resume', rng.randrange(0, 6)
    elif r < 0.60:
        case['entry'] = rng.choice(['manual', 'manual', 'manual2'])
        case['hints'] = rng.choice(['keep', 'none', 'bogus', 'below', 'mixed'])
        case['hseed'] = rng.randrange(1000)
        if case['entry'] == 'manual2':
            case['dst2'] = rng.choice(['file', 'fileblob'] if not blobsrc else ['fileblob'])
    elif r < 0.68 and not blobsrc:
        case['entry'] = 'basecopy'
        case['dst'] = dst = rng.choice(['file', 'fileblob', 'cfg-file'])
    elif r < 0.76 and dst in BLOB_DST:
        case['entry'] = 'blobcopy'
    if dst in HEX_KINDS and blobsrc and dst == 'hexfile':
        case['dst'] = 'hexblob'
    return case


# =================================================================== (b) recover cases
def parse_file(raw):
    """independent parser of an UNDAMAGED Data.fs: transactions with byte ranges and field map"""
    txns = []
    pos = 4
    while pos < len(raw):
        tid, tl, status, ul, dl, el = struct.unpack('>8sQcHHH', raw[pos:pos + 23])
        if status == b'c':
            break                # a voted, unfinished tail: not a transaction of the history
        p = pos + 23
        user, desc, ext = raw[p:p + ul], raw[p + ul:p + ul + dl], raw[p + ul + dl:p + ul + dl + el]
        p += ul + dl + el
        tend = pos + tl
        recs = []
        while p < tend:
            oid, rtid, prev, tloc, vlen, plen = struct.unpack('>8s8sQQHQ', raw[p:p + 42])
            if plen:
                recs.append(dict(pos=p, oid=oid, tid=rtid, plen=plen, back=None, end=p + 42 + plen))
                p += 42 + plen
            else:
                back = u64(raw[p + 42:p + 50])
                recs.append(dict(pos=p, oid=oid, tid=rtid, plen=0, back=back, end=p + 50))
                p += 50
        assert p == tend and u64(raw[tend:tend + 8]) == tl
        txns.append(dict(pos=pos, end=tend + 8, tid=tid, status=status.decode(), user=user, desc=desc,
                         ext=ext, recs=recs, hdrend=pos + 23 + ul + dl + el))
        pos = tend + 8
    return txns


def resolve(raw, txns, rec):
    """(data|None, touched byte ranges) of a record of the original file, following back pointers"""
    byp = {r['pos']: r for t in txns for r in t['recs']}
    touched = []
    r = rec
    while True:
        touched.append((r['pos'], r['end']))
        if r['plen']:
            return raw[r['pos'] + 42:r['pos'] + 42 + r['plen']], touched
        if not r['back']:
            return None, touched
        if r is not rec or True:
            r = byp[r['back']]


def orig_view(raw, txns):
    """the original file's transactions in the shape of prop_view(iter_dump(...)) minus ext_repr"""
    out = []
    for t in txns:
        recs = []
        for r in t['recs']:
            data, _ = resolve(raw, txns, r)
            recs.append((r['oid'].hex(), r['tid'].hex(), None if data is None else data.hex()))
        out.append((t['tid'].hex(), t['status'], t['user'].hex(), t['desc'].hex(), t['ext'].hex(), recs))
    return out


def out_view(dump):
    return [(t[0], t[1], t[2], t[3], t[4], [(r[0], r[1], r[2]) for r in t[6]]) for t in dump]


def header_plausible(img, p, ltid=None):
    """the checks of fsrecover.read_txn_header, re-stated: does a header at p pass (as a copied
    or skipped transaction)?  (independent re-implementation used only to evaluate the hypothesis
    NoFalseResync of the theorem; ltid None = the weakest tid check)"""
    if p + 23 > len(img):
        return False
    tid, tl, status, ul, dl, el = struct.unpack('>8sQcHHH', img[p:p + 23])
    if p + tl + 8 > len(img) or tl < 23 + ul + dl + el:
        return False
    if ltid is not None and tid < ltid:
        return False
    if status not in (b' ', b'u', b'p'):
        return False
    return img[p + tl:p + tl + 8] == img[p + 8:p + 16]


def apply_damage(raw, dmg):
    if dmg['kind'] == 'none':
        return raw
    if dmg['kind'] == 'trunc':
        return raw[:dmg['n']]
    fill = bytes.fromhex(dmg['fill'])
    b = bytearray(raw)
    b[dmg['off']:dmg['off'] + len(fill)] = fill
    return bytes(b[:len(raw)])


def damage_range(raw, dmg):
    if dmg['kind'] == 'none':
        return len(raw), len(raw)
    if dmg['kind'] == 'trunc':
        return dmg['n'], len(raw) + 1
    return dmg['off'], min(len(raw), dmg['off'] + len(bytes.fromhex(dmg['fill'])))


def judge_recover(raw, txns, oview, dmg, obs):
    """direct oracle. returns ('ok'|'excluded:<why>'|'violation', signature, what)"""
    img = apply_damage(raw, dmg)
    ds, de = damage_range(raw, dmg)
    opts = dmg.get('opts') or {}
    if opts.get('noforce'):
        # an existing output file and no -f: the tool must refuse and leave that file alone
        if obs['status'] == 'refused' and obs.get('untouched'):
            return 'ok', None, None
        if obs['status'] == 'notfs':
            return 'ok', None, None
        return 'violation', 'C17:recover-overwrites-without-force', \
            'an output file existed and force was not given: status %s, file untouched: %s' % (
                obs['status'], obs.get('untouched'))
    if obs['status'] == 'done' and opts.get('again'):
        if obs.get('again_error'):
            return 'violation', 'C17:recover-again-raised', \
                'recovering / copying the recovered file raised ' + obs['again_error']
        if obs.get('dump2') != obs['dump'] or obs.get('img2') != obs['img']:
            return 'violation', 'C17:recover-not-idempotent', \
                'recover(recover(x)) differs from recover(x): %r vs %r' % (
                    [t[0] for t in obs.get('dump2', [])], [t[0] for t in obs['dump']])
        if obs.get('dump3') != obs['dump']:
            return 'violation', 'C17:recovered-file-copy-differs', \
                'copyTransactionsFrom(recovered file) differs from the recovered file'
    if obs['status'] == 'timeout':
        # classified by WHERE the run hangs (stack of the confirming re-run), not by the input
        where = obs.get('where') or []
        sig = 'C17:recover-nontermination'
        if '_loadBack_impl' in where[:4]:
            sig = 'C17:recover-nontermination-backpointer-cycle'
        elif where[:1] == ['scan'] or (not where and b'.' in img[-8:]):
            sig = 'C17:scan-nontermination'
        elif 'tpc_begin' in where[:4]:
            sig = 'C17:recover-blocks-on-output-commit-lock'
        return 'violation', sig, 'fsrecover.recover did not terminate within the watchdog time ' \
            '(hanging in: %s)' % ' < '.join(where[:5])
    if obs['status'] == 'notfs':
        if img[:4] == raw[:4] and len(img) >= 4:
            return 'violation', 'C17:recover-refuses-file', 'recover refused a file with intact magic'
        return 'ok', None, None
    if obs['status'] != 'done':
        return 'violation', 'C17:recover-crash:' + obs['status'].split(':')[-1], \
            'fsrecover.recover raised ' + obs.get('detail', obs['status'])
    got = out_view(obs['dump'])
    # (1) every transaction ending before the damage is recovered, unchanged, first
    npre = len([t for t in txns if t['end'] <= ds])
    if got[:npre] != oview[:npre]:
        k = [i for i in range(npre) if i >= len(got) or got[i] != oview[i]][0]
        return 'violation', 'C17:recover-loses-prefix', \
            'transaction #%d (ends at %d, damage starts at %d) not recovered unchanged: got %r want %r' % (
                k, txns[k]['end'], ds, got[k] if k < len(got) else None, oview[k])
    rest = got[npre:]
    # (2) all other output transactions are input transactions, unchanged, in order
    j = npre
    bad = None
    def same(o, g):
        if o == g:
            return True
        # -p: a transaction with a bad record is output with the records before it (status kept or 'p')
        return bool(opts.get('partial')) and o[0] == g[0] and o[2:5] == g[2:5] and g[1] in (o[1], 'p') \
            and 0 < len(g[5]) < len(o[5]) and o[5][:len(g[5])] == g[5]
    for g in rest:
        while j < len(oview) and not same(oview[j], g):
            j += 1
        if j >= len(oview):
            bad = g
            break
        j += 1
    if bad is None:
        return 'ok', None, None
    # a transaction of the input with a strict prefix of its records: without -p a transaction with a
    # bad record must be skipped, whatever the rest of the image looks like
    for o in oview[npre:]:
        if o[:5] == bad[:5] and len(bad[5]) < len(o[5]) and o[5][:len(bad[5])] == bad[5] \
                and not opts.get('partial'):
            return 'violation', 'C17:recover-partial-transaction', \
                'output transaction %s has %d of the %d records of the input transaction' % (
                    bad[0], len(bad[5]), len(o[5]))
    # an input transaction output with other data for a back-pointer record although, in the image,
    # that pointer does not lead to a record of the same object: the record iterator verifies exactly
    # this (getTxnFromData(oid, back)), such a transaction must be dropped, never output altered
    for o, t in zip(oview, txns):
        if o[:5] == bad[:5] and [r[:2] for r in o[5]] == [r[:2] for r in bad[5]]:
            for ro, rb, r in zip(o[5], bad[5], t['recs']):
                if ro != rb and r['plen'] == 0 and r['back'] and not (r['pos'] < de and ds < r['pos'] + 42) \
                        and r['pos'] + 50 <= len(img):
                    back = u64(img[r['pos'] + 42:r['pos'] + 50])
                    if back and back + 8 <= len(img) and img[back:back + 8] != r['oid']:
                        return 'violation', 'C17:recover-unverified-back-pointer', \
                            'output transaction %s carries %r for oid %s, read through a back pointer (%d) ' \
                            'that does not lead to a record of that object' % (bad[0], rb[2], r['oid'].hex(), back)
    # hypothesis of the theorem (NoFalseResync / ClosedBack), evaluated on the damaged image:
    intact_starts = {t['pos'] for t in txns if t['pos'] >= de}
    dstart = txns[npre]['pos'] if npre < len(txns) else len(raw)
    for p in range(dstart, len(img)):
        if p not in intact_starts and header_plausible(img, p):
            return 'excluded:false-resync', None, None
    for t in txns:
        if t['pos'] >= de:
            for r in t['recs']:
                _, touched = resolve(raw, txns, r)
                if any(a < de and ds < z for a, z in touched[1:]):
                    return 'excluded:back-pointer-into-damage', None, None
    return 'violation', 'C17:recover-foreign-transaction', \
        'output transaction %r is not an unchanged transaction of the input (after the %d ' \
        'transactions ending before the damage)' % (bad, npre)


HUGE_READ = 2 ** 30


class LimitedReader(io.BufferedReader):
    """the input file of fsrecover: `read(n)` with n >= 2^30 fails like an allocator that cannot
    satisfy the request (on a real machine the limit depends on RAM and overcommit settings; the
    model uses the same pinned limit, `Recover.hugeRead`)"""

    def read(self, n=-1):
        if n is not None and n >= HUGE_READ:
            raise MemoryError()
        return super().read(n)


def limited_open(name, mode='r', *a, **k):
    if mode == 'rb':
        return LimitedReader(io.FileIO(name, 'r'))
    return open(name, mode, *a, **k)


def recover_one(workdir, payload):
    """one run of fsrecover.recover on an image; payload = image bytes or (image, options).
    options: force / noforce (an output file exists already), pack (pack time before the first
    transaction), partial (-p), verbose, again (recover the output again and copy it)"""
    import ZODB.FileStorage
    from ZODB import fsrecover
    img, opts = payload if isinstance(payload, tuple) else (payload, {})
    inp = os.path.join(workdir, 'in.fs')
    outp = os.path.join(workdir, 'out.fs')
    for f in os.listdir(workdir):
        pth = os.path.join(workdir, f)
        shutil.rmtree(pth) if os.path.isdir(pth) else os.remove(pth)
    with open(inp, 'wb') as f:
        f.write(img)
    before = None
    if opts.get('force') or opts.get('noforce'):
        # an output file (a valid storage with one transaction) is already there
        fs = ZODB.FileStorage.FileStorage(outp)
        run_steps(fs, [dict(t=BASE - GAP, u='', d='6f6c64', e=None, ops=[['s', 77, mkdata(77, 1, None).hex()]])],
                  {}, {}, workdir, Built())
        fs.close()
        with open(outp, 'rb') as f:
            before = f.read()
    obs = dict(status='done')
    buf = io.StringIO()
    kw = {}
    if opts.get('force'):
        kw['force'] = True
    if opts.get('partial'):
        kw['partial'] = True
    if opts.get('verbose'):
        kw['verbose'] = opts['verbose']
    if opts.get('pack') is not None:
        kw['pack'] = opts['pack']
    try:
        with contextlib.redirect_stdout(buf), contextlib.redirect_stderr(buf):
            fsrecover.recover(inp, outp, **kw)
    except SystemExit:
        txt = buf.getvalue()
        if opts.get('noforce') and 'exists' in txt:
            with open(outp, 'rb') as f:
                return dict(status='refused', untouched=f.read() == before)
        obs = dict(status='notfs' if 'not a file storage' in txt else 'crash:SystemExit', detail=txt[-200:])
    except Exception as e:
        obs = dict(status='crash:' + type(e).__name__, detail='%s: %s' % (type(e).__name__, str(e)[:200]))
    if obs['status'] == 'done':
        try:
            fs = ZODB.FileStorage.FileStorage(outp, read_only=True)
            obs['dump'] = iter_dump(fs.iterator(), unpickle_ext=False)
            fs.close()
            with open(outp, 'rb') as f:
                o = f.read()
            obs['img'] = (len(o), '%016x' % fnv64(o))
            obs['errors'] = buf.getvalue().count('error ')
        except Exception as e:
            obs = dict(status='crash:output-unreadable:' + type(e).__name__, detail=str(e)[:200])
    if obs['status'] == 'done' and opts.get('again'):
        # the output is a data file like any other: recovering it again, and copying it, must
        # reproduce it (idempotence)
        try:
            out2 = os.path.join(workdir, 'out2.fs')
            with contextlib.redirect_stdout(buf), contextlib.redirect_stderr(buf):
                fsrecover.recover(outp, out2)
            fs = ZODB.FileStorage.FileStorage(out2, read_only=True)
            obs['dump2'] = iter_dump(fs.iterator(), unpickle_ext=False)
            fs.close()
            with open(out2, 'rb') as f:
                o2 = f.read()
            obs['img2'] = (len(o2), '%016x' % fnv64(o2))
            src = ZODB.FileStorage.FileStorage(outp, read_only=True)
            dst = ZODB.FileStorage.FileStorage(os.path.join(workdir, 'out3.fs'))
            dst.copyTransactionsFrom(src)
            obs['dump3'] = iter_dump(dst.iterator(), unpickle_ext=False)
            dst.close()
            src.close()
        except (Exception, SystemExit) as e:
            obs['again_error'] = '%s: %s' % (type(e).__name__, str(e)[:200])
    return obs


def copy_one(workdir, case):
    return run_copy_case(case, workdir)


def child_worker(conn, workdir, jobs, trace_after=None, mode='recover'):
    """child process: run every job (fsrecover on a damaged image / one copy case) and send one
    result per job.  trace_after: seconds after which the Python stack of a still running job is
    written to <workdir>.trace (used by the confirming re-run of a timed-out job to say WHERE it
    hangs)"""
    import faulthandler
    from ZODB import fsrecover
    fsrecover.open = limited_open          # module-level rebinding in this child process only
    logging.disable(logging.CRITICAL)
    os.makedirs(workdir, exist_ok=True)
    tracef = open(workdir + '.trace', 'w') if trace_after else None
    fn = recover_one if mode == 'recover' else copy_one
    for (jid, payload) in jobs:
        conn.send(('start', jid))
        if tracef:
            faulthandler.dump_traceback_later(trace_after, file=tracef)
        try:
            obs = fn(workdir, payload)
        except Exception as e:          # the harness's own code failed inside the child
            obs = dict(status='crash:harness:' + type(e).__name__, detail=str(e)[:200],
                       error='harness: %s: %s' % (type(e).__name__, str(e)[:200]), phase='harness')
        if tracef:
            faulthandler.cancel_dump_traceback_later()
        conn.send(('done', jid, obs))
    conn.send(('end',))
    conn.close()


def read_trace(path):
    """function names (innermost first) of the stack faulthandler wrote for a hanging job"""
    try:
        with open(path) as f:
            return [l.split(' in ')[-1].strip() for l in f if ' in ' in l and l.lstrip().startswith('File')]
    except OSError:
        return []


def run_recover_jobs(jobs, tmp, nproc, watchdog=6.0, max_timeouts=3, confirm=True, trace_after=None,
                     mode='recover'):
    """jobs: list of (jid, image bytes). returns {jid: obs}; a job that makes no progress for
    `watchdog` seconds (a normal run takes milliseconds) is reported as status 'timeout' (its worker
    is killed and restarted).  After `max_timeouts` of them the remaining jobs are abandoned
    (status 'skipped'): the violation is established, the run must still end in reasonable time."""
    results = {}
    ntimeouts = 0
    ctx = multiprocessing.get_context('fork')
    chunks = [jobs[i::nproc] for i in range(nproc)]
    workers = []

    def start(wi, todo):
        parent, child = ctx.Pipe(duplex=False)
        p = ctx.Process(target=child_worker,
                        args=(child, os.path.join(tmp, 'rw%d' % wi), todo, trace_after, mode))
        p.daemon = True
        p.start()
        child.close()
        return dict(p=p, conn=parent, todo=list(todo), cur=None, t=time.time(), wi=wi)

    for wi, ch in enumerate(chunks):
        if ch:
            workers.append(start(wi, ch))
    while workers:
        for w in list(workers):
            try:
                while w['conn'].poll(0.01):
                    m = w['conn'].recv()
                    w['t'] = time.time()
                    if m[0] == 'start':
                        w['cur'] = m[1]
                    elif m[0] == 'done':
                        results[m[1]] = m[2]
                        w['todo'] = [j for j in w['todo'] if j[0] != m[1]]
                        w['cur'] = None
                    elif m[0] == 'end':
                        w['p'].join(5)
                        workers.remove(w)
                        break
            except EOFError:
                # worker died (hard crash of the interpreter): report the current job, restart
                if w in workers:
                    workers.remove(w)
                    if w['cur'] is not None:
                        results[w['cur']] = dict(status='crash:worker-died', detail='worker exited')
                        w['todo'] = [j for j in w['todo'] if j[0] != w['cur']]
                    if w['todo']:
                        workers.append(start(w['wi'], w['todo']))
                continue
            if w in workers and w['cur'] is not None and time.time() - w['t'] > watchdog:
                w['p'].kill()
                w['p'].join(5)
                results[w['cur']] = dict(status='timeout', where=read_trace(os.path.join(tmp, 'rw%d.trace' % w['wi'])))
                ntimeouts += 1
                rest = [j for j in w['todo'] if j[0] != w['cur']]
                workers.remove(w)
                if ntimeouts >= max_timeouts:
                    for x in workers:
                        x['p'].kill()
                        x['p'].join(5)
                    workers = []
                    break
                if rest:
                    workers.append(start(w['wi'], rest))
    if confirm:
        # a time-out is only reported after the same image, run alone with a generous watchdog,
        # again fails to end (a loaded machine must not produce a false alarm)
        byid = dict(jobs)
        for jid in [j for j, o in results.items() if o.get('status') == 'timeout']:
            again = run_recover_jobs([(jid, byid[jid])], tmp, 1, watchdog=max(20.0, 2 * watchdog), max_timeouts=1,
                                     confirm=False, trace_after=max(10.0, watchdog), mode=mode)
            results[jid] = again[jid]
    for (jid, _) in jobs:
        results.setdefault(jid, dict(status='skipped'))
    return results


def gen_recover_file(rng, tmp, big=False):
    """a small FileStorage history -> (program, raw bytes)"""
    kind = 'file'
    prog = gen_program(rng, kind, ntx=rng.choice([1, 2, 3, 4, 5, 6, 8]), small=True)
    if big:
        # one big pickle so that scan needs more than one 8096-byte window
        prog['steps'][0]['ops'] = [['s', 1, (b'N.' + pickle.dumps(b'x' * rng.choice([8200, 9000, 16500]), 3)).hex()]]
    return prog


def file_bytes(prog, tmp):
    d = os.path.join(tmp, 'recsrc')
    shutil.rmtree(d, ignore_errors=True)
    os.makedirs(d)
    b = build(prog, d)
    if prog.get('tail'):
        with open(b.path, 'rb') as f:      # (tpc_vote flushed it) the voted tail is part of the image
            raw = f.read()
        b.close()
    else:
        b.storage.close()
        with open(b.path, 'rb') as f:
            raw = f.read()
    shutil.rmtree(d, ignore_errors=True)
    return raw, b.undos


def field_classes(txns):
    """[(class name, start, end)] of the original file"""
    fc = [('magic', 0, 4)]
    for t in txns:
        p = t['pos']
        fc += [('th.tid', p, p + 8), ('th.tlen', p + 8, p + 16), ('th.status', p + 16, p + 17),
               ('th.lens', p + 17, p + 23)]
        if t['hdrend'] > p + 23:
            fc.append(('th.meta', p + 23, t['hdrend']))
        for r in t['recs']:
            q_ = r['pos']
            fc += [('dh.oid', q_, q_ + 8), ('dh.tid', q_ + 8, q_ + 16), ('dh.prev', q_ + 16, q_ + 24),
                   ('dh.tloc', q_ + 24, q_ + 32), ('dh.vlen', q_ + 32, q_ + 34), ('dh.plen', q_ + 34, q_ + 42)]
            fc.append(('pickle' if r['plen'] else 'backptr', q_ + 42, r['end']))
        fc.append(('trailer', t['end'] - 8, t['end']))
    return fc


def gen_damages(rng, raw, txns, ntrunc, nwin, thorough_all=False, nvar=5):
    dmgs = [dict(kind='none')]
    n = len(raw)
    # truncations: all within the last transaction + sampled / all
    cuts = set(range(txns[-1]['pos'], n)) if txns else set()
    cuts |= {n - 8, n - 1, 4, 5, 26, 27} & set(range(0, n))
    if thorough_all:
        cuts |= set(range(0, n))
    else:
        while len(cuts) < min(n, ntrunc):
            cuts.add(rng.randrange(0, n))
        cuts = set(sorted(cuts, key=lambda c: (c < (txns[-1]['pos'] if txns else 0), rng.random()))[:ntrunc]) \
            if len(cuts) > ntrunc else cuts
    dmgs += [dict(kind='trunc', n=c) for c in sorted(cuts)]
    fc = field_classes(txns)
    classes = sorted({c[0] for c in fc})
    for _ in range(nwin):
        r = rng.random()
        if r < 0.70:
            cname = rng.choice(classes)
            c = rng.choice([x for x in fc if x[0] == cname])
            off = rng.randrange(c[1], c[2])
            ln = rng.choice([1, 1, 2, 4, 8, c[2] - c[1], c[2] - c[1] + 3, 30, 100])
            if rng.random() < 0.3:
                off = c[1]
        else:
            off = rng.randrange(0, n)
            ln = rng.choice([1, 3, 8, 23, 42, 64, 200])
            cname = 'random'
        ln = max(1, min(ln, n - off))
        fk = rng.choice(['zero', 'ff', 'rand', 'rand', 'dots', 'inc', 'dec', 'bit', 'bit', 'bit'])
        if fk == 'bit':
            ln = 1                                  # a single flipped bit
        old = raw[off:off + ln]
        if fk == 'zero':
            fill = b'\0' * ln
        elif fk == 'ff':
            fill = b'\xff' * ln
        elif fk == 'dots':
            fill = b'.' * ln
        elif fk == 'inc':
            fill = old[:-1] + bytes([(old[-1] + 1) & 255])
        elif fk == 'dec':
            fill = old[:-1] + bytes([(old[-1] - 1) & 255])
        elif fk == 'bit':
            fill = bytes([old[0] ^ (1 << rng.randrange(8))])
        else:
            fill = bytes(rng.randrange(256) for _ in range(ln))
        if fill == old:
            fill = bytes([old[0] ^ 0x55]) + old[1:]
        dmgs.append(dict(kind='win', off=off, fill=fill.hex(), cls=cname, fk=fk))
    # crafted damage: status letters, tids, pointers
    for t in txns:
        for s in (b'u', b'c', b'p', b'x', b'\x80'):
            if rng.random() < 0.25:
                dmgs.append(dict(kind='win', off=t['pos'] + 16, fill=s.hex(), cls='th.status', fk='craft'))
    for i, t in enumerate(txns[1:], 1):
        if rng.random() < 0.3:    # tid := previous tid (time-stamp fix-up) / below it (reduction)
            prev = txns[i - 1]['tid']
            dmgs.append(dict(kind='win', off=t['pos'],
                             fill=rng.choice([prev, p64(u64(prev) - 1)]).hex(), cls='th.tid', fk='craft'))
    for t in txns:
        for r in t['recs']:
            if r['plen'] == 0 and rng.random() < 0.5:
                tgt = rng.choice([r['pos'], r['pos'] + 50, r['back'] + 1 if r['back'] else 4, len(raw) - 10])
                dmgs.append(dict(kind='win', off=r['pos'] + 42, fill=p64(tgt).hex(), cls='backptr',
                                 fk='craft', crafted='backcycle' if tgt == r['pos'] else 'ptr'))
            if r['plen'] == 0 and r['back'] and rng.random() < 0.6:
                # damage reached only THROUGH the pointer: the record pointed at is zero-filled, or the
                # pointer is redirected to a record of ANOTHER object
                tr = [x for tt in txns for x in tt['recs'] if x['pos'] == r['back']]
                others = [x for tt in txns for x in tt['recs'] if x['oid'] != r['oid'] and x['pos'] < r['pos']]
                if tr and rng.random() < 0.5:
                    dmgs.append(dict(kind='win', off=tr[0]['pos'], fill='00' * (tr[0]['end'] - tr[0]['pos']),
                                     cls='pickle', fk='craft', crafted='zero-target'))
                elif others:
                    dmgs.append(dict(kind='win', off=r['pos'] + 42, fill=p64(rng.choice(others)['pos']).hex(),
                                     cls='backptr', fk='craft', crafted='ptr-other-oid'))
            elif r['plen'] and rng.random() < 0.1:
                # turn a data record into a back-pointer record pointing at itself
                dmgs.append(dict(kind='win', off=r['pos'] + 34, fill=(p64(0) + p64(r['pos'])).hex(),
                                 cls='dh.plen', fk='craft', crafted='backcycle'))
    # the tool's options and re-use of its output, on the undamaged image and on sampled damages
    base = [d for d in dmgs if d['kind'] != 'none']
    pick = lambda k: [dict(d) for d in rng.sample(base, min(k, len(base)))]
    var = [dict(kind='none', opts=o) for o in (dict(force=True), dict(noforce=True), dict(pack=True),
                                                dict(again=True), dict(verbose=2), dict(partial=True))]
    for d in pick(nvar):
        d['opts'] = dict(again=True)
        var.append(d)
    recdmg = [d for d in base if d.get('cls', '').startswith(('dh.', 'backptr', 'pickle'))] or base
    for d in rng.sample(recdmg, min(nvar, len(recdmg))):
        var.append(dict(d, opts=dict(partial=True)))
    # (-P only on the undamaged image, with a pack time before its first transaction: what packing
    #  removes is C07's matter, and these synthetic histories have no root object to pack from)
    for d, o in zip(pick(2), (dict(force=True), dict(verbose=2))):
        d['opts'] = o
        var.append(d)
    return dmgs + var


def dmg_line(dmg):
    if dmg['kind'] == 'none':
        return 'full'
    if dmg['kind'] == 'trunc':
        return 'trunc %d' % dmg['n']
    return 'patch %d %s' % (dmg['off'], dmg['fill'])


def model_obs_str(obs):
    if obs['status'] == 'notfs':
        return 'notfs'
    if obs['status'] != 'done':
        return obs['status']
    return 'done %s img=%d:%s' % (model_dump_str(obs['dump']), obs['img'][0], obs['img'][1])


def strictly_inside(txns, ds, de):
    return any(t['pos'] < ds < t['end'] for t in txns)


# =================================================================== source tie (constants)
def source_tie(ck):
    """constants the models hard-wire, read from the source tree on every run"""
    import ast
    import ZODB.FileStorage
    import ZODB.FileStorage.format as fmt
    bad = []
    if ZODB.FileStorage.packed_version != b'FS30':
        bad.append('magic %r' % ZODB.FileStorage.packed_version)
    if (fmt.TRANS_HDR, fmt.TRANS_HDR_LEN, fmt.DATA_HDR, fmt.DATA_HDR_LEN) != ('>8sQcHHH', 23, '>8s8sQQHQ', 42):
        bad.append('header formats')
    with open(os.path.join(REPO, 'src', 'ZODB', 'fsrecover.py')) as f:
        tree = ast.parse(f.read())
    consts = {}
    for fn in ast.walk(tree):
        if isinstance(fn, ast.FunctionDef) and fn.name in ('scan', 'read_txn_header'):
            consts[fn.name] = sorted({repr(n.value) for n in ast.walk(fn) if isinstance(n, ast.Constant)
                                      and isinstance(n.value, (int, str, bytes)) and not
                                      (isinstance(n.value, str) and len(n.value) > 12)})
    if "8096" not in consts.get('scan', []) or "b'.'" not in consts.get('scan', []):
        bad.append('scan constants %r' % consts.get('scan'))
    if "' up'" not in consts.get('read_txn_header', []) or '23' not in consts.get('read_txn_header', []):
        bad.append('read_txn_header constants %r' % consts.get('read_txn_header'))
    for b in bad:
        ck.mismatch('source constant changed (model hard-wires it): ' + b, dict(part='tie'))
    ck.extra.setdefault('coverage', {})['source_constants'] = consts


# =================================================================== corpus
def load_corpus():
    d = os.path.join(VERIF, 'corpus', 'C17')
    cases = []
    if os.path.isdir(d):
        for fn in sorted(os.listdir(d)):
            if fn.endswith('.json'):
                with open(os.path.join(d, fn)) as f:
                    c = json.load(f)
                c['corpus'] = fn
                cases.append(c)
    return cases


# =================================================================== main
def run_copy_part(ck, cases, nproc=None):
    # every case runs in a forked child under a watchdog: a copy that blocks is an observation
    # (C17:copy-hangs) with that case as the failing input, not a hang of the check
    nproc = nproc or min(16, os.cpu_count() or 4)
    raw_results = run_recover_jobs([(i, c) for i, c in enumerate(cases)], ck.tmp, min(nproc, max(1, len(cases))),
                                   watchdog=25.0, max_timeouts=2, mode='copy')
    results = []
    lines = []
    spans = []
    for i, case in enumerate(cases):
        res = raw_results[i]
        if res.get('phase') == 'harness':
            raise InfraError('copy runner failed: %s (case %s)' % (res.get('error'), json.dumps(case)[:300]))
        if res.get('status') == 'timeout':
            res = dict(error='timeout', phase='hang', where=res.get('where'))
        elif res.get('status') == 'skipped':
            res = dict(error='skipped', phase='build')
        elif str(res.get('status', '')).startswith('crash:worker-died'):
            res = dict(error='InterpreterCrash: the worker process died', phase='copy')
        results.append(res)
        if res.get('error') and res.get('phase') == 'build':
            ck.count('copy:source-build-raised')
            ck.count('copy:source-build-raised:' + res['error'].split(':')[0])
        if res.get('src_dump') is not None and not res.get('error') and \
                max([len(r[2] or '') for t in res['src_dump'] for r in t[6]] + [0]) < 80000:
            # (records beyond 40 KB are judged by the oracle only: the interpreted driver's hex
            #  parser is not tail recursive)
            ls = copy_model_lines(case, res)
            spans.append((len(lines), len(ls)))
            lines += ls
        else:
            spans.append(None)
    nbuildfail = sum(1 for r in results if r.get('error') and r.get('phase') == 'build')
    if nbuildfail > max(2, len(cases) // 5):
        # individual failures to BUILD a source are other properties' business, but when they are the
        # rule nothing is checked any more: that must not pass silently
        bad = [(c, r) for c, r in zip(cases, results) if r.get('phase') == 'build'][0]
        ck.violation('C17:source-build-raised', '%d of %d source histories could not be built, first: %s'
                     % (nbuildfail, len(cases), bad[1]['error']), bad[0])
    mout = run_driver('Copy', lines) if lines else []
    for case, res, span in zip(cases, results, spans):
        kind = '%s->%s%s' % (case['prog']['kind'], case['dst'], ' range' if case.get('range') else '')
        ck.count('copy:' + kind)
        ck.count('copy:entry:' + case.get('entry', 'method'))
        ck.count('copy:src:' + case['prog']['kind'])
        ck.count('copy:dst:' + case['dst'])
        if case['prog'].get('tail'):
            ck.count('copy:source-with-voted-tail')
        if case.get('corpus'):
            ck.count('corpus')
        if any(sum(1 for op in st.get('ops', []) if op[0] == 'u') >= 2 for st in case['prog']['steps']):
            ck.count('copy:source-with-multi-undo-transaction')
        nt = nontrivial_copy(res)
        ck.case(case, nt, sample=dict(part='copy', kind=kind, src=[t[0] for t in res.get('src_dump', [])][:4],
                                      undo_records=sum(1 for t in res.get('src_dump', []) for r in t[6] if r[3]))
                if nt else None)
        for t in res.get('src_dump') or []:
            ck.count('copy:status:' + t[1])
            for r in t[6]:
                ck.count('copy:rec:' + ('uncreate' if r[2] is None and r[3] is None else
                                        'back' if r[3] is not None else 'full'))
        v = judge_copy(case, res)
        if v:
            small = shrink_copy(ck, case, v[0]) if len(ck.violations) < 2 and v[0] != 'C17:copy-hangs' else case
            ck.violation(v[0], v[1], small)
            continue
        if span is None:
            continue
        last = mout[span[0] + span[1] - 1]
        ck.count('copy:model-compared')
        exp_dump = res.get('dst_dump_raw') or res['dst_dump']
        want = 'ok ' + model_dump_str(exp_dump) + ' img=%d:%s' % res['dst_img']
        got = last
        if ' blobs=' in last:
            # blobs the model expects in the destination vs the real destination's blob files
            got, _, mbl = last.partition(' blobs=')
            if res.get('both_blobs'):
                real_bl = sorted('%s,%s,%s' % (o, t, res['dst_q'].get('blob %s %s' % (o, t)) or '-')
                                 for (o, t, _, c) in res['blobrecs'] if c is not None)
                if sorted(x for x in mbl.strip('[]').split(';') if x) != real_bl:
                    ck.mismatch('copy %s: blob files differ: model %s real %s' % (kind, mbl[:300], real_bl[:5]), case)
        if got != want:
            ck.mismatch('copy %s: destination differs: model %s | real %s' % (kind, got[:600], want[:600]), case)


def shrink_copy(ck, case, sig):
    """drop source transactions / ops while the same signature is still produced"""
    steps = case['prog']['steps']
    if len(steps) > 12:
        return case

    def fails(sub):
        c = dict(case, prog=dict(case['prog'], steps=sub))
        try:
            r = run_copy_case(c, ck.tmp)
            v = judge_copy(c, r)
            return bool(v) and v[0] == sig
        except Exception:
            return False
    if case['prog']['kind'].startswith('demo'):
        return case
    try:
        small = ddmin(steps, fails, max_tests=60)
    except Exception:
        small = steps
    return dict(case, prog=dict(case['prog'], steps=small))


def run_recover_part(ck, files, nproc):
    """files: list of dict(prog, raw, undos, dmgs)"""
    jobs = []
    for fi, f in enumerate(files):
        first = parse_file(f['raw'])[:1]
        for di, dmg in enumerate(f['dmgs']):
            opts = dict(dmg.get('opts') or {})
            if opts.get('pack'):
                # -P with a pack time before the first transaction: nothing to pack, same output
                opts['pack'] = pack_time(u64(first[0]['tid']) - GAP) if first else 1.0
            jobs.append(((fi, di), (apply_damage(f['raw'], dmg), opts) if opts else apply_damage(f['raw'], dmg)))
    results = run_recover_jobs(jobs, ck.tmp, nproc)
    # model: one driver process per chunk of files
    model = {}
    chunks = [list(range(len(files)))[i::max(1, min(nproc, 8))] for i in range(max(1, min(nproc, 8)))]
    chunks = [c for c in chunks if c]

    def run_chunk(ch):
        lines, keys = [], []
        for fi in ch:
            f = files[fi]
            lines.append('file ' + f['raw'].hex())
            keys.append(None)
            for di, dmg in enumerate(f['dmgs']):
                o = dmg.get('opts') or {}
                if (f.get('model_all') or dmg.get('model', True)) and not (o.get('partial') or o.get('noforce')):
                    lines.append(dmg_line(dmg))
                    keys.append((fi, di))
        out = run_driver('Recover', lines, timeout=1500)
        return {k: o for k, o in zip(keys, out) if k is not None}
    if len(chunks) == 1:
        model.update(run_chunk(chunks[0]))
    else:
        from concurrent.futures import ThreadPoolExecutor
        with ThreadPoolExecutor(len(chunks)) as ex:
            for m in ex.map(run_chunk, chunks):
                model.update(m)
    excl = {}
    for fi, f in enumerate(files):
        raw = f['raw']
        txns = parse_file(raw)
        oview = orig_view(raw, txns)
        for di, dmg in enumerate(f['dmgs']):
            obs = results.get((fi, di))
            if obs is None:
                raise InfraError('no result for recover job %r' % ((fi, di),))
            if obs['status'] == 'skipped':
                ck.count('recover:skipped-after-timeouts')
                continue
            ds, de = damage_range(raw, dmg)
            nt = dmg['kind'] != 'none' and strictly_inside(txns, ds, de)
            key = dict(part='recover', prog=f['prog'], dmg=dmg)
            ck.case(key, nt, sample=dict(part='recover', size=len(raw), txns=len(txns), dmg=dmg,
                                         recovered=len(obs.get('dump', []))) if nt and di % 7 == 0 else None)
            ck.count('recover:' + dmg['kind'] + (':' + dmg.get('cls', '') if dmg['kind'] == 'win' else ''))
            for o in (dmg.get('opts') or {}):
                ck.count('recover:option:' + o)
            ck.count('recover:status:' + obs['status'].split(':')[0])
            if obs['status'] == 'done':
                ck.count('recover:errors-reported' if obs.get('errors') else 'recover:clean-run')
            verdict, sig, what = judge_recover(raw, txns, oview, dmg, obs)
            ck.count('recover:verdict:' + verdict)
            if verdict == 'violation':
                ck.violation(sig, what, shrink_recover(ck, key, sig, nproc) if len(ck.violations) < 2 else key)
                continue
            if verdict.startswith('excluded'):
                excl[verdict] = excl.get(verdict, 0) + 1
            mo = model.get((fi, di))
            if mo is not None and mo != model_obs_str(obs):
                ck.mismatch('recover: model and fsrecover differ on %s of a %d-byte file: model %s | real %s'
                            % (dmg_line(dmg)[:80], len(raw), mo[:500], model_obs_str(obs)[:500]), key)
    return excl


def shrink_recover(ck, key, sig, nproc):
    """try smaller histories (drop steps) keeping the damage kind relative (truncate-by / same offset)"""
    prog, dmg = key['prog'], key['dmg']

    def attempt(steps):
        p = dict(prog, steps=steps)
        try:
            raw, _ = file_bytes(p, ck.tmp)
            txns = parse_file(raw)
        except Exception:
            return False
        d2 = dict(dmg)
        if dmg['kind'] == 'trunc' and 'cutby' in dmg:
            d2['n'] = len(raw) - dmg['cutby']
        if d2['kind'] == 'trunc' and not (0 <= d2['n'] <= len(raw)):
            return False
        if d2['kind'] == 'win' and d2['off'] >= len(raw):
            return False
        res = run_recover_jobs([((0, 0), apply_damage(raw, d2))], ck.tmp, 1, watchdog=5.0, confirm=False)
        v = judge_recover(raw, txns, orig_view(raw, txns), d2, res[(0, 0)])
        return v[0] == 'violation' and v[1] == sig
    try:
        small = ddmin(prog['steps'], attempt, max_tests=12)
    except Exception:
        small = prog['steps']
    return dict(key, prog=dict(prog, steps=small))


def replay_case(ck, case, nproc):
    if case.get('part') == 'copy':
        run_copy_part(ck, [case])
    elif case.get('part') == 'recover':
        f = corpus_recover_file(ck, case)
        if f:
            run_recover_part(ck, [f], nproc)
    elif case.get('part') == 'tie':
        source_tie(ck)


def corpus_recover_file(ck, case):
    """a recover case (corpus / replay) as a file entry of run_recover_part"""
    if True:
        try:
            raw, undos = file_bytes(case['prog'], ck.tmp)
            parse_file(raw)
        except Exception as e:
            ck.count('recover:file-build-raised:' + type(e).__name__)
            if case.get('corpus') is None:
                ck.violation('C17:source-build-raised', 'the data file of the replayed case cannot be built: %s: %s'
                             % (type(e).__name__, str(e)[:200]), case)
            return None
        if case.get('corpus'):
            ck.count('corpus')
        dmg = dict(case['dmg'])
        if dmg['kind'] == 'trunc' and 'cutby' in dmg:
            dmg['n'] = len(raw) - dmg['cutby']
        if dmg.get('crafted') == 'backcycle' and 'recidx' in dmg:
            recs = [r for t in parse_file(raw) for r in t['recs'] if r['plen'] == 0 and r['back']]
            r = recs[dmg['recidx']]
            dmg['off'], dmg['fill'] = r['pos'] + 42, p64(r['pos']).hex()
        if dmg.get('crafted') == 'tloc' and 'recidx' in dmg:
            recs = [r for t in parse_file(raw) for r in t['recs']]
            r = recs[dmg['recidx']]
            dmg['off'], dmg['fill'] = r['pos'] + 24, '00' * 8
        return dict(prog=case['prog'], raw=raw, undos=undos, dmgs=[dmg], model_all=True)


def main(argv=None):
    ck = Check('C17', argv)
    ck.extra['modules'] = ['Props.C17', 'Drivers.Copy', 'Drivers.Recover']
    ck.run_gate(ck.extra['modules'], ['Props.C17'])
    nproc = min(16, os.cpu_count() or 4)
    source_tie(ck)
    if ck.replay_path:
        with open(ck.replay_path) as f:
            rp = json.load(f)
        cases = [rp['case']] if rp.get('case') else []
        for c in cases:
            replay_case(ck, c, nproc)
        return finish(ck, {})
    # corpus first (batched with the generated cases of its part: one pool, one driver run)
    corpus = load_corpus()
    # probed excluded point: MappingStorage is not a copy destination
    probe_mapping_destination(ck)
    # (a) copy matrix
    ncopy = 48 if not ck.thorough else 512
    cases = [c for c in corpus if c.get('part') == 'copy'] + [gen_copy_case(ck.rng, i) for i in range(ncopy)]
    run_copy_part(ck, cases, nproc)
    # (b) recover
    nfiles = 20 if not ck.thorough else 200
    files = []
    nfail = 0
    for c in corpus:
        if c.get('part') == 'recover':
            f = corpus_recover_file(ck, c)
            if f:
                files.append(f)
    for i in range(nfiles):
        big = (i % 10 == 9)
        prog = gen_recover_file(ck.rng, ck.tmp, big=big)
        try:
            raw, undos = file_bytes(prog, ck.tmp)
            txns = parse_file(raw)
        except Exception as e:
            # the real code failed to build (or wrote an unparsable) undamaged file: not a recovery
            # matter; counted, and a violation only when it becomes the rule
            ck.count('recover:file-build-raised:' + type(e).__name__)
            nfail += 1
            if nfail > max(2, nfiles // 5):
                ck.violation('C17:source-build-raised', 'data files for recovery cannot be built: %s: %s'
                             % (type(e).__name__, str(e)[:200]), dict(part='recover', prog=prog, dmg=dict(kind='none')))
                break
            continue
        if ck.thorough:
            allcuts = (not big) and len(raw) <= 1600
            dmgs = gen_damages(ck.rng, raw, txns, 64 if not allcuts else len(raw),
                               150 if not big else 40, thorough_all=allcuts)
        else:
            dmgs = gen_damages(ck.rng, raw, txns, 64 if not big else 24, 64 if not big else 16)
        files.append(dict(prog=prog, raw=raw, undos=undos, dmgs=dmgs))
        ck.count('recover:file' + (':big' if big else '') + (':undo' if undos else ''))
        if any(len({r['oid'] for r in t['recs']}) < len(t['recs']) and
               sum(1 for r in t['recs'] if r['plen'] == 0) >= 2 for t in txns):
            ck.count('recover:file:two-back-pointer-records-of-one-oid')
        byp = {r['pos']: r for t in txns for r in t['recs']}
        if any(r['back'] and byp[r['back']]['plen'] == 0 for r in byp.values()):
            ck.count('recover:file:multi-hop-chain')
    excl = run_recover_part(ck, files, nproc)
    finish(ck, excl)


def probe_mapping_destination(ck):
    """MappingStorage offers neither copyTransactionsFrom nor restore: not a destination kind.
    The point is executed and its outcome recorded (DESIGN 6.1), it is not judged."""
    import ZODB.MappingStorage
    import ZODB.BaseStorage
    m = ZODB.MappingStorage.MappingStorage()
    src = ZODB.MappingStorage.MappingStorage()
    d = os.path.join(ck.tmp, 'probe')
    os.makedirs(d, exist_ok=True)
    b = Built()
    run_steps(src, [dict(t=BASE + GAP, u='', d='', e=None, ops=[['s', 1, mkdata(1, 1, None).hex()]])], {}, {}, d, b)
    out = 'has copyTransactionsFrom=%s restore=%s; BaseStorage.copy -> ' % (
        hasattr(m, 'copyTransactionsFrom'), hasattr(m, 'restore'))
    try:
        ZODB.BaseStorage.copy(src, m)
        out += 'ok %d txns' % len(list(m.iterator()))
    except Exception as e:
        out += type(e).__name__
    ck.extra.setdefault('coverage', {})['excluded_point_mapping_destination'] = out


def finish(ck, excl):
    ev = ck.hist
    total = sum(v for k, v in ev.items() if k.startswith('recover:verdict:'))
    ck.extra.setdefault('coverage', {})['recover_hypothesis'] = dict(
        judged=total, excluded=excl,
        note='excluded = the image violates NoFalseResync / ClosedBack of recover_only_input_txns '
             '(no checksum in the format); such images are still compared with the model')
    ck.finish(
        rule='copy: seeded storage-level histories (stores, deleteObject, undo, multi-undo, un-creation chains, '
             'blobs and undone blob changes, empty transactions, packs, > 64 KiB records, 65535-byte metadata, '
             'oids in several index buckets up to 2^64-1, voted unfinished tail, explicit tids) over source kinds '
             'file / file+blobs / HexStorage(file[+blobs]) / ZODB.config-built file and mapping / mapping / '
             'MVCCMappingStorage / DemoStorage (mapping|file|blob-file base, file|mapping|default changes, '
             'pushed layer) x destination kinds file / file+blobs / BlobStorage(file) bushy and lawn / '
             'HexStorage(file[+blobs]) / config-built file; entry points copyTransactionsFrom, BaseStorage.copy, '
             'blob.copyTransactionsFromTo, iterator(start, stop), two-pass copies with bounds at tid and tid+-1, '
             'a copy interrupted inside a transaction and resumed, restore/restoreBlob by hand (hints kept / '
             'dropped / absent above / absent just below / mixed; one or two destinations in lockstep); the copy '
             'closed and reopened (index / scan); every iterator range at every tid boundary; non-trivial = the source iterator '
             'yields at least one record with a data_txn hint (an undo record). recover: small Data.fs '
             'files x {undamaged, truncations incl. every cut inside the last transaction, overwritten '
             'windows (zero/ff/random/dots/+-1) at every field class, crafted status/tid/pointer damage}; '
             'non-trivial = the damage starts strictly inside a transaction; distinct by hash of '
             '(program, destination, range) resp. (program, damage)',
        assumptions=['NoFalseResync / ClosedBack: images where a header inside the damaged transactions '
                     'still passes read_txn_header\'s checks, or an intact transaction points back into the '
                     'damage, are outside recover_only_input_txns (counted in coverage.recover_hypothesis)',
                     'TimeStamp.laterThan(t) idealised as t+1 (generated tids never end in ffffffff)',
                     'destination kinds: FileStorage, FileStorage+blob_dir, BlobStorage(FileStorage); '
                     'MappingStorage has no copyTransactionsFrom/restore (probed, see coverage)',
                     'is_blob_record is uninterpreted in the model (the harness declares blob records)',
                     'the MODEL covers the default fsrecover options; -f, -v and -P (pack time before the first '
                     'transaction, undamaged image only) must give the default output and are compared with the '
                     'model as such; ORACLE-ONLY (no model comparison): -p (partial transactions accepted as a '
                     'non-empty record prefix of an input transaction), the refusal to overwrite an existing '
                     'output without -f, idempotence (recover and copyTransactionsFrom of the recovered file '
                     'reproduce it), records beyond 40 KB in the copy part, close + reopen of the copy, the '
                     'FileStorage-family queries len / record_iternext / undoLog / lastTid',
                     'HexStorage destinations are compared with the model on the records as transformed '
                     '(.h + hex); history() sizes are not compared across a record transform, and history() '
                     'sizes / getTid / lastTid not for hand restores without usable hints (same revisions, other '
                     'representation)'])


if __name__ == '__main__':
    try:
        main()
    except InfraError as e:
        print('INFRA-ERROR', e)
        sys.exit(2)
