"""C01 — Committed transactions survive a crash at any point; unfinished ones vanish.

Real code: histories of 1-8 transactions on the real FileStorage under the recording VFS; every cut
of the raw operation sequence (event prefix + byte prefix of a Data.fs write) is materialised and
reopened with the real FileStorage (writable, read-only, and with the .index of that moment).
Direct oracle (independent of the Lean model): the full query dump of the reopened storage equals the
dump of a storage holding exactly the first n committed transactions for some n >= number of commits
whose `ret` mark precedes the cut; the open raised nothing; after a writable open the file is exactly
that clean prefix; a read-only open changed nothing; an fsync of Data.fs lies between each status-byte
write and the `ret`; the uncrashed file holds exactly what was committed (pure-Python parser).
Model (Drivers/Disk.lean): the same transactions are fed to the Lean model; [I] image length+hash
after every operation and the canonical event trace are equal; `recover(cut image)` agrees with the
real reopen (transaction count, position, last tid, bytes after the open) on sampled cuts."""
import hashlib
import json
import multiprocessing
import os
import shutil
import sys
import tempfile

sys.path.insert(0, os.path.dirname(os.path.abspath(__file__)))
from common import Check, InfraError, run_driver, ddmin, VERIF  # noqa: E402
import c01_lib as L  # noqa: E402
import vfs  # noqa: E402

CORPUS = os.path.join(VERIF, 'corpus', 'C01')

# ---------------------------------------------------------------- per-history preparation
CTX = None          # set before the worker pool is forked


class HistCtx:
    pass


def history_oids_tids(hist):
    oids = sorted({op[1] for t in hist for op in t['ops'] if op[0] != 'undo'})
    tids = sorted({t['tid'] for t in hist})
    return oids, tids


def prepare(hist, tmp, tag, base_root=None, base_ctx=None):
    """run the history for real, compute prefixes, reference dumps and the static oracle checks.
    Returns (ctx, violations) — violations found without looking at any cut.
    base_root: continue in this directory (the image of an earlier crash of `base_ctx`, with all its
    side files): the storage is reopened there first (recovery) and the history runs on top."""
    viol = []
    ctx = HistCtx()
    ctx.hist = hist
    ctx.keep_side = base_root is not None
    ctx.hid = hashlib.sha1(json.dumps([hist, tag if base_root else None], sort_keys=True).encode()).hexdigest()[:12]
    root = base_root or os.path.join(tmp, 'run-' + tag)
    if base_root is None and os.path.exists(root):
        shutil.rmtree(root)
    try:
        rr = L.run_history(hist, root, existing=base_root is not None)
    except Exception as e:
        import traceback
        tb = traceback.extract_tb(e.__traceback__)
        where = ' <- '.join('%s:%d' % (os.path.basename(f.filename), f.lineno) for f in tb[-3:])
        ctx.rr = None
        if base_root is not None:
            viol.append(('C01:continue-after-recovery-raised', 'reopening the crash image in place (with all its side '
                         'files) and continuing with more commits raised %s: %s [%s]'
                         % (type(e).__name__, str(e)[:160], where), None))
        else:
            viol.append(('C01:history-raised', 'executing the history (no crash, no fault) raised %s: %s [%s]'
                         % (type(e).__name__, str(e)[:160], where), None))
        return ctx, viol
    ctx.rr = rr
    if getattr(rr, 'returned_despite_fault', None):
        k_, ev_ = rr.returned_despite_fault
        viol.append(('C01:returned-despite-fault', 'tpc_finish of transaction %d returned normally although its raw '
                     'operation %s failed (EIO/ENOSPC): a returned commit must be durable' % (k_, ev_), None))
    ctx.no_model = getattr(rr, 'no_model', False)
    for when, what in rr.live_violations[:3]:
        viol.append(('C01:live-read-shows-uncommitted', 'a read through the running storage %s does not show the '
                     'committed state (an unfinished or aborted transaction must be absent in full): %s'
                     % (when, what), None))
    ctx.magic = rr.init['Data.fs'][:4]
    ctx.oids, ctx.tids = history_oids_tids(hist)
    ctx.base_n = 0
    if base_ctx is not None:
        ctx.oids = sorted(set(ctx.oids) | set(base_ctx.oids))
        ctx.tids = sorted(set(ctx.tids) | set(base_ctx.tids))
        try:
            ctx.base_n = len(L.parse_file(rr.init['Data.fs'], ctx.magic))
        except L.ParseError as e:
            viol.append(('C01:file-not-clean-prefix', 'after the recovering reopen the data file is not a clean '
                         'sequence of finished transactions: %s' % e, None))
            return ctx, viol
    # ---- O1: the uncrashed file holds exactly the committed transactions, as issued
    try:
        txs = L.parse_file(rr.final, ctx.magic)
    except L.ParseError as e:
        viol.append(('C01:final-file-malformed', 'the data file after the history (no crash) is not a '
                     'well-formed sequence of finished transactions: %s' % e, None))
        return ctx, viol
    ctx.txs = txs
    if len(txs) != ctx.base_n + len(rr.committed):
        viol.append(('C01:committed-content', 'file holds %d transactions, %d were there and %d commits returned'
                     % (len(txs), ctx.base_n, len(rr.committed)), None))
        return ctx, viol
    resolved = L.resolve_data(txs)
    for j, k in enumerate(rr.committed):
        t, f, issued = hist[k], txs[ctx.base_n + j], rr.issued[j]
        what = None
        if (f['tid'], f['status'], f['user'], f['desc'], f['ext']) != (
                t['tid'], t['status'], L.spec_bytes(t['user']), L.spec_bytes(t['desc']), L.spec_bytes(t['ext'])):
            what = 'transaction header/metadata differ from what was committed'
        elif len(f['recs']) != len(issued):
            what = '%d records on disk, %d issued' % (len(f['recs']), len(issued))
        else:
            for r, (kind, oid, data) in zip(f['recs'], issued):
                if r['oid'] != oid or (kind == 'data' and resolved[r['pos']] != data) or \
                        (kind == 'del' and resolved[r['pos']] is not None):
                    what = 'record of oid %x at %d does not hold what was stored' % (oid, r['pos'])
                    break
        if what:
            viol.append(('C01:committed-content', 'transaction %d (tid %x): %s' % (k, t['tid'], what), None))
    ctx.ends = [4] + [t['end'] for t in txs]
    # ---- reference storages: exactly the first n transactions
    ctx.refs, ctx.ref_dumps, ctx.refs_noit = {}, [], {}
    refdir = os.path.join(tmp, 'ref-' + tag)
    for n in range(len(txs) + 1):
        L.write_dir(refdir, {'Data.fs': rr.final[:ctx.ends[n]]})
        d, err = L.open_and_dump(refdir, ctx.oids, ctx.tids)
        if d is None:
            viol.append(('C01:clean-prefix-unreadable', 'a file holding exactly the first %d committed '
                         'transactions cannot be opened: %s' % (n, err), None))
            return ctx, viol
        d.pop('used_index', None)
        ctx.ref_dumps.append(d)
        ctx.refs.setdefault(L.canon(d), []).append(n)
        ctx.refs_noit.setdefault(L.canon({k: v for k, v in d.items() if k != 'iterator_start'}), []).append(n)
    # ---- O3: fsync between the status-byte write and the ret mark; no later write below the end
    evs = rr.events
    nret = ctx.base_n
    for i, e in enumerate(evs):
        if e[0] == 'mark' and e[1].startswith('ret finish'):
            j = i - 1
            while j >= 0 and not (evs[j][0] in ('write', 'trunc') and evs[j][1] == 'Data.fs'):
                j -= 1
            synced = any(x[0] == 'fsync' and x[1] == 'Data.fs' for x in evs[j + 1:i]) if j >= 0 else False
            if not synced:
                viol.append(('C01:no-fsync-before-return', 'tpc_finish of transaction %s returned without an '
                             'fsync of Data.fs after its last write (event %d)' % (e[1].split()[-1], j), None))
            nret += 1
            end = ctx.ends[nret] if nret < len(ctx.ends) else None
            if end is not None:
                for x in evs[i + 1:]:
                    if x[1:2] == ('Data.fs',) and ((x[0] == 'write' and x[2] < end) or
                                                   (x[0] == 'trunc' and x[2] < end)):
                        viol.append(('C01:write-into-committed', 'after transaction %s returned a later '
                                     '%s touches offset %d < %d' % (e[1].split()[-1], x[0], x[2], end), None))
                        break
    return ctx, viol


# ---------------------------------------------------------------- cuts
FORCE_CUTS = []        # (k, nb) cuts that must be part of the enumeration (replay of a shrunk case)


def enumerate_cuts(ctx, rng, tier, limit=None):
    """list of (k, nb, nontrivial, returned, canonical cut)."""
    evs = ctx.rr.events
    can, where = L.canonical_trace(evs)
    ctx.can, ctx.where = can, where
    # interesting absolute offsets: headers (23 + 8), first 50 bytes of every record, trailers
    hot = set()
    votes = []
    for ci, e in enumerate(can):
        if e[0] == 'w' and len(e[2]) > 1:
            votes.append((e[1], len(e[2])))
            try:
                t = L.parse_vote_bytes(e[2], e[1])
                for a in range(e[1], min(e[1] + 31, e[1] + len(e[2]))):
                    hot.add(a)
                for a in range(e[1] + len(e[2]) - 9, e[1] + len(e[2])):
                    hot.add(a)
                for r in t['recs'][:4]:
                    for a in range(r['pos'], r['pos'] + 50, 1 if tier == 'quick' else 1):
                        hot.add(a)
            except Exception:
                pass
    total_bytes = sum(len(e[3]) for e in evs if e[0] == 'write' and e[1] == 'Data.fs')
    exhaustive = tier == 'thorough' and total_bytes <= 9000
    nrand = 200 if tier == 'quick' else 3000
    interior = []
    cuts = []
    returned = getattr(ctx, 'base_n', 0)
    for k in range(len(evs) + 1):
        e = evs[k] if k < len(evs) else None
        ci, off = where.get(k, (len(can), 0))
        # boundary cut before event k
        nontriv = False
        if ci < len(can) and can[ci][0] == 'w':
            ln = len(can[ci][2])
            nontriv = (ln > 1 and 0 < off < ln) or (ln == 1 and off == 0 and ci > 0 and can[ci - 1][0] == 'w')
        cuts.append((k, None, nontriv, returned, (ci, off)))
        if e is not None and e[0] == 'write' and e[1] == 'Data.fs' and len(e[3]) > 1:
            for nb in range(1, len(e[3])):
                a = e[2] + nb
                c = (k, nb, True, returned, (ci, off + nb))
                if exhaustive or a in hot or [k, nb] in FORCE_CUTS:
                    cuts.append(c)
                else:
                    interior.append(c)
        if e is not None and e[0] == 'write' and e[1].endswith('.index_tmp') and len(e[3]) > 2:
            # crash while the index is being saved
            for nb in sorted({1, len(e[3]) // 2, len(e[3]) - 1}):
                cuts.append((k, nb, False, returned, (ci, off)))
        if e is not None and e[0] == 'mark' and e[1].startswith('ret finish'):
            returned += 1
    if interior:
        cuts += rng.sample(interior, min(nrand, len(interior)))
    if limit and len(cuts) > limit:
        keep = [c for c in cuts if c[1] is None or [c[0], c[1]] in FORCE_CUTS]
        rest = [c for c in cuts if c[1] is not None and [c[0], c[1]] not in FORCE_CUTS]
        cuts = keep + rng.sample(rest, max(0, min(len(rest), limit - len(keep))))
    cuts.sort(key=lambda c: (c[0], -1 if c[1] is None else c[1]))
    return cuts


def cut_images(ctx, cuts):
    """yield (cut, Data.fs bytes, index bytes | None) for the sorted cuts, building images incrementally"""
    evs = ctx.rr.events
    img = dict(ctx.rr.init)
    ki = 0
    for c in cuts:
        k, nb = c[0], c[1]
        while ki < k:
            vfs.apply_events(img, [evs[ki]])
            ki += 1
        data = img.get('Data.fs', b'')
        torn_side = None
        if nb is not None:
            e = evs[k]
            tmp = {e[1]: img.get(e[1], b'')}
            vfs.apply_events(tmp, [e], nbytes_last=nb)
            if e[1] == 'Data.fs':
                data = tmp['Data.fs']
            else:
                torn_side = (e[1], tmp[e[1]])
        side = None
        if getattr(ctx, 'keep_side', False) or nb is None or torn_side:
            # everything else that is in the directory at that moment (the lock file apart)
            side = {n: b for n, b in img.items() if b is not None and not n.endswith('/') and '/' not in n
                    and n not in ('Data.fs', 'Data.fs.lock')}
            if torn_side:
                side[torn_side[0]] = torn_side[1]
        yield c, data, img.get('Data.fs.index'), side


# ---------------------------------------------------------------- judging one cut (worker)
ITER_START_ERRORS = ('err:CorruptedError', 'err:CorruptedDataError', 'err:ValueError')
_WORKDIR = {}


def _workdir():
    pid = os.getpid()
    if pid not in _WORKDIR or not os.path.exists(_WORKDIR[pid]):
        _WORKDIR[pid] = tempfile.mkdtemp(prefix='w%d-' % pid, dir=CTX.tmp)
    return _WORKDIR[pid]


def judge(task):
    """task = (cut, data, index, with_index).  Returns (cut, violation|None, observation)"""
    ctx = CTX
    cut, data, index, with_index, side, extra = task
    returned = cut[3]
    wd = _workdir()
    obs = {}
    known = []
    obs['_known'] = known

    def match(d, mode):
        d = dict(d)
        d.pop('used_index', None)
        ns = ctx.refs.get(L.canon(d))
        if ns is None and mode == 'read-only':
            # the recorded open finding, and nothing but it (see c01_lib.classify_iterator_start)
            d2 = {k: v for k, v in d.items() if k != 'iterator_start'}
            for n in ctx.refs_noit.get(L.canon(d2)) or []:
                if len(data) <= ctx.ends[n]:
                    continue
                kind = L.classify_iterator_start(d, ctx.ref_dumps[n], ctx.tids)
                if kind:
                    got = d.get('iterator_start')
                    known.append(('C01:ro-iterator-start-%s-on-torn-tail' % kind,
                                  'read-only reopen of a crash image with an unfinished tail: iterator(start) %s '
                                  '(all other queries show prefix n=%d): got %s, prefix has %s'
                                  % ('raises instead of yielding the committed transactions from start on'
                                     if kind == 'raises' else 'for a start beyond the last committed tid positions '
                                     'itself by the bytes of the torn tail and yields a transaction where nothing is '
                                     'expected', n, str(got)[:200], str(ctx.ref_dumps[n].get('iterator_start'))[:200])))
                    ns = [n]
                    break
        if ns is None:
            # which prefix is closest, and on which keys does it differ?
            best = None
            for n, rd in enumerate(ctx.ref_dumps):
                diff = sorted(k for k in set(rd) | set(d) if rd.get(k) != d.get(k))
                if best is None or len(diff) < len(best[1]):
                    best = (n, diff)
            sig = 'C01:not-a-prefix'
            if best[1] == ['lastTransaction']:
                sig = 'C01:ltid-of-discarded-tail'
            elif mode == 'read-only' and best[1] == ['iterator'] and d.get('iterator') == 'err:CorruptedDataError':
                sig = 'C01:ro-iterator-raises-on-short-tail'
            return None, (sig, '%s reopen of the crash image shows a state that is not that of any prefix '
                          'of the committed transactions; closest prefix n=%d differs on %s (e.g. %s: got %s, '
                          'prefix has %s)' % (mode, best[0], best[1][:6], best[1][0],
                                              str(d.get(best[1][0]))[:120],
                                              str(ctx.ref_dumps[best[0]].get(best[1][0]))[:120]))
        ok = [n for n in ns if n >= returned]
        if not ok:
            return None, ('C01:returned-commit-lost', '%s reopen shows only the first %d transactions but %d '
                          'commits had returned before the cut' % (mode, max(ns), returned))
        return ok[0], None

    # (a) writable open, Data.fs only
    L.write_dir(wd, {'Data.fs': data})
    d, err = L.open_and_dump(wd, ctx.oids, ctx.tids)
    if d is None:
        return cut, ('C01:open-raised', 'reopening the crash image raised ' + err), obs
    n, v = match(d, 'writable')
    if v:
        return cut, v, obs
    after = L.read_dir(wd).get('Data.fs', b'')
    obs = dict(n=n, pos=d['pos'], ltid=d['lastTransaction'], after_len=len(after), cut_len=len(data), _known=known)
    if len(data) <= 20000:
        obs['after_fnv'] = L.fnv64(after)
        obs['cut_fnv'] = L.fnv64(data)
    if after != ctx.rr.final[:ctx.ends[n]]:
        return cut, ('C01:file-not-clean-prefix', 'after the writable reopen Data.fs (%d bytes) is not the '
                     'clean file of the first %d transactions (%d bytes)' % (len(after), n, ctx.ends[n])), obs
    # (b) read-only open: same state, nothing modified
    L.write_dir(wd, {'Data.fs': data})
    before = L.read_dir(wd)
    d2, err = L.open_and_dump(wd, ctx.oids, ctx.tids, read_only=True)
    if d2 is None:
        return cut, ('C01:open-raised', 'read-only reopening of the crash image raised ' + err), obs
    n2, v = match(d2, 'read-only')
    if v:
        return cut, v, obs
    if L.read_dir(wd) != before:
        return cut, ('C01:ro-open-modified', 'a read-only reopen of the crash image changed the directory'), obs
    if n2 != n:
        return cut, ('C01:ro-differs', 'read-only reopen shows %d transactions, writable %d' % (n2, n)), obs
    # (c) with the index file of that moment
    if with_index and index is not None:
        L.write_dir(wd, {'Data.fs': data, 'Data.fs.index': index})
        d3, err = L.open_and_dump(wd, ctx.oids, ctx.tids)
        if d3 is None:
            return cut, ('C01:open-raised', 'reopening the crash image with its index file raised ' + err), obs
        obs['used_index'] = d3.get('used_index')
        n3, v = match(d3, 'with-index')
        if v:
            return cut, (v[0].replace('C01:', 'C01:with-index:'), v[1]), obs
        if n3 != n:
            return cut, ('C01:with-index:differs', 'reopen with the index file shows %d transactions, '
                         'without %d' % (n3, n)), obs
    # (d) dumps of tails cut off by EARLIER recoveries lie next to the file (.tr0, .tr1)
    if with_index:
        L.write_dir(wd, {'Data.fs': data, 'Data.fs.tr0': b'tail saved by an earlier recovery',
                         'Data.fs.tr1': b'FS30 and another one'})
        d4, err = L.open_and_dump(wd, ctx.oids, ctx.tids)
        if d4 is None:
            return cut, ('C01:open-raised:earlier-tr-files', 'reopening the crash image next to the .tr0/.tr1 files of '
                         'earlier recoveries raised ' + err), obs
        n4, v = match(d4, 'writable')
        if v or n4 != n:
            return cut, ('C01:tr-files-change-state', 'reopen next to .tr0/.tr1 of earlier recoveries shows %s, '
                         'without them %d transactions' % (v[1][:200] if v else n4, n)), obs
        files = L.read_dir(wd)
        if files.get('Data.fs.tr0') != b'tail saved by an earlier recovery' or \
                files.get('Data.fs.tr1') != b'FS30 and another one':
            return cut, ('C01:earlier-tr-file-overwritten', 'the recovery overwrote the dump of an earlier recovery'), obs
    # (e) all side files of that moment are still there (second crash of the same data file: the dumps
    #     of the first recovery; crash while the index is being saved: a partial .index_tmp; .tmp; index)
    if side is not None and (getattr(ctx, 'keep_side', False) or set(side) - {'Data.fs.index', 'Data.fs.tmp'}
                             or with_index):
        second = getattr(ctx, 'keep_side', False)
        files = dict(side)
        files['Data.fs'] = data
        L.write_dir(wd, files)
        d5, err = L.open_and_dump(wd, ctx.oids, ctx.tids)
        if d5 is None:
            return cut, ('C01:open-raised:second-crash' if second else 'C01:open-raised:with-side-files',
                         '%sreopen in the directory as the crash left it (side files %s) raised %s'
                         % ('crash, reopen (recovery), more commits, crash again: the second ' if second else '',
                            sorted(side), err)), obs
        n5, v = match(d5, 'writable')
        if v or n5 != n:
            return cut, ('C01:second-crash-differs' if second else 'C01:side-files-change-state',
                         'reopen in the directory as the crash left it (side files %s) shows %s, '
                         'Data.fs alone %d transactions' % (sorted(side), v[1][:200] if v else n5, n)), obs
        if second:
            obs['second_crash'] = True
    if extra:
        # (f) other ways to open the same image: ZODB.config section, quota=, blob_dir=
        from ZODB.FileStorage import FileStorage
        for opts in (dict(via='config', quota=10 ** 9, blob_dir=True), dict(via='direct', quota=len(data) + 10, blob_dir=False)):
            L.write_dir(wd, {'Data.fs': data})
            try:
                fs = L.open_storage(os.path.join(wd, 'Data.fs'), opts)
            except Exception as e:
                return cut, ('C01:open-raised:options', 'reopening the crash image with %s raised %s %s'
                             % (opts, L.ename(e), str(e)[:160])), obs
            try:
                d6 = L.dump_storage(fs, ctx.oids, ctx.tids)
            finally:
                fs.close()
            n6, v = match(d6, 'writable')
            if v or n6 != n:
                return cut, ('C01:options-change-state', 'reopen with %s shows %s, the plain constructor %d transactions'
                             % (opts, v[1][:200] if v else n6, n)), obs
        # (g) copying the crash image (opened read-only) into a new storage yields the same prefix
        L.write_dir(wd, {'Data.fs': data})
        try:
            src = FileStorage(os.path.join(wd, 'Data.fs'), read_only=True)
            dst = FileStorage(os.path.join(wd, 'Copy.fs'))
            try:
                dst.copyTransactionsFrom(src)
                d7 = L.dump_storage(dst, ctx.oids, ctx.tids)
            finally:
                dst.close()
                src.close()
        except Exception as e:
            return cut, ('C01:copy-of-crash-image-raised', 'copyTransactionsFrom(read-only crash image) raised %s %s'
                         % (L.ename(e), str(e)[:160])), obs
        keys = [k for k in d7 if k.split()[0] in ('iterator', 'load', 'loadBefore', 'loadSerial', 'lastTransaction',
                                                  'len', 'maxoid', 'iterator_start', 'record_iternext')]
        want = ctx.ref_dumps[n]
        bad = [k for k in keys if d7.get(k) != want.get(k)]
        if bad:
            return cut, ('C01:copy-of-crash-image-differs', 'a copy of the crash image (copyTransactionsFrom) does not '
                         'show prefix n=%d: %s: got %s, prefix has %s' % (n, bad[0], str(d7.get(bad[0]))[:150],
                                                                           str(want.get(bad[0]))[:150])), obs
        obs['extra'] = True
    return cut, None, obs


# ---------------------------------------------------------------- one history
def check_history(hist, ck, tag, pool_size, rng, tier, limit=None, stop_early=False, base_root=None,
                  base_ctx=None):
    """returns dict(violations=[(sig, what, cut)], model=(lines, checks, cutchecks) | None, stats)"""
    global CTX
    ctx, viol = prepare(hist, ck.tmp, tag, base_root, base_ctx)
    ctx.tmp = ck.tmp
    res = dict(violations=list(viol), model=None, ncuts=0, nontrivial=0, ctx=ctx)
    if ctx.rr is None or (viol and not hasattr(ctx, 'refs')):
        return res
    if not hasattr(ctx, 'ends'):
        return res
    cuts = enumerate_cuts(ctx, rng, tier, limit)
    CTX = ctx
    tasks = ((c, data, index, (i % 3 == 0) or tier == 'thorough', side,
              (i % 8 == 1) if tier == 'quick' else (i % 4 == 1))
             for i, (c, data, index, side) in enumerate(cut_images(ctx, cuts)))
    results = []
    if pool_size > 1 and len(cuts) > 64:
        with multiprocessing.get_context('fork').Pool(pool_size) as pool:
            for r in pool.imap(judge, tasks, chunksize=16):
                results.append(r)
    else:
        for t in tasks:
            r = judge(t)
            results.append(r)
            if stop_early and r[1]:
                break
    res['ncuts'] = len(results)
    seen_sig = set()
    for cut, v, obs in results:
        if v and v[0] not in seen_sig:
            seen_sig.add(v[0])
            res['violations'].append((v[0], v[1], [cut[0], cut[1]]))
        for ks, kw in obs.get('_known', []):
            if ks not in seen_sig:
                seen_sig.add(ks)
                res['violations'].append((ks, kw, [cut[0], cut[1]]))
    res['results'] = results
    if base_root is not None or getattr(ctx, 'no_model', False):
        return res
    # model lines
    try:
        lines, checks, can = L.model_lines_for_run(hist, ctx.rr)
    except Exception as e:       # a vote write the pure-Python parser cannot read
        res['model_error'] = 'cannot translate the real trace for the model: %r' % (e,)
        return res
    okres = [r for r in results if r[1] is None and 'after_fnv' in r[2]]
    big = len(ctx.rr.final) > 20000
    sample = okres if len(okres) <= (40 if big else 150) else rng.sample(okres, 40 if big else 150)
    cutchecks = {}
    for cut, _, obs in sample:
        ci, off = cut[4]
        lines.append('cut %d %d' % (ci, off))
        cutchecks[len(lines) - 1] = (cut, obs)
    # [I] fidelity of the read_index model on files NO crash of the property's model produces:
    # truncations anywhere and single-byte damage in headers of the uncrashed file
    rawchecks = {}
    if not big:
        final = ctx.rr.final
        probes = [(n, None) for n in sorted({0, 1, 3, 4, 5, 26, 27, len(final) - 1, len(final) // 2,
                                              rng.randrange(len(final) + 1), rng.randrange(len(final) + 1)})
                  if 0 <= n <= len(final)]
        for t in ctx.txs[:3]:
            probes += [(len(final), (t['pos'] + 16, rng.choice([99, 117, 120, 200]))),
                       (len(final), (t['pos'] + 15, (final[t['pos'] + 15] + 1) % 256)),
                       (len(final), (t['end'] - 1, (final[t['end'] - 1] + 1) % 256)),
                       (len(final), (t['pos'] + 18, 1))]
            for r in t['recs'][:1]:
                probes += [(len(final), (r['pos'] + 31, (final[r['pos'] + 31] + 1) % 256)),
                           (len(final), (r['pos'] + 33, 1)), (len(final), (r['pos'] + 41, final[r['pos'] + 41] ^ 1))]
        for n, patch in probes:
            b = bytearray(final[:n])
            if patch and patch[0] < len(b):
                b[patch[0]] = patch[1]
            lines.append('rawcut %d' % n + (' %d %d' % patch if patch else ''))
            rawchecks[len(lines) - 1] = raw_observe(ctx, bytes(b))
    res['model'] = (lines, checks, cutchecks, rawchecks)
    return res


ERRKIND = {'CorruptedTransactionError': 'err:CorruptedTransaction', 'CorruptedDataError': 'err:CorruptedData',
           'FileStorageFormatError': 'err:Format', 'ValueError': 'err:Value', 'error': 'err:Struct',
           'UnicodeDecodeError': 'err:Unicode'}


def raw_observe(ctx, data):
    """what the real writable open makes of arbitrary bytes: error kind, or pos/ltid/file after"""
    from ZODB.FileStorage import FileStorage
    global CTX
    CTX = ctx
    wd = _workdir()
    L.write_dir(wd, {'Data.fs': data})
    try:
        fs = FileStorage(os.path.join(wd, 'Data.fs'))
    except Exception as e:
        return ERRKIND.get(type(e).__name__, 'err:Other(%s)' % type(e).__name__)
    try:
        pos, ltid = fs._pos, L.u64(fs.lastTransaction())
    finally:
        fs.close()
    after = L.read_dir(wd).get('Data.fs', b'')
    return 'pos=%d ltid=%016x|len=%d fnv=%s' % (pos, ltid, len(after), L.fnv64(after))


# ---------------------------------------------------------------- crash, recover in place, continue, crash again
def is_listed(ck, sig):
    import re as _re
    return any(k.get('status', 'open') == 'open' and _re.fullmatch(k['signature'], sig) for k in ck.known)


def double_crash(hist, ctx, ck, tag, pool_size, rng, tier, forced=None, levels=1):
    """(crash_recover_continue on the real code) materialise the WHOLE directory at a first cut that leaves
    at least a full header behind the committed end, reopen it in place (the recovery leaves Data.fs.trN),
    run a second history on top, and judge every cut of the second run reopened next to ALL side files.
    Returns [(sig, what, case)]."""
    out = []
    evs = ctx.rr.events
    cands = []
    for k, e in enumerate(evs):
        if e[0] == 'write' and e[1] == 'Data.fs':
            if len(e[3]) > 1:
                cands += [[k, nb] for nb in sorted({23, 24, len(e[3]) // 2, len(e[3]) - 1}) if 23 <= nb < len(e[3])]
            elif k > 0:
                cands.append([k, None])         # complete vote write, status byte still 'c'
    forced_then = None
    if forced:
        picks = [(forced[0], forced[1])]
        forced_then = forced[2] if len(forced) > 2 else None
    else:
        picks = []
        for c in rng.sample(cands, min(len(cands), 2)):
            h2 = L.gen_history(rng, 'small', ntx=rng.choice([1, 2, 3]))
            delta = max(ctx.tids) - L.TID_BASE + 0x1000000
            for t in h2:
                t['tid'] += delta
            picks.append((c, h2))
    for i, (c1, h2) in enumerate(picks):
        root = os.path.join(ck.tmp, 'dc-%s-%d' % (tag, i))
        if os.path.exists(root):
            shutil.rmtree(root)
        vfs.materialize(ctx.rr.init, evs, c1[0], c1[1], root)
        res2 = check_history(h2, ck, '%s-dc%d' % (tag, i), pool_size, rng, tier,
                             110 if tier == 'quick' else 500, base_root=root, base_ctx=ctx)
        ck.count('double-crash-runs')
        for cut, v, obs in res2.get('results', []):
            ck.case([res2['ctx'].hid, cut[0], cut[1]], cut[2], None)
            if obs.get('second_crash'):
                ck.count('second-crash-cuts')
        for sig, what, cut2 in res2['violations']:
            out.append((sig, what, dict(history=hist, cut=c1, then=dict(history=h2, cut=cut2))))
        ctx2 = res2['ctx']
        if (levels > 1 or forced_then) and not [v for v in res2['violations'] if not is_listed(ck, v[0])] \
                and ctx2.rr is not None and hasattr(ctx2, 'ends') \
                and (i == 0 or forced_then):
            # … and a third crash after the second recovery
            f3 = (forced_then['cut'], forced_then['history'], forced_then.get('then')) if forced_then else None
            for sig, what, case3 in double_crash(h2, ctx2, ck, '%s-x%d' % (tag, i), pool_size, rng, tier, forced=f3,
                                                 levels=levels - 1):
                ck.count('third-crash-violations')
                out.append((sig, what, dict(history=hist, cut=c1, then=case3)))
            ck.count('third-crash-runs')
    return out


# ---------------------------------------------------------------- fsync raising during tpc_finish
FSYNC_MODEL = []       # (history, driver lines, expected observations) of runs with an injected fsync failure

def fsync_fault(hist, ck, tag):
    """the fsync issued by the LAST committing transaction's tpc_finish raises EIO: tpc_finish must not
    return normally (a returned commit needs a SUCCESSFUL fsync after its status-byte write), and the data
    file must reopen to the commits returned before, or those plus the faulted one.  Returns (sig, what) | None"""
    ks = [i for i, t in enumerate(hist) if t['kind'] == 'commit']
    if not ks:
        return None
    k = ks[-1]
    root = os.path.join(ck.tmp, 'ff-' + tag)
    if os.path.exists(root):
        shutil.rmtree(root)
    try:
        rr = L.run_history(hist, root, fsync_fault_at=k)
    except Exception as e:
        return ('C01:history-raised', 'executing the history up to the injected fsync failure raised %s: %s'
                % (type(e).__name__, str(e)[:160]))
    if rr.fsync_fault is None:
        return None                      # the transaction did not get as far as tpc_finish
    ck.count('fsync-fault:' + rr.fsync_fault)
    if rr.fsync_fault.startswith('raised') and len(rr.final) <= 20000 and not getattr(rr, 'no_model', False):
        try:
            lines, checks, _ = L.model_lines_for_run(hist, rr)
            FSYNC_MODEL.append((hist, lines, checks))
        except Exception:
            pass
    if rr.fsync_fault in ('returned', 'no-fsync-issued'):
        return ('C01:returned-without-successful-fsync', 'tpc_finish of transaction %d returned normally although %s'
                % (k, 'the fsync of Data.fs raised EIO: its data was never forced to stable storage'
                   if rr.fsync_fault == 'returned' else 'no fsync of Data.fs was issued'))
    oids, tids = history_oids_tids(hist)
    for n in ('Data.fs.lock',):
        pass
    d, err = L.open_and_dump(root, oids, tids)
    if d is None:
        return ('C01:open-raised:after-fsync-failure', 'after a tpc_finish whose fsync raised, reopening raised ' + err)
    n = len(d['iterator']) if isinstance(d['iterator'], list) else -1
    cb = len(rr.committed)
    if n not in (cb, cb + 1):
        return ('C01:not-a-prefix:after-fsync-failure', 'after a tpc_finish whose fsync raised the reopened file shows '
                '%s transactions, %d commits had returned' % (d['iterator'] if n < 0 else n, cb))
    return None


# ---------------------------------------------------------------- restart with the clock set back
def clock_back_reopen(ctx, ck, tag):
    """the data file (uncrashed, and one crash image) is reopened when the wall clock is BEHIND its last
    transaction (restart after the clock was stepped back), one transaction is committed with a clock tid,
    the file is reopened: transaction ids must keep increasing in commit order and the reopened file must
    show the old transactions plus the new one.  Returns (sig, what) | None"""
    import clock
    from ZODB.FileStorage import FileStorage
    from ZODB.Connection import TransactionMetaData
    from persistent.TimeStamp import TimeStamp
    if len(ctx.txs) == 0:
        return None
    images = [('uncrashed file', ctx.rr.final)]
    votes = [(k, e) for k, e in enumerate(ctx.rr.events) if e[0] == 'write' and e[1] == 'Data.fs' and len(e[3]) > 30]
    if votes:
        k, e = votes[-1]
        img = dict(ctx.rr.init)
        vfs.apply_events(img, ctx.rr.events[:k])
        tmpi = {'Data.fs': img.get('Data.fs', b'')}
        vfs.apply_events(tmpi, [e], nbytes_last=len(e[3]) - 3)
        images.append(('crash image', tmpi['Data.fs']))
    for name, data in images:
        wd = os.path.join(ck.tmp, 'clk-' + tag)
        L.write_dir(wd, {'Data.fs': data})
        path = os.path.join(wd, 'Data.fs')
        try:
            fs = FileStorage(path)
            old = [L.u64(t.tid) for t in fs.iterator()]
            if not old:
                fs.close()
                continue
            with clock.scripted(start=TimeStamp(L.p64(old[-1])).timeTime() - 120.0, step=0.25):
                fs.close()
                fs = FileStorage(path)                  # the restart: clock two minutes behind the last tid
                md = TransactionMetaData(b'', b'after the clock was set back', b'')
                fs.tpc_begin(md)                        # tid from the clock
                fs.store(L.p64(0x5151), L.Z64, b'written after the restart', '', md)
                fs.tpc_vote(md)
                new = L.u64(fs.tpc_finish(md))
                fs.close()
            ck.count('clock-back-reopens')
            if new <= old[-1]:
                return ('C01:tid-not-increasing-after-reopen', '%s reopened with the clock 120 s behind its last transaction: '
                        'the next commit got tid %x, not above the last committed %x (transactions are no longer in '
                        'commit order)' % (name, new, old[-1]))
            fs = FileStorage(path)
            try:
                now = [L.u64(t.tid) for t in fs.iterator()]
                last = L.u64(fs.lastTransaction())
                got = fs.load(L.p64(0x5151), '')
            finally:
                fs.close()
            if now != old + [new] or last != new or got != (b'written after the restart', L.p64(new)):
                return ('C01:not-a-prefix:after-clock-back-reopen', '%s, clock set back, one commit, reopen: transactions %s '
                        '(expected %s), lastTransaction %x' % (name, ['%x' % x for x in now],
                                                               ['%x' % x for x in old + [new]], last))
        except Exception as e:
            return ('C01:open-raised:after-clock-back', '%s reopened with the clock behind its last transaction: %s %s'
                    % (name, L.ename(e), str(e)[:160]))
    return None


def case_of(hist, cut=None):
    return dict(history=hist, cut=cut)


def load_corpus():
    cases = []
    if os.path.isdir(CORPUS):
        for fn in sorted(os.listdir(CORPUS)):
            if fn.endswith('.json'):
                with open(os.path.join(CORPUS, fn)) as f:
                    j = json.load(f)
                cases.append((fn, j.get('case', j)['history']))
                if j.get('case', j).get('cut'):
                    FORCE_CUTS.append(list(j.get('case', j)['cut']))
    return cases


def main(argv=None):
    ck = Check('C01', argv)
    ck.extra['modules'] = ['Props.C01', 'Drivers.Disk']
    ck.run_gate(ck.extra['modules'], ['Props.C01'])
    tier = ck.tier
    pool = int(os.environ.get('VERIF_PROCS', '8' if tier == 'quick' else '16'))
    hists = []
    if ck.replay_path:
        with open(ck.replay_path) as f:
            j = json.load(f)
        hists = [('replay', j['case']['history'])]
        if j['case'].get('cut'):
            FORCE_CUTS.append(list(j['case']['cut']))
        if j['case'].get('fsync_fault'):
            ck.run_gate(ck.extra['modules'], ['Props.C01']) if ck.gate is None else None
            ff = fsync_fault(j['case']['history'], ck, 'replay')
            ck.case(['replay', 'fsync-fault'], True, None)
            if ff:
                ck.violation(ff[0], ff[1], j['case'])
            hists = []
        elif j['case'].get('then'):
            ctx0, v0 = prepare(j['case']['history'], ck.tmp, 'replay0')
            ctx0.tmp = ck.tmp
            if ctx0.rr is not None and hasattr(ctx0, 'ends'):
                if j['case']['then'].get('cut'):
                    FORCE_CUTS.append(list(j['case']['then']['cut']))
                for sig, what, case in double_crash(j['case']['history'], ctx0, ck, 'replay', 1, ck.rng, 'quick',
                                                    forced=(j['case']['cut'], j['case']['then']['history'],
                                                            j['case']['then'].get('then'))):
                    ck.violation(sig, what, case)
            hists = []
    else:
        hists += load_corpus()
        if tier == 'quick':
            profiles = ['small'] * 4 + ['wide'] * 3 + ['big', 'meta', 'wide']
        else:
            profiles = (['small'] * 5 + ['wide'] * 3 + ['big', 'meta']) * 11
        hists += L.boundary_histories()
        for i, p in enumerate(profiles):
            hists.append(('gen%d-%s' % (i, p), L.gen_wide_history(ck.rng) if p == 'wide' else L.gen_history(ck.rng, p)))
    all_lines, expectations = [], []
    for hi, (name, hist) in enumerate(hists):
        limit = None
        if tier == 'quick':
            limit = 480 if len(hists) <= 18 else 400
        if name.startswith('boundary-'):
            limit = (120 if tier == 'quick' else 600) if name != 'boundary-empty' else limit
        res = check_history(hist, ck, 'h%d' % hi, pool, ck.rng, tier, limit)
        ctx = res['ctx']
        for t in hist:
            ck.count('txn:' + t['kind'])
            for op in t['ops']:
                ck.count('op:' + op[0])
        for o in getattr(ctx.rr, 'outcome', None) or []:
            ck.count('outcome:' + o)
        ck.count('cuts', res['ncuts'])
        nsamp = 0
        for cut, v, obs in res.get('results', []):
            sample = None
            if cut[2] and nsamp < 1 and v is None and obs and cut[1] is not None and \
                    (cut[3] >= 1 or len(ctx.rr.committed) <= 1) and cut[1] > 60:
                nsamp += 1
                sample = dict(history=name, transactions=len(hist), commits=len(ctx.rr.committed),
                              cut=dict(raw_event=cut[0], bytes_of_that_write=cut[1]), commits_returned_before_cut=cut[3],
                              recovered_prefix_n=obs.get('n'), pos_after_reopen=obs.get('pos'),
                              data_fs_after_reopen_bytes=obs.get('after_len'))
            ck.case([ctx.hid, cut[0], cut[1]], cut[2], sample)
            if obs.get('n') is not None:
                ck.count('recovered_n=%d' % obs['n'])
            if obs.get('used_index') is not None:
                ck.count('used_index=%s' % obs['used_index'])
        import re as _re

        def listed(sig):
            return any(k.get('status', 'open') == 'open' and _re.fullmatch(k['signature'], sig) for k in ck.known)
        for sig, what, cut in res['violations']:
            import re as _re
            if any(k.get('status', 'open') == 'open' and _re.fullmatch(k['signature'], sig) for k in ck.known):
                ck.violation(sig, what, case_of(hist, cut))          # listed open finding: no need to shrink
                continue
            small, scut, swhat = shrink(hist, sig, ck, cut, what)
            ck.violation(sig, swhat, case_of(small, scut))
        if ctx.rr is not None and not [v for v in res['violations'] if not listed(v[0])] and \
                (ck.replay_path is None) and \
                len(ctx.rr.final) <= 20000 and hi % 2 == 0:
            for sig, what, case in double_crash(hist, ctx, ck, 'h%d' % hi, pool, ck.rng, tier,
                                                levels=2 if (tier == 'thorough' or hi % 6 == 0) else 1):
                ck.violation(sig, what, case)
        if ctx.rr is not None and hasattr(ctx, 'ends') and len(ctx.rr.final) <= 20000:
            cb = clock_back_reopen(ctx, ck, 'h%d' % hi)
            ck.case([ctx.hid, 'clock-back-reopen'], True, None)
            if cb:
                ck.violation(cb[0], cb[1], case_of(hist))
        if ctx.rr is not None and ck.replay_path is None:
            ff = fsync_fault(hist, ck, 'h%d' % hi)
            ck.case([ctx.hid, 'fsync-fault'], True, None)
            if ff:
                def ff_fails(sub, sig=ff[0]):
                    r = fsync_fault(sub, ck, 'shrink')
                    return bool(r) and r[0] == sig
                small = hist
                try:
                    small = ddmin(hist, ff_fails, max_tests=30) if len(hist) > 1 else hist
                    if not ff_fails(small):
                        small = hist
                except Exception:
                    small = hist
                ck.violation(ff[0], ff[1], dict(history=small, fsync_fault=True))
        if res.get('model_error'):
            ck.mismatch(res['model_error'], case_of(hist))
        if res['model'] and not [v for v in res['violations'] if not listed(v[0])]:
            lines, checks, cutchecks, rawchecks = res['model']
            expectations.append((name, hist, len(all_lines), checks, cutchecks, rawchecks))
            all_lines += lines
    for hist_, lines_, checks_ in FSYNC_MODEL:
        expectations.append(('fsync-fault', hist_, len(all_lines), checks_, {}, {}))
        all_lines += lines_
    # ---- model: one driver run for everything
    if all_lines:
        out = run_driver('Disk', all_lines, timeout=1500)
        for name, hist, base, checks, cutchecks, rawchecks in expectations:
            bad = None
            for k, want in sorted(checks.items()):
                if out[base + k] != want:
                    bad = 'model/impl differ at %r: impl %s | model %s' % (
                        all_lines[base + k], want[:300], out[base + k][:300])
                    break
            if bad is None:
                for k, (cut, obs) in sorted(cutchecks.items()):
                    want = 'img len=%d fnv=%s rec n=%d pos=%d ltid=%016x' % (
                        obs['cut_len'], obs['cut_fnv'], obs['n'], obs['pos'], obs['ltid'])
                    tail = 'len=%d fnv=%s' % (obs['after_len'], obs['after_fnv'])
                    got = out[base + k]
                    if not (got.startswith(want + ' how=') and got.endswith(' ' + tail)):
                        bad = 'recover(cut image) differs at cut %s (%r): impl %s … %s | model %s' % (
                            cut[:2], all_lines[base + k], want, tail, got[:300])
                        break
                    ck.count('model_cuts_compared')
            if bad is None:
                for k, want in sorted(rawchecks.items()):
                    got = out[base + k]
                    rec_part = got.split(' rec ', 1)[1] if ' rec ' in got else got
                    if want.startswith('err:'):
                        ok = rec_part == want
                    else:
                        a, b_ = want.split('|')
                        import re as _re
                        ok = _re.sub(r'^n=\d+ ', '', rec_part).startswith(a + ' how=') and rec_part.endswith(' ' + b_)
                    if not ok:
                        bad = 'read_index on a damaged file differs (%r): impl %s | model %s' % (
                            all_lines[base + k], want, rec_part[:200])
                        break
                    ck.count('model_damaged_files_compared')
            if bad:
                ck.mismatch('history %s: %s' % (name, bad), case_of(hist))
    ck.finish(rule='a case = (history, cut); histories of 1-8 two-phase commits (stores of new/existing oids, '
                   'deleteObject, undo, restore with explicit tid/back pointer, abort before/after vote, '
                   'metadata 0..65535 bytes, records straddling 4 KiB/8 KiB) on the real FileStorage; cuts = '
                   'every raw-event boundary, every byte of headers/record headers/trailers, random interior '
                   'bytes (thorough: every byte of every Data.fs write when <= 9000 bytes were written); '
                   'non-trivial = the cut falls strictly inside a vote write or between vote and finish; '
                   'distinct by (history hash, event index, byte offset)',
              assumptions=['crash image = byte-prefix of the ISSUED raw operations (no reordering by the OS)',
                           'generalisation pass: storages built through the constructor and ZODB.config with create=/quota=/'
                           'blob_dir=; oids in many index buckets incl. 0, 2^63, 2^64-1; empty transactions (tl == header '
                           'length) first/between/last; two undo records / two stores per oid; records > 64 KiB after a '
                           'larger transaction; metadata at 65535; EIO/ENOSPC (also short writes) at a raw operation of '
                           'tpc_vote/tpc_finish followed by a retry of the same transaction, by giving up, and by crashes; a '
                           'rival tpc_begin between store and vote; crash while the index is being saved; reopen next to all '
                           'side files of the moment, with options, through copyTransactionsFrom; second and third crash. '
                           'Histories with faults, rivals or create=/quota= are ORACLE-ONLY (no model comparison); fsrecover '
                           'on crash images is left to C17',
                           'besides crash images every history is also read LIVE through the running storage (load through '
                           'the read-file pool while a transaction is voted, after aborts and commits; one loadSerial of a '
                           'back-pointer revision from a second thread while a vote is between its writes): an unfinished '
                           'or aborted transaction must be absent for running readers too, and a reader must not disturb '
                           'the vote; general reader/writer interleavings are C02/C03',
                           'reference states are real FileStorages opened on byte-prefixes of the uncrashed '
                           'file, whose content is checked by an independent pure-Python parser against the '
                           'operations issued',
                           'time-travel `stop=` and fsrecover `recover=1` modes of read_index are not modelled'])


def shrink(hist, sig, ck, cut, what):
    """delta-debug the transaction list; returns (history, cut, what) still showing `sig`"""
    state = {'best': (hist, cut, what)}
    n = [0]

    def fails(sub):
        n[0] += 1
        try:
            r = check_history(sub, ck, 'shrink', 1, ck.rng.__class__(n[0]), 'quick', 400, stop_early=True)
        except Exception:
            return False
        for s, w, c in r['violations']:
            if s == sig:
                state['best'] = (sub, c, w)
                return True
        return False
    if len(hist) > 1:
        try:
            ddmin(hist, fails, max_tests=40)
        except Exception:
            pass
    return state['best']


if __name__ == '__main__':
    try:
        main()
    except InfraError as e:
        print('INFRA-ERROR', e)
        sys.exit(2)
