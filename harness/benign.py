"""Coordinator helper: false-alarm evaluation on behaviour-preserving changes (benign/<id>/{patch.diff,meta.json}).

For each benign change: apply the patch in a scratch worktree of /repo (never in /repo itself), run the
quick check of EVERY property with ZODB_REPO=<worktree>, and record per check: quiet (exit 0), a
`no-failing-input-found` report (a proof/correspondence obligation broke and no failing input exists —
allowed by the interface for a harmless rewrite), or a VIOLATION with a failing input (a false alarm,
if the change really preserves behaviour — to be investigated).  Results go to benign/RESULTS.json.
Not a registered check.

usage: benign.py [--jobs 4] [--props C01,C02] [ids…]
"""
import argparse
import concurrent.futures
import json
import os
import shutil
import subprocess
import sys

VERIF = os.path.dirname(os.path.dirname(os.path.abspath(__file__)))
BENIGN = os.path.join(VERIF, 'benign')
ALL = ['C%02d' % i for i in range(1, 21)]


def sh(cmd, cwd=None, env=None, timeout=3600):
    p = subprocess.run(cmd, cwd=cwd, env=env, capture_output=True, text=True, timeout=timeout)
    return p.returncode, p.stdout + p.stderr


def evaluate(name, props):
    d = os.path.join(BENIGN, name)
    meta = json.load(open(os.path.join(d, 'meta.json')))
    wt = '/tmp/benign-wt-%s' % name
    if os.path.exists(wt):
        sh(['git', '-C', '/repo', 'worktree', 'remove', '--force', wt])
    rc, out = sh(['git', '-C', '/repo', 'worktree', 'add', '--detach', wt, 'HEAD'])
    if rc:
        return dict(name=name, error='worktree: ' + out[-300:])
    res = dict(name=name, title=meta.get('title'), checks={})
    try:
        rc, out = sh(['git', '-C', wt, 'apply', os.path.join(d, 'patch.diff')])
        if rc:
            res['error'] = 'patch does not apply: ' + out[-300:]
            return res
        for p in props:
            rc, out = sh(['./check', p, '--tier', 'quick'], cwd=VERIF,
                         env=dict(os.environ, ZODB_REPO=wt, VERIF_SEED='0', VERIF_OUT=wt + '-out'))
            vio = [l for l in out.splitlines() if l.startswith('VIOLATION')]
            kind = 'quiet' if rc == 0 and not vio else (
                'no-failing-input-found' if vio and vio[0].rstrip().endswith('no-failing-input-found')
                else ('VIOLATION' if vio else 'exit-%d' % rc))
            r = dict(kind=kind, exit=rc)
            if vio:
                try:
                    j = json.load(open(vio[0].split('replay=')[1].split()[0]))
                    r['signature'] = j.get('signature')
                    r['what'] = (j.get('what') or '')[:400]
                except Exception:
                    pass
            if kind.startswith('exit-'):
                r['tail'] = out[-400:]
            res['checks'][p] = r
    finally:
        sh(['git', '-C', '/repo', 'worktree', 'remove', '--force', wt])
        shutil.rmtree(wt, ignore_errors=True)
        shutil.rmtree(wt + '-out', ignore_errors=True)
    return res


def main():
    ap = argparse.ArgumentParser()
    ap.add_argument('--jobs', type=int, default=4)
    ap.add_argument('--props', default='')
    ap.add_argument('ids', nargs='*')
    a = ap.parse_args()
    props = [x for x in a.props.split(',') if x] or ALL
    names = a.ids or sorted(n for n in os.listdir(BENIGN) if os.path.isdir(os.path.join(BENIGN, n)))
    rp = os.path.join(BENIGN, 'RESULTS.json')
    import fcntl
    lock = open(os.path.join(BENIGN, '.results.lock'), 'w')
    with concurrent.futures.ThreadPoolExecutor(a.jobs) as ex:
        for r in ex.map(lambda n: evaluate(n, props), names):
            fcntl.flock(lock, fcntl.LOCK_EX)
            results = json.load(open(rp)) if os.path.exists(rp) else {}
            old = results.get(r['name'], {})
            for p, v in old.get('checks', {}).items():
                r.setdefault('checks', {}).setdefault(p, v)
            results[r['name']] = r
            loud = {p: v['kind'] for p, v in r.get('checks', {}).items() if v['kind'] != 'quiet'}
            print('%-6s %-70s %s' % (r['name'], (r.get('title') or '')[:70], r.get('error') or loud or 'all quiet'))
            sys.stdout.flush()
            with open(rp + '.tmp', 'w') as f:
                json.dump(results, f, indent=1)
            os.replace(rp + '.tmp', rp)
            fcntl.flock(lock, fcntl.LOCK_UN)


if __name__ == '__main__':
    main()
