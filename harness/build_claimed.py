"""setup helper: build the Lean modules the CLAIMED checks use (Props.Cxx, Props.Tie and every
Drivers.X / Props.X mentioned in harness/cxx*.py), not unfinished work of unclaimed properties."""
import glob
import json
import os
import re
import subprocess
import sys

VERIF = os.path.dirname(os.path.dirname(os.path.abspath(__file__)))
LEAN = os.path.join(VERIF, 'lean')


def modules():
    m = json.load(open(os.path.join(VERIF, 'MANIFEST.json')))
    mods = {'Props.Tie'}
    for c in m['checks']:
        pid = c['property_id']
        mods.add('Props.' + pid)
        for f in glob.glob(os.path.join(VERIF, 'harness', pid.lower() + '*.py')):
            src = open(f).read()
            for mm in re.finditer(r"['\"]((?:Drivers|Props)\.[A-Za-z0-9_]+)['\"]", src):
                mods.add(mm.group(1))
            for mm in re.finditer(r"run_driver\(\s*['\"]([A-Za-z0-9_]+)['\"]", src):
                mods.add('Drivers.' + mm.group(1))
    return sorted(x for x in mods if os.path.exists(os.path.join(LEAN, *x.split('.')) + '.lean'))


def main():
    mods = modules()
    print('building', ' '.join(mods))
    p = subprocess.run(['lake', 'build'] + mods, cwd=LEAN)
    if p.returncode != 0:
        for x in mods:       # isolate: one broken module must not keep the others from being built
            subprocess.run(['lake', 'build', x], cwd=LEAN, stdout=subprocess.DEVNULL, stderr=subprocess.DEVNULL)
    sys.exit(0)


if __name__ == '__main__':
    main()
