"""C04 — the storage answers every revision query from the committed history.

Generated histories (stores of new/existing oids, duplicate stores, deleteObject, undo, multi-undo,
restore with explicit tids and prev_txn hints, metadata of lengths 0/1/65535, explicit tids and a
scripted clock that stalls / steps back, close/reopen with and without the saved index) are executed
in lockstep on

  * the REAL storage (FileStorage, MappingStorage, DemoStorage(base=MappingStorage)),
  * the direct oracle  (c04_oracle.History: a plain list of transactions, independent of the model),
  * and the Lean models of FileStorage and MappingStorage through Drivers/FileStore.lean (one driver
    process per worker, `reset` / `m.reset` between cases).

After every transaction all query APIs are compared ([P]); `_pos`, `_ltid` and the oid index are
compared with the model only ([I]).  real != oracle -> shrink -> violation; real == oracle but
real != model -> mismatch."""
import base64
import json
import logging
import multiprocessing
import os
import pickle
import random
import shutil
import signal
import struct
import sys
import tempfile
import time

sys.path.insert(0, os.path.dirname(os.path.abspath(__file__)))
from common import Check, InfraError, run_driver, ddmin, VERIF  # noqa: E402
import c04_oracle as orc  # noqa: E402

MAXTID = 2 ** 64 - 1
logging.disable(logging.CRITICAL)

# storage kinds: fs / map have a Lean model; hexfs / hexmap (ZODB.tests.hexstorage.HexStorage around
# them: record transform), demo (DemoStorage over MappingStorages, optionally pushed once more) and
# demofs (DemoStorage(base=FileStorage, changes=FileStorage)) are judged by the oracle only
KINDS = ('fs', 'map', 'demo', 'hexfs', 'hexmap', 'demofs')
FILE_KINDS = ('fs', 'hexfs', 'demofs')
DEMO_KINDS = ('demo', 'demofs')
MODEL_PREFIX = {'fs': '', 'map': 'm.'}


class Ctx:
    """what the storage of a case can do right now (a demofs case is a plain FileStorage until its
    base is complete)"""

    def __init__(self, kind, real):
        self.kind, self.real = kind, real

    @property
    def fsops(self):       # deleteObject / restore / undo / status / undo log / record_iternext ...
        return self.kind in ('fs', 'hexfs') or (self.kind == 'demofs' and not self.real.wrapped)

    def line(self, text):
        pre = MODEL_PREFIX.get(self.kind)
        return None if pre is None else pre + text


def p64(n):
    return struct.pack('>Q', n)


def u64(b):
    return struct.unpack('>Q', b)[0]


def hx(n):
    return '%016x' % n


# ---------------------------------------------------------------- bytes: descriptors, tokens, display
_EXT0 = len(pickle.dumps({'x': ''}, 3))
# extensions with a SECOND key that collides with a standard key of the dictionaries history() / undoLog() /
# undoInfo() return (there the standard value — taken from the transaction header — must win); the value of 'x'
# is made of a letter of its own per colliding key, so that the shadowed dictionary still identifies the bytes
# Only 'tid' is used: undoLog()/undoInfo() let the extension overwrite their standard keys (`d.update(e)` in
# UndoSearch — the documented shape of those entries), so 'size', 'description', 'user_name', 'time', 'id' would
# change what THEY report on the unchanged code; 'tid' is standard in history() only, which protects its keys.
_EXTK = {'tid': 't'}
_EXTK0 = {k: len(pickle.dumps({'x': '', k: 'q'}, 3)) for k in _EXTK}
_fnv_cache = {}


def fnv32(b):
    h = _fnv_cache.get(b)
    if h is None:
        h = 2166136261
        for x in b:
            h = ((h ^ x) * 16777619) & 0xffffffff
        if len(b) > 64:
            _fnv_cache[b] = h
    return h


def fmt_bytes(b):
    if b is None:
        return 'None'
    if len(b) <= 24:
        return 'B(' + b.hex() + ')'
    return 'B#%d:%08x' % (len(b), fnv32(b))


def tok(b):
    """compact protocol token of a byte string: hex segments and count*byte runs joined by '+'"""
    if not b:
        return '-'
    segs, i, n, lit = [], 0, len(b), bytearray()
    while i < n:
        j = i
        while j < n and b[j] == b[i]:
            j += 1
        if j - i >= 8:
            if lit:
                segs.append(bytes(lit).hex())
                lit = bytearray()
            segs.append('%d*%02x' % (j - i, b[i]))
        else:
            lit += b[i:j]
        i = j
    if lit:
        segs.append(bytes(lit).hex())
    return '+'.join(segs)


def mk_bytes(desc):
    """['d', id, len] record data (never empty, never a loadable pickle); ['m', fill, len] user /
    description; ['e', len] extension: b'' or the pickle of a dict of exactly that length"""
    if desc is None:
        return None
    k = desc[0]
    if k == 'd':
        _, i, n = desc
        n = max(1, n)
        return (b'\x00' + bytes([i % 251 + 1]) * (n - 1))[:n] if n > 1 else bytes([i % 251 + 1])
    if k == 'm':
        return bytes([desc[1]]) * desc[2]
    if k == 'e':
        n = desc[1]
        if len(desc) > 2 and desc[2]:
            key = desc[2]
            if n < _EXTK0[key]:
                return b''
            b = pickle.dumps({'x': _EXTK[key] * (n - _EXTK0[key]), key: 'q'}, 3)
            assert len(b) == n
            return b
        if n < _EXT0:
            return b''
        b = pickle.dumps({'x': 'a' * (n - _EXT0)}, 3)
        assert len(b) == n
        return b
    raise ValueError(desc)


def ext_key(d):
    return repr(sorted(d.items()))


ERRMAP = {'POSKeyError': 'err:KeyError', 'ConflictError': 'err:Conflict', 'UndoError': 'err:Undo',
          'MultipleUndoErrors': 'err:Undo', 'StorageTransactionError': 'err:StorageTransaction',
          'FileStorageError': 'err:FileStorageError', 'FileStorageQuotaError': 'err:Quota', 'TypeError': 'err:TypeError',
          'ValueError': 'err:ValueError', 'KeyError': 'err:KeyError',
          'ReadConflictError': 'err:ReadConflict'}


def errname(e):
    n = type(e).__name__
    return ERRMAP.get(n, 'err:Other(%s)' % n)


def guard(f, *a):
    try:
        return f(*a)
    except AssertionError:
        return 'err:Assertion'
    except Exception as e:  # noqa: BLE001
        return errname(e)


# ---------------------------------------------------------------- canonical answers (shared formatting)
def f_load(r):
    return r if isinstance(r, str) else '%s@%s' % (fmt_bytes(r[0]), hx(r[1]))


def f_before(r):
    if isinstance(r, str):
        return r
    if r is None:
        return 'None'
    return '%s@%s..%s' % (fmt_bytes(r[0]), hx(r[1]), 'None' if r[2] is None else hx(r[2]))


def f_entries(r):
    if isinstance(r, str):
        return r
    return '[' + ';'.join('%s,%s,%s,%s,%d' % (hx(t), fmt_bytes(u), fmt_bytes(d), fmt_bytes(e), sz)
                          for t, u, d, e, sz in r) + ']'


def f_txns(r):
    """r = [(tid, status, u, d, e, [(oid, rtid, data, data_txn)])]"""
    if isinstance(r, str):
        return r
    return '[' + ';'.join(
        '%s,%d,%s,%s,%s{%s}' % (hx(t), ord(st), fmt_bytes(u), fmt_bytes(d), fmt_bytes(e), ','.join(
            '%s:%s:%s' % (hx(o), fmt_bytes(dt), 'None' if dx is None else hx(dx))
            for o, _, dt, dx in recs))
        for t, st, u, d, e, recs in r) + ']tids[' + ';'.join(
        ','.join(hx(rt) for _, rt, _, _ in recs) for _, _, _, _, _, recs in r) + ']'


def f_linv(r):
    if isinstance(r, str):
        return r
    return '[' + ';'.join('%s{%s}' % (hx(t), ','.join(hx(o) for o in os_)) for t, os_ in r) + ']'


def f_walk(acc, term):
    return '[' + ';'.join('%s:%s:%s' % (hx(o), hx(t), fmt_bytes(d)) for o, t, d in acc) + ']' + term


def qall_line(q):
    return 'qall oids=%s bounds=%s serials=%s hsizes=%s windows=%s fwindows=%s swindows=%s iters=%s linv=%s' % (
        ','.join(hx(o) for o in q['oids']), ','.join(hx(b) for b in q['bounds']),
        ','.join(hx(s) for s in q['serials']), ','.join(str(n) for n in q['hsizes']),
        ','.join('%d:%d' % w for w in q['windows']),
        ','.join('%s:%d:%d' % (tok(u), f, l) for u, f, l in q['fwindows']),
        ','.join('%s:%s:%s:%d:%d' % tuple(['*' if x is None else tok(x) for x in (u, d, e)] + [f, l])
                 for u, d, e, f, l in q['swindows']),
        ','.join('%s:%s' % ('None' if a is None else hx(a), 'None' if b is None else hx(b))
                 for a, b in q['iters']),
        ','.join(str(n) for n in q['linv']))


def qall_segments(api, q, fsq):
    """api: object with load/getTid/loadSerial/loadBefore/lastTransaction/history/undoLog/iterator/
    lastInvalidations/recordIter returning python values or 'err:…' strings"""
    segs = ['lastTransaction=' + hx(api.lastTransaction())]
    for o in q['oids']:
        segs.append('load(%s)=%s' % (hx(o), f_load(api.load(o))))
    for o in q['oids']:
        r = api.getTid(o)
        segs.append('getTid(%s)=%s' % (hx(o), r if isinstance(r, str) else hx(r)))
    for o in q['oids']:
        for s in q['serials']:
            r = api.loadSerial(o, s)
            segs.append('loadSerial(%s,%s)=%s' % (hx(o), hx(s), r if isinstance(r, str) else fmt_bytes(r)))
    for o in q['oids']:
        for b in q['bounds']:
            r = api.loadBefore(o, b)
            if r is None and getattr(api, 'fold_absent', False):
                r = 'err:KeyError'
            segs.append('loadBefore(%s,%s)=%s' % (hx(o), hx(b), f_before(r)))
    for o in q['oids']:
        for n in q['hsizes']:
            segs.append('history(%s,%d)=%s' % (hx(o), n, f_entries(api.history(o, n))))
    if fsq:
        for f, l in q['windows']:
            segs.append('undoLog(%d,%d)=%s' % (f, l, f_entries(api.undoLog(f, l))))
        for u, f, l in q['fwindows']:
            segs.append('undoLogF(%s,%d,%d)=%s' % (fmt_bytes(u), f, l, f_entries(api.undoLogF(u, f, l))))
        for u, d, e, f, l in q['swindows']:
            segs.append('undoInfoS(%s,%s,%s,%d,%d)=%s' % (
                '*' if u is None else fmt_bytes(u), '*' if d is None else fmt_bytes(d),
                '*' if e is None else fmt_bytes(e), f, l, f_entries(api.undoInfoS(u, d, e, f, l))))
    for a, b in q['iters']:
        segs.append('iterator(%s,%s)=%s' % ('None' if a is None else hx(a), 'None' if b is None else hx(b),
                                            f_txns(api.iterator(a, b))))
    if fsq:
        for n in q['linv']:
            segs.append('lastInvalidations(%d)=%s' % (n, f_linv(api.lastInvalidations(n))))
        segs.append('recordIter=' + f_walk(*api.recordIter()))
    return segs


# ---------------------------------------------------------------- the oracle as a query API
class OracleAPI:
    def __init__(self, h):
        self.h = h

    def _g(self, f, *a):
        try:
            return f(*a)
        except orc.KeyErr:
            return 'err:KeyError'
        except orc.ValueErr:
            return 'err:ValueError'

    def lastTransaction(self):
        return self.h.lastTransaction()

    def load(self, o):
        return self._g(self.h.load, o)

    def getTid(self, o):
        return self._g(self.h.getTid, o)

    def loadSerial(self, o, s):
        return self._g(self.h.loadSerial, o, s)

    def loadBefore(self, o, b):
        return self._g(self.h.loadBefore, o, b)

    def history(self, o, n):
        return self._g(self.h.history, o, n)

    def undoLog(self, f, l):
        return self.h.undoLog(f, l)

    def undoLogF(self, u, f, l):
        return self.h.undoLogF(u, f, l)

    def undoInfoS(self, u, d, e, f, l):
        return self.h.undoInfoS(u, d, e, f, l)

    def iterator(self, a, b):
        return [(t['tid'], t['status'], t['u'], t['d'], t['e'],
                 [(r[0], t['tid'], r[1], r[2]) for r in t['recs']]) for t in self.h.iterator(a, b)]

    def lastInvalidations(self, n):
        return self.h.lastInvalidations(n)

    def recordIter(self):
        return self.h.recordIter()


# ---------------------------------------------------------------- the real storages
class SpyLock:
    """stands in for a storage's commit lock: tells when somebody starts waiting for it"""

    def __init__(self, inner, arrived):
        self.inner, self.arrived = inner, arrived

    def acquire(self, *a, **k):
        self.arrived.set()
        return self.inner.acquire(*a, **k)

    def release(self):
        return self.inner.release()

    def locked(self):
        return self.inner.locked()

    def __enter__(self):
        return self.acquire()

    def __exit__(self, *a):
        self.release()


class RealBase:
    """query side shared by the three storages; self.st is the storage object"""
    kind = None

    wrapped = False
    db = None
    want_db = False

    def __init__(self):
        self.ext_table = {ext_key({}): b''}

    def lock_owner(self):
        """the object whose _commit_lock tpc_begin waits for"""
        return self.st

    # -- the same storage reached through ZODB.DB (DB.history / DB.undoLog / DB.undoInfo)
    def open_db(self, now):
        """DB(storage): creates the root object in a transaction of its own on first use"""
        import ZODB
        old = time.time
        time.time = lambda: now
        self.want_db = True
        try:
            self.db = ZODB.DB(self.st)
        finally:
            time.time = old

    @staticmethod
    def _text(l):
        return [dict(d, **{k: d[k].decode('utf-8') for k in ('user_name', 'description')
                           if isinstance(d.get(k), bytes)}) for d in l]

    def via_db(self, name, raw, *args):
        """'' or an error marker: the DB entry point must give the storage's answer (as text)"""
        if self.db is None:
            return ''
        try:
            got = list(getattr(self.db, name)(*args))
            return '' if got == self._text(raw) else ' !DB.%s-differs' % name
        except Exception as e:  # noqa: BLE001
            return ' !DB.%s-%s' % (name, type(e).__name__)

    # -- a second thread enters tpc_begin while the transaction in progress holds the commit lock
    def begin_overlapped(self, tid, now, status, u, d, e):
        import threading
        from ZODB.Connection import TransactionMetaData
        self.note_ext(e)
        self.next_txn = TransactionMetaData(u, d, e)
        arrived = threading.Event()
        owner = self._lock_owner = self.lock_owner()
        self._spied = owner._commit_lock
        owner._commit_lock = SpyLock(self._spied, arrived)
        self._old_time = time.time
        if tid is None:
            time.time = lambda: now
        self._holder = holder = {}

        def body():
            holder['r'] = guard(lambda: self._tpc_begin(self.next_txn, tid, status) or 'ok')
        self._thread = threading.Thread(target=body, daemon=True)
        self._thread.start()
        holder['arrived'] = arrived.wait(10.0)

    def begin_overlapped_join(self):
        self._thread.join(30.0)
        time.time = self._old_time
        self._lock_owner._commit_lock = self._spied
        r = self._holder.get('r', 'err:tpc_begin-did-not-return')
        self.txn = self.next_txn
        return '%s tid=%s' % (r, hx(u64(self._cur_tid())))

    def note_ext(self, e):
        if e:
            d = pickle.loads(e)
            self.ext_table[ext_key(d)] = e
            # (a key of the extension that is also a standard key of history() / undoLog() entries is shadowed there
            # by the value from the transaction header: the rest of the dictionary identifies the bytes)
            for std in (('time', 'user_name', 'description', 'tid', 'size'),
                        ('time', 'user_name', 'description', 'id', 'size')):
                f = {k: v for k, v in d.items() if k not in std}
                if f != d:
                    self.ext_table.setdefault(ext_key(f), e)

    def ext_of(self, d):
        return self.ext_table.get(ext_key(d), ('?' + ext_key(d)).encode())

    def lastTransaction(self):
        try:
            return u64(self.st.lastTransaction())
        except Exception:  # noqa: BLE001
            return MAXTID

    def load(self, o):
        def f():
            d, t = self.st.load(p64(o), '')
            return d, u64(t)
        return guard(f)

    def getTid(self, o):
        return guard(lambda: u64(self.st.getTid(p64(o))))

    def loadSerial(self, o, s):
        return guard(lambda: self.st.loadSerial(p64(o), p64(s)))

    def loadBefore(self, o, b):
        def f():
            r = self.st.loadBefore(p64(o), p64(b))
            if r is None:
                return None
            return r[0], u64(r[1]), (None if r[2] is None else u64(r[2]))
        return guard(f)

    def iterator(self, a, b):
        def f():
            it = self.st.iterator(None if a is None else p64(a), None if b is None else p64(b))
            out = []
            try:
                for t in it:
                    recs = [(u64(r.oid), u64(r.tid), r.data, None if r.data_txn is None else u64(r.data_txn))
                            for r in t]
                    ext = getattr(t, 'extension_bytes', None)
                    if not isinstance(ext, bytes):
                        ext = self.ext_of(t.extension)
                    out.append((u64(t.tid), t.status, t.user, t.description, ext, recs))
            finally:
                if hasattr(it, 'close'):
                    it.close()
            return out
        return guard(f)


class RealFS(RealBase):
    """FileStorage (kind fs), HexStorage around it (hexfs), or the two layers of a
    DemoStorage(base=FileStorage, changes=FileStorage) (demofs), constructed directly or through
    ZODB.config, with default or explicit option values"""
    kind = 'fs'

    def __init__(self, tmp, kind='fs', ctor='direct', quota=None):
        RealBase.__init__(self)
        self.kind, self.ctor, self.quota = kind, ctor, quota
        self.nopen = 0
        self.dir = tempfile.mkdtemp(dir=tmp)
        self.path = os.path.join(self.dir, 'Data.fs')
        self.path2 = os.path.join(self.dir, 'Changes.fs')
        self.raw = self.open_fs(self.path, first=True)
        self.st = self.wrap(self.raw)
        self.txn = None

    def open_fs(self, path, first=False, read_only=False):
        """one FileStorage, by the construction path of this case; booleans that must not matter
        are given explicitly and alternate between opens"""
        from ZODB.FileStorage import FileStorage
        import ZODB.config
        self.nopen += 1
        flip = bool(self.nopen % 2)
        tf = {True: 'true', False: 'false'}
        if self.ctor == 'direct':
            return FileStorage(path, read_only=True) if read_only else FileStorage(path)
        if self.ctor == 'direct-opts':
            return FileStorage(path, create=first and not read_only, read_only=read_only, quota=self.quota,
                               pack_gc=flip, pack_keep_old=not flip)
        if self.ctor == 'config':
            return ZODB.config.storageFromString(
                '<filestorage>\npath %s\n%s</filestorage>' % (path, 'read-only true\n' if read_only else ''))
        if self.ctor == 'config-opts':
            return ZODB.config.storageFromString(
                '<filestorage>\npath %s\ncreate %s\nread-only %s\n%spack-gc %s\npack-keep-old %s\n'
                '</filestorage>' % (path, tf[first and not read_only], tf[read_only],
                                    '' if self.quota is None else 'quota %d\n' % self.quota,
                                    tf[flip], tf[not flip]))
        raise ValueError(self.ctor)

    def wrap(self, raw):
        if self.kind == 'hexfs':
            from ZODB.tests.hexstorage import HexStorage
            return HexStorage(raw)
        return raw

    def lock_owner(self):
        return self.st if self.wrapped else self.raw

    def wrap_demo(self, read_only_base=True):
        """the FileStorage so far becomes the base of a DemoStorage with a new FileStorage for the
        changes (through <demostorage> when the case is constructed by ZODB.config)"""
        from ZODB.DemoStorage import DemoStorage
        import ZODB.config
        if self.db is not None:
            self.db.close()
        else:
            self.st.close()
        if self.ctor.startswith('config'):
            self.st = ZODB.config.storageFromString(
                '<demostorage>\n<filestorage base>\npath %s\nread-only true\n</filestorage>\n'
                '<filestorage changes>\npath %s\n</filestorage>\n</demostorage>' % (self.path, self.path2))
        else:
            base = self.open_fs(self.path, read_only=True)
            self.st = DemoStorage(base=base, changes=self.open_fs(self.path2, first=not os.path.exists(self.path2)))
        self.raw = self.st.changes
        self.wrapped = True

    def close(self):
        try:
            if self.db is not None:
                self.db.close()
            else:
                self.st.close()
        except Exception:  # noqa: BLE001
            pass
        shutil.rmtree(self.dir, ignore_errors=True)

    # -- 2PC
    def _tpc_begin(self, txn, tid, status):
        if self.wrapped:
            kw = {} if tid is None else {'tid': p64(tid)}
            if status != ' ':
                kw['status'] = status
            self.st.tpc_begin(txn, **kw)
        else:
            self.st.tpc_begin(txn, None if tid is None else p64(tid), status)

    def _cur_tid(self):
        return self.raw._tid

    def begin(self, tid, now, status, u, d, e):
        from ZODB.Connection import TransactionMetaData
        self.note_ext(e)
        self.txn = TransactionMetaData(u, d, e)

        def f():
            old = time.time
            if tid is None:
                time.time = lambda: now
            try:
                self._tpc_begin(self.txn, tid, status)
            finally:
                time.time = old
            return 'ok'
        r = guard(f)
        return '%s tid=%s' % (r, hx(u64(self._cur_tid())))

    def store(self, oid, serial, data):
        return guard(lambda: self.st.store(p64(oid), p64(serial), data, '', self.txn) and 'ok' or 'ok')

    def delete(self, oid, serial):
        return guard(lambda: self.st.deleteObject(p64(oid), p64(serial), self.txn) and 'ok' or 'ok')

    def restore(self, oid, serial, data, prev):
        return guard(lambda: self.st.restore(p64(oid), p64(serial), data, '',
                                             None if prev is None else p64(prev), self.txn) and 'ok' or 'ok')

    def undo(self, tid):
        return guard(lambda: self.st.undo(base64.encodebytes(p64(tid)).rstrip(), self.txn) and 'ok')

    def vote(self):
        return guard(lambda: self.st.tpc_vote(self.txn) and 'ok' or 'ok')

    def finish(self):
        return guard(lambda: 'ok tid=' + hx(u64(self.st.tpc_finish(self.txn))))

    def abort(self):
        return guard(lambda: self.st.tpc_abort(self.txn) and 'ok' or 'ok')

    def reopen(self, mode):
        """close and open again: 'keep' the saved index, 'drop' it (full scan), 'stale' = put back the
        index file as it was before this close (older than the data file), 'ro' = open read-only"""
        def f():
            idx = self.path2 + '.index' if self.wrapped else self.path + '.index'
            stale = None
            if mode == 'stale' and os.path.exists(idx):
                with open(idx, 'rb') as fh:
                    stale = fh.read()
            if self.db is not None:
                self.db.close()
                self.db = None
            else:
                self.st.close()
            if mode == 'drop' and os.path.exists(idx):
                os.remove(idx)
            if stale is not None:
                with open(idx, 'wb') as fh:
                    fh.write(stale)
            if self.wrapped:
                self.wrapped = False
                self.wrap_demo()
            else:
                self.raw = self.open_fs(self.path, read_only=(mode == 'ro'))
                self.st = self.wrap(self.raw)
            if self.want_db:
                self.open_db(0.0)
            return 'ok'
        return guard(f)

    def state(self):
        def f():
            ix = sorted((u64(k), v) for k, v in self.raw._index.items())
            return 'pos=%d ltid=%s index=[%s]' % (self.raw._pos, hx(u64(self.raw._ltid)),
                                                  ','.join('%s:%d' % (hx(k), v) for k, v in ix))
        return guard(f)

    # -- queries special to FileStorage
    def history(self, o, n):
        def f():
            out = []
            raw = self.st.history(p64(o), n)
            for d in raw:
                ext = {k: v for k, v in d.items()
                       if k not in ('time', 'user_name', 'description', 'tid', 'size')}
                out.append((u64(d['tid']), d['user_name'], d['description'], self.ext_of(ext), d['size']))
            m = self.via_db('history', raw, p64(o), n)
            return ('err:' + m.strip()) if m else out
        return guard(f)

    def undoLog(self, first, last):
        def conv(l):
            out = []
            for d in l:
                ext = {k: v for k, v in d.items()
                       if k not in ('time', 'user_name', 'description', 'id', 'size')}
                out.append((u64(base64.decodebytes(d['id'] + b'\n')), d['user_name'], d['description'],
                            self.ext_of(ext), d['size']))
            return out

        def f():
            r = conv(self.st.undoLog(first, last))
            if last > first and conv(self.st.undoLog(first, -(last - first))) != r:
                return 'err:negative-last-differs'
            if conv(self.st.undoInfo(first, last)) != r:
                return 'err:undoInfo-differs'
            m = (self.via_db('undoLog', self.st.undoLog(first, last), first, last) or
                 self.via_db('undoInfo', self.st.undoLog(first, last), first, last))
            return ('err:' + m.strip()) if m else r
        return guard(f)

    def undoLogF(self, user, first, last):
        """undoLog with a filter on the user name, and the same through undoInfo's specification"""
        def ids(l):
            return [(u64(base64.decodebytes(d['id'] + b'\n')), d['user_name'], d['description'],
                     self.ext_of({k: v for k, v in d.items()
                                  if k not in ('time', 'user_name', 'description', 'id', 'size')}), d['size'])
                    for d in l]

        def f():
            r = ids(self.st.undoLog(first, last, lambda d: d['user_name'] == user))
            if last > first and ids(self.st.undoLog(first, -(last - first),
                                                    lambda d: d['user_name'] == user)) != r:
                return 'err:negative-last-differs'
            if ids(self.st.undoInfo(first, last, {'user_name': user})) != r:
                return 'err:undoInfo-specification-differs'
            return r
        return guard(f)

    def undoInfoS(self, u, d, e, first, last):
        """undoInfo with a specification of one to three keys: user_name, description and the
        extension key 'x' (e = extension bytes, the pickle of {'x': value})"""
        def f():
            spec = {}
            if u is not None:
                spec['user_name'] = u
            if d is not None:
                spec['description'] = d
            if e is not None:
                spec['x'] = pickle.loads(e)['x']
            m = self.via_db('undoInfo', self.st.undoInfo(first, last, spec), first, last, spec)
            if m:
                return 'err:' + m.strip()
            return [(u64(base64.decodebytes(x['id'] + b'\n')), x['user_name'], x['description'],
                     self.ext_of({k: v for k, v in x.items()
                                  if k not in ('time', 'user_name', 'description', 'id', 'size')}), x['size'])
                    for x in self.st.undoInfo(first, last, spec)]
        return guard(f)

    def lastInvalidations(self, n):
        return guard(lambda: [(u64(t), [u64(o) for o in os_]) for t, os_ in self.st.lastInvalidations(n)])

    def recordIter(self):
        acc, nxt = [], None
        for _ in range(1000):
            try:
                oid, tid, data, nxt = self.st.record_iternext(nxt)
            except Exception as e:  # noqa: BLE001
                return acc, errname(e)
            acc.append((u64(oid), u64(tid), data))
            if nxt is None:
                return acc, 'end'
        return acc, 'more'


class RealMap(RealBase):
    """MappingStorage (map), HexStorage around it (hexmap), or DemoStorage over a MappingStorage base
    that received the first `base_n` transactions directly, optionally pushed once more (demo)"""

    def __init__(self, kind):
        RealBase.__init__(self)
        from ZODB.MappingStorage import MappingStorage
        self.kind = kind
        self.st = MappingStorage()
        if kind == 'hexmap':
            from ZODB.tests.hexstorage import HexStorage
            self.st = HexStorage(self.st)
        self.txn = None

    def lock_owner(self):
        return self.st.base if self.kind == 'hexmap' else self.st

    def wrap_demo(self):
        from ZODB.DemoStorage import DemoStorage
        from ZODB.MappingStorage import MappingStorage
        self.st = DemoStorage(base=self.st, changes=MappingStorage())
        self.wrapped = True

    def push(self):
        """one more layer: DemoStorage.push() with a fresh MappingStorage for the changes"""
        self.st = self.st.push()

    def close(self):
        if self.db is not None:
            try:
                self.db.close()
            except Exception:  # noqa: BLE001
                pass

    def _tpc_begin(self, txn, tid, status):
        if tid is None:
            self.st.tpc_begin(txn)
        else:
            self.st.tpc_begin(txn, p64(tid))

    def _cur_tid(self):
        st = self.st.base if self.kind == 'hexmap' else self.st
        return getattr(st, 'changes', st)._tid

    def begin(self, tid, now, status, u, d, e):
        from ZODB.Connection import TransactionMetaData
        self.note_ext(e)
        self.txn = TransactionMetaData(u, d, e)

        def f():
            old = time.time
            if tid is None:
                time.time = lambda: now
            try:
                self._tpc_begin(self.txn, tid, status)
            finally:
                time.time = old
            return 'ok'
        r = guard(f)
        return '%s tid=%s' % (r, hx(u64(self._cur_tid())))

    def store(self, oid, serial, data):
        return guard(lambda: self.st.store(p64(oid), p64(serial), data, '', self.txn) and 'ok' or 'ok')

    def vote(self):
        return guard(lambda: self.st.tpc_vote(self.txn) and 'ok' or 'ok')

    def finish(self):
        return guard(lambda: 'ok tid=' + hx(u64(self.st.tpc_finish(self.txn))))

    def abort(self):
        return guard(lambda: self.st.tpc_abort(self.txn) and 'ok' or 'ok')

    def history(self, o, n):
        def f():
            raw = self.st.history(p64(o), n)
            m = self.via_db('history', raw, p64(o), n)
            if m:
                return 'err:' + m.strip()
            return [(u64(d['tid']), d['user_name'], d['description'], self.ext_of(d['extension']), d['size'])
                    for d in raw]
        return guard(f)


# ---------------------------------------------------------------- lockstep execution of one case
def query_args(h, rng_q, full, extra_oids):
    tids = [t['tid'] for t in h.txns]
    oids = sorted(set(h.oids()) | set(extra_oids))
    unknown = [o for o in (7, 8, 9, 11, 12, 13, 14, 15, 18, 19, 20, 21) if o not in oids][0]
    oids = oids + [unknown]
    n = len(tids)
    users = []
    for t in h.txns[::-1]:
        if t['u'] not in users:
            users.append(t['u'])
    users = users[:3 if full else 1] + [b'\x7fnobody']
    fw = [(0, 20), (0, 1), (1, 3), (0, 2), (2, 5)] if full else [(0, 2), (1, 3)]
    fwindows = [(u, f, l) for u in users for f, l in fw]
    # undoInfo specifications with one to three keys, taken from committed transactions and MIXED
    # between them (so that transactions match some but not all of the requested metadata)
    recent = h.txns[::-1][:6 if full else 3]
    specs = []
    for i, t in enumerate(recent):
        o = recent[(i + 1) % len(recent)]
        for sp in ((t['u'], t['d'], None), (t['u'], o['d'], None), (t['u'], None, t['e'] or None),
                   (o['u'], t['d'], t['e'] or None), (None, t['d'], o['e'] or None)):
            if sum(x is not None for x in sp) >= 2 and sp not in specs:
                specs.append(sp)
    specs = specs[:10 if full else 3]
    swindows = [sp + w for sp in specs for w in ([(0, 20), (0, 2), (1, 3)] if full else [(0, 20), (1, 3)])]
    if full:
        bset = {0, MAXTID}
        for t in tids:
            bset |= {max(t - 1, 0), t, min(t + 1, MAXTID)}
        bounds = sorted(bset)
        serials = tids + [tids[-1] + 1 if tids else 5]
        hsizes = list(range(1, n + 2))
        windows = [(0, 20), (0, 1), (1, 3), (2, 2), (0, n), (max(n - 1, 0), n + 5), (3, 1), (0, 0)]
        iters = [(None, None)] + [(b, None) for b in bounds] + [(None, b) for b in bounds]
        for _ in range(6):
            a, b = rng_q.choice(bounds), rng_q.choice(bounds)
            iters.append((a, b))
        linv = [0, 1, 2, n, n + 1]
    else:
        last = tids[-2:]
        bset = {0, MAXTID}
        for t in last:
            bset |= {max(t - 1, 0), t, min(t + 1, MAXTID)}
        bounds = sorted(bset)
        serials = tids[-3:] + [tids[-1] + 1 if tids else 5]
        hsizes = [1, n + 1]
        windows = [(0, 20), (1, 2)]
        iters = [(None, None)]
        if tids:
            iters += [(tids[-1], None), (None, max(tids[-1] - 1, 0))]
        linv = [1, 3]
    return dict(oids=oids, bounds=bounds, serials=serials, hsizes=hsizes, windows=windows, iters=iters,
                linv=linv, fwindows=fwindows, swindows=swindows)


class Run:
    """result of executing one case: parallel lists of (model line | None, real obs, oracle obs | None)"""

    def __init__(self):
        self.lines, self.real, self.orc = [], [], []
        self.nontrivial = False
        self.first_short = False
        self.counts = {}

    def add(self, line, real, oracle):
        self.lines.append(line)
        self.real.append(real)
        self.orc.append(oracle)

    def count(self, k, n=1):
        self.counts[k] = self.counts.get(k, 0) + n


def now_raw(now):
    from persistent.timestamp import TimeStamp
    return u64(TimeStamp(*(time.gmtime(now)[:5] + (now % 60,))).raw())


_ROOT = {}


def root_pickle():
    """the record DB(storage) writes for the root object (computed once on a scratch storage)"""
    if 'd' not in _ROOT:
        import ZODB
        from ZODB.MappingStorage import MappingStorage
        m = MappingStorage()
        db = ZODB.DB(m)
        _ROOT['d'] = m.load(p64(0), '')[0]
        db.close()
    return _ROOT['d']


def make_real(case, tmp):
    kind = case['kind']
    if kind in FILE_KINDS:
        return RealFS(tmp, kind, case.get('ctor', 'direct'), case.get('quota'))
    return RealMap(kind)


def execute(case, tmp, full_every=False):
    """run one case to its end"""
    g = execute_steps(case, tmp, full_every)
    while True:
        try:
            next(g)
        except StopIteration as e:
            return e.value


def execute_pair(a, b, tmp, full_every=False):
    """two storages alive in one process, their transactions (and two-phase commits) interleaved"""
    gens = [execute_steps(a, tmp, full_every), execute_steps(b, tmp, full_every)]
    runs = [None, None]
    turn = random.Random(a.get('qseed', 0) * 31 + b.get('qseed', 0))
    try:
        while any(r is None for r in runs):
            i = turn.choice([k for k in (0, 1) if runs[k] is None])
            try:
                next(gens[i])
            except StopIteration as e:
                runs[i] = e.value
    finally:
        for g in gens:
            g.close()
    return runs


def execute_steps(case, tmp, full_every=False):
    """generator: yields where another storage of the same process may take a turn"""
    kind = case['kind']
    full_every = full_every or bool(case.get('full'))
    run = Run()
    h = orc.History(dedupe=kind in ('map', 'hexmap', 'demo'),
                    xlen=(lambda n: 2 + 2 * n) if kind in ('hexfs', 'hexmap') else None)
    api = OracleAPI(h)
    real = make_real(case, tmp)
    ctx = Ctx(kind, real)
    rq = random.Random(case.get('qseed', 0))
    touched = set()
    run.count('ctor:' + case.get('ctor', 'direct')) if kind in FILE_KINDS else None
    try:
        run.add(ctx.line('reset'), 'ok', 'ok')
        txns = case['txns']
        base_n = case.get('base_n', 0) if kind in DEMO_KINDS else 0
        push_n = case.get('push_n', 0) if kind == 'demo' else 0
        if kind in DEMO_KINDS and base_n == 0:
            real.wrap_demo()
            if kind == 'demofs':
                real.fold_absent = api.fold_absent = True
        if case.get('viadb') and kind in ('fs', 'map'):
            # the storage is also reached through a DB: its first open commits the root object
            now0 = case.get('dbnow', 1_500_000_000.0)
            real.open_db(now0)
            desc, data = b'initial database creation', root_pickle()
            tid = real.lastTransaction()
            good = 'ok tid=' + hx(tid)
            run.add(ctx.line('begin n:%s 32 - %s -' % (hx(now_raw(now0)), tok(desc))) if kind == 'fs' else
                    ctx.line('begin n:%s - %s -' % (hx(now_raw(now0)), tok(desc))), good, good)
            run.add(ctx.line('store %s %s %s' % (hx(0), hx(0), tok(data))), 'ok', 'ok')
            if kind == 'fs':
                run.add('vote', 'ok', 'ok')
            run.add(ctx.line('finish'), good, good)
            h.begin(tid, ' ', b'', desc, b'')
            h.store(0, 0, data)
            h.finish()
            run.count('viadb')
        begun = None
        ti = 0
        retried = set()
        while ti < len(txns):
            txn = txns[ti]
            in_base = kind in DEMO_KINDS and ti + 1 <= base_n
            nxt = None
            if txn.get('overlap') and ti + 1 < len(txns) and not in_base and ti + 1 != push_n:
                nxt = txns[ti + 1]
            if txn.get('fresh') and ctx.fsops and begun is None:
                # a freshly opened storage: no pooled read handle exists yet, the first reads will
                # happen while this transaction is voted
                run.add(ctx.line('reopen'), real.reopen('keep'), 'ok')
                run.count('reopen:fresh-before-txn')
            aborted, begun, failed = yield from _run_txn(
                ctx, txn, real, h, run, touched, begun=begun, overlap_next=nxt,
                midq=(lambda: _queries(ctx, real, h, api, run, rq, False, touched))
                if kind in FILE_KINDS and not in_base else None)
            if kind in DEMO_KINDS and ti + 1 == base_n:
                real.wrap_demo()
            if kind == 'demofs' and real.wrapped:
                # over a FileStorage base that may hold deletions DemoStorage answers None where the
                # history says "deleted" (POSKeyError); readers treat both alike: not distinguished
                real.fold_absent = api.fold_absent = True
            if push_n and ti + 1 == push_n and begun is None:
                real.push()
                run.count('demo:pushed')
            last = ti + 1 == len(txns)
            if not (kind in DEMO_KINDS and ti + 1 < base_n):
                _queries(ctx, real, h, api, run, rq, last or full_every, touched)
            mode = txn.get('reopen')
            if mode and kind in FILE_KINDS and begun is None and not (kind == 'demofs' and ti + 1 == base_n):
                run.add(ctx.line('reopen'), real.reopen(mode), 'ok')
                run.count('reopen:' + mode)
                _queries(ctx, real, h, api, run, rq, last or full_every, touched)
                if mode == 'ro':
                    # the read-only instance has answered; back to a writable one
                    run.add(ctx.line('reopen'), real.reopen('keep'), 'ok')
            yield
            if failed is not None and begun is None and ti not in retried and rq.random() < 0.6:
                # failure, then the SAME kind of operation again: the transaction is retried
                # without the operation that failed
                retried.add(ti)
                txns = txns[:ti + 1] + [dict(txn, ops=[o for k, o in enumerate(txn['ops']) if k != failed],
                                             reopen=None, overlap=False, fresh=False)] + txns[ti + 1:]
                if base_n > ti:
                    base_n += 1
                if push_n > ti:
                    push_n += 1
                run.count('retry-after-failure')
            ti += 1
        # executed-trace facts for the non-triviality rule
        backptr = any(r[2] is not None or r[1] is None for t in h.txns for r in t['recs'])
        deep = any(len(h.revs(o)) >= 3 for o in h.oids())
        run.nontrivial = backptr and deep
        t0 = h.txns[0] if h.txns else None
        run.first_short = bool(t0) and not t0['recs'] and len(t0['u']) + len(t0['d']) + len(t0['e']) < 4
        run.count('txns-committed', len(h.txns))
        run.count('records:shared', sum(1 for t in h.txns for r in t['recs'] if r[2] is not None))
        run.count('records:uncreate', sum(1 for t in h.txns for r in t['recs'] if r[1] is None))
        run.count('records:shared-2hop', sum(
            1 for t in h.txns for r in t['recs']
            if r[2] is not None and (h.rec_in(r[2], r[0]) or (0, 0, None))[2] is not None))
        run.count('txns:duplicate-oid', sum(
            1 for t in h.txns if len({r[0] for r in t['recs']}) < len(t['recs'])))
    finally:
        real.close()
    return run


def _queries(ctx, real, h, api, run, rq, full, touched):
    if ctx.kind == 'fs':
        run.add('state', real.state(), None)
    q = query_args(h, rq, full, touched)
    rs = qall_segments(real, q, ctx.fsops)
    os_ = qall_segments(api, q, ctx.fsops)
    run.add(ctx.line(qall_line(q)), ' | '.join(rs), ' | '.join(os_))
    run.count('queries', len(rs))


def _begin_args(ctx, txn, ltid):
    u, d, e = mk_bytes(txn['u']), mk_bytes(txn['d']), mk_bytes(txn['e'])
    status = txn.get('status', ' ') if ctx.fsops else ' '
    if txn['tid'][0] == 'x':
        tid = ltid + txn['tid'][1]
        if tid & 0xffffffff == 0xffffffff:
            tid += 1
        tid = min(tid, MAXTID - 2)
        now = None
        t = 't:' + hx(tid)
    else:
        tid, now = None, txn['tid'][1]
        t = 'n:' + hx(now_raw(now))
    return dict(tid=tid, now=now, status=status, u=u, d=d, e=e,
                line='begin %s %d %s %s %s' % (t, ord(status), tok(u), tok(d), tok(e)),
                mline='m.begin %s %s %s %s' % (t, tok(u), tok(d), tok(e)))


def _run_txn(ctx, txn, real, h, run, touched, begun=None, overlap_next=None, midq=None):
    """one transaction.  `begun` = (args, observation) when its tpc_begin was already entered by a
    second thread while the previous transaction was in progress; `overlap_next` = the next
    transaction, whose tpc_begin is to be entered that way before this one finishes.
    Generator (yields where another storage may take a turn); returns (aborted,
    begun-for-the-next-transaction | None, index of the operation that failed | None)."""
    kind = ctx.kind
    if begun is None:
        a = _begin_args(ctx, txn, h.ltid())
        robs = real.begin(a['tid'], a['now'], a['status'], a['u'], a['d'], a['e'])
    else:
        a, robs = begun
    u, d, e, status = a['u'], a['d'], a['e'], a['status']
    run.count('begin:explicit' if a['tid'] is not None else 'begin:clock')
    rtid = int(robs.split('tid=')[1], 16)
    toolong = kind in FILE_KINDS and max(len(u), len(d), len(e)) > 65535
    oobs = ('err:FileStorageError' if toolong else 'ok') + ' tid=' + hx(rtid)
    run.add(a['line'] if kind == 'fs' else a['mline'] if kind == 'map' else None, robs, oobs)
    run.count('meta-len:%d' % max(len(u), len(d), len(e)) if max(len(u), len(d), len(e)) in (0, 1, 65535, 65536)
              else 'meta-len:other')
    h.begin(rtid, status, u, d, e)
    ok = robs.startswith('ok')
    failed = None
    if ok:
        for k, op in enumerate(txn['ops']):
            r = _run_op(ctx, op, real, h, run, rtid, touched)
            if r == 'abort':
                ok = False
                failed = k
                break
    b = None
    if overlap_next is None:
        yield          # begun, stored, not voted: the other storage may run its own two-phase commit
    if overlap_next is not None:
        # the next transaction's tpc_begin arrives now, from a second thread; it has to wait for the
        # commit lock and must get its tid only after this transaction is finished
        b = _begin_args(ctx, overlap_next, max(rtid, h.ltid()))
        real.begin_overlapped(b['tid'], b['now'], b['status'], b['u'], b['d'], b['e'])
        run.count('begin:overlapped')
        if real._holder.get('arrived'):
            run.count('begin:overlapped:waited-for-commit-lock')
    end = txn.get('end', 'commit')
    if ok and end == 'abort-voted' and ctx.fsops:
        # voted, queried (the pooled read handles now hold the voted bytes), then aborted: the next
        # transaction is written over the same file region
        run.add(ctx.line('vote'), real.vote(), 'ok')
        if midq is not None:
            midq()
            run.count('queries:while-voted')
        # one more ordinary read while the commit is pending: the oldest record, so that the pooled
        # read handle buffers the file from its beginning up to and including the voted bytes
        first = next(((r[0], t['tid']) for t in h.txns for r in t['recs'] if r[1] is not None), None)
        if first is not None:
            real.loadBefore(first[0], first[1] + 1)
        run.count('abort:after-vote')
        ok = False
    if ok and end == 'commit':
        run.add('vote' if kind == 'fs' else None, real.vote(), 'ok')
        if overlap_next is None:
            yield      # voted, not finished
        if midq is not None:
            # voted, not finished: the file ends with the complete record, checkpoint flag set;
            # every answer (the iterator reads the file!) is still that of the committed history
            midq()
            run.count('queries:while-voted')
        robs = real.finish()
        # the property: transaction ids strictly increase in commit order
        good = robs.startswith('ok tid=') and int(robs.split('tid=')[1], 16) == rtid and rtid > h.ltid()
        run.add(ctx.line('finish'), robs, robs if good else 'ok tid=<above %s>' % hx(h.ltid()))
        h.finish()
        run.count('commit')
        aborted = False
    else:
        run.add(ctx.line('abort'), real.abort(), 'ok')
        h.abort()
        run.count('abort')
        aborted = True
    return aborted, ((b, real.begin_overlapped_join()) if b is not None else None), failed


def _run_op(ctx, op, real, h, run, tid, touched):
    name = op[0]
    kind = ctx.kind
    if name == 'store':
        _, oid, smode, dd = op
        data = mk_bytes(dd)
        cur = h.current_tid(oid)
        serial = cur if smode == 'cur' else (cur + 1 if smode == 'bad' else 0)
        touched.add(oid)
        if kind in DEMO_KINDS and real.wrapped and smode != 'cur':
            serial = cur            # DemoStorage resolves against load_current: keep it conflict free
        robs = real.store(oid, serial, data)
        if robs == 'err:Quota' and real.quota is not None:
            # FileStorage(quota=...) refuses a record beyond the quota: nothing of it is committed
            run.add(None, robs, None)
            run.count('store:quota-exceeded')
            return 'abort'
        run.add(ctx.line('store %s %s %s' % (hx(oid), hx(serial), tok(data))), robs, h.store(oid, serial, data))
        run.count('op:store')
        if len(data) > 65536:
            run.count('data>64K')
        return robs
    if not ctx.fsops:
        return 'skip'
    if name == 'delete':
        _, oid, smode = op
        cur = h.current_tid(oid)
        serial = cur if smode == 'cur' else cur + 1
        touched.add(oid)
        robs = real.delete(oid, serial)
        if robs == 'err:Quota' and real.quota is not None:
            run.add(None, robs, None)
            run.count('store:quota-exceeded')
            return 'abort'
        run.add(ctx.line('delete %s %s' % (hx(oid), hx(serial))), robs, h.delete(oid, serial))
        run.count('op:delete')
        return robs
    if name == 'restore':
        _, oid, dd, pref = op
        touched.add(oid)
        committed = [t['tid'] for t in h.txns]
        if dd == 'copy':
            # copy the record transaction number pref wrote for the oid (as copyTransactionsFrom does)
            if not committed:
                return 'skip'
            prev = committed[pref % len(committed)]
            r = h.rec_in(prev, oid)
            if r is None:
                data, prev = mk_bytes(['d', oid + 7, 5]), prev
            else:
                data = r[1]
        else:
            data = None if dd is None else mk_bytes(dd)
            if pref is None:
                prev = None
            elif pref == 'missing':
                prev = (committed[-1] + 9) if committed else 9
            else:
                if not committed:
                    prev = None
                else:
                    prev = committed[pref % len(committed)]
                    r = h.rec_in(prev, oid)
                    # an untruthful hint naming a record that carries no bytes of its own would be
                    # trusted ("Gotta trust it"): outside restore's contract, not generated
                    if r is not None and (r[2] is not None or r[1] is None) and r[1] != data:
                        prev = None
                    if r is not None and data is None and r[1] is not None:
                        prev = None     # len(None): TypeError in _data_find, nothing to learn
        robs = real.restore(oid, tid, data, prev)
        run.add(ctx.line('restore %s %s %s %s' % (hx(oid), hx(tid), 'None' if data is None else tok(data),
                                                  'None' if prev is None else hx(prev))), robs, None)
        run.count('op:restore' + ('' if prev is None else ':hint'))
        if robs != 'ok':
            run.count('restore:' + robs)
            return 'abort'
        h.restore(oid, data, prev)
        return robs
    if name == 'undo':
        committed = [t['tid'] for t in h.txns]
        if not committed:
            return 'skip'
        target = committed[op[1] % len(committed)]
        if real.want_db and target == committed[0]:
            return 'skip'           # the DB's own root object transaction stays
        robs = real.undo(target)
        run.add(ctx.line('undo %s' % hx(target)), robs, None)
        run.count('op:undo')
        if robs != 'ok':
            run.count('undo:' + robs)
            return 'abort'
        for t in h.txns:
            if t['tid'] == target:
                for r in t['recs']:
                    touched.add(r[0])
        h.undo(target)
        return robs
    raise ValueError(op)


# ---------------------------------------------------------------- watchdog
class CaseTimeout(BaseException):
    """the storage did not come back (BaseException: passes through `guard`)"""


def _alarm(signum, frame):
    raise CaseTimeout()


def with_timeout(f, seconds):
    old = signal.signal(signal.SIGALRM, _alarm)
    signal.setitimer(signal.ITIMER_REAL, seconds)
    try:
        return f()
    finally:
        signal.setitimer(signal.ITIMER_REAL, 0)
        signal.signal(signal.SIGALRM, old)


CASE_TIMEOUT = 40.0       # a case normally takes well under a second
SHRINK_TIMEOUT = 6.0


def judge(case, tmp, timeout, full_every=False, confirm=False):
    """execute and compare with the oracle: (run | None, signature | None, diff | None)"""
    try:
        run = with_timeout(lambda: execute(case, tmp, full_every), timeout)
    except CaseTimeout:
        if confirm:
            # a loaded machine is not a hung storage: only a second, much longer wait counts
            try:
                run = with_timeout(lambda: execute(case, tmp, full_every), 8 * timeout)
            except CaseTimeout:
                run = None
        else:
            run = None
        if run is None:
            return None, 'C04:%s:hang' % case['kind'], (0, 'no answer within %ds' % timeout, 'an answer')
    d = oracle_diff(run)
    return run, (signature(case, run, d) if d is not None else None), d


# ---------------------------------------------------------------- verdict on one executed case
def first_diff(a, b):
    sa, sb = a.split(' | '), b.split(' | ')
    for x, y in zip(sa, sb):
        if x != y:
            return x, y
    return (a[:200], b[:200])


QUIRK = 'C04:fs:record_iternext-stops-at-uncreated'


def is_iternext_quirk(x, y):
    """real `[a;b]err:KeyError` vs history `[a;b;c]end`: the walk stopped at an object that has no
    current record (deleted / creation undone) instead of skipping it"""
    if not (x.startswith('recordIter=[') and y.startswith('recordIter=[') and
            x.endswith(']err:KeyError') and y.endswith(']end')):
        return False
    rx, ry = x[len('recordIter=['):-len(']err:KeyError')], y[len('recordIter=['):-len(']end')]
    return ry == rx or ry.startswith(rx + ';') or rx == ''


def oracle_diff(run):
    """first line where the real code contradicts the oracle: (index, real segment, oracle segment).
    The record_iternext finding is kept apart (run.quirk) so that it hides nothing else; it is
    returned only when there is no other difference."""
    run.quirk = None
    for i, (r, o) in enumerate(zip(run.real, run.orc)):
        if o is None or r == o:
            continue
        sa, sb = r.split(' | '), o.split(' | ')
        if len(sa) != len(sb):
            return i, r[:200], o[:200]
        for x, y in zip(sa, sb):
            if x != y:
                if is_iternext_quirk(x, y):
                    run.quirk = run.quirk or (i, x, y)
                    continue
                return i, x, y
    return run.quirk


def signature(case, run, diff):
    i, x, y = diff
    what = x.split('=')[0].split('(')[0]
    if is_iternext_quirk(x, y):
        return QUIRK
    if y.startswith('ok tid=<above'):
        return 'C04:%s:tid-not-increasing' % case['kind']
    if x.startswith(('ok', 'err:')) and '=' not in x.split(' ')[0]:
        # the outcome of an operation (begin / store / delete / reopen ...), not a query answer
        op = (run.lines[i] or 'op').split(' ')[0].replace('m.', '')
        return 'C04:%s:%s-outcome' % (case['kind'], op)
    if what == 'undoLog' and case['kind'] == 'fs' and case['txns']:
        if run.first_short and y.startswith(x[:-1]):      # the real list is the oracle's list minus its last entry
            return 'C04:undolog-skips-short-first-txn'
    return 'C04:%s:%s' % (case['kind'], what)


def shrink(case, tmp, sig):
    def fails_case(c):
        try:
            return judge(c, tmp, SHRINK_TIMEOUT)[1] == sig
        except Exception:  # noqa: BLE001
            return False

    def with_txns(txns):
        c = dict(case)
        c['txns'] = txns
        if c['kind'] == 'demo':
            c['base_n'] = min(c.get('base_n', 0), max(len(txns) - 1, 0))
        return c
    hang = sig.endswith(':hang')
    txns = ddmin(case['txns'], lambda ts: fails_case(with_txns(ts)),
                 max_tests=25 if hang else 30 if sig == QUIRK else 150)
    if not fails_case(with_txns(txns)):
        txns = case['txns']
    if sig == QUIRK:
        return with_txns(txns)        # a listed finding: a small case is enough, no op-level pass
    if hang:
        small = with_txns(txns)
        return small if judge(small, tmp, CASE_TIMEOUT, confirm=True)[1] == sig else case
    # then ops inside each transaction, reopen flags, metadata
    for i in range(len(txns)):
        t = txns[i]
        for simpler in ([dict(t, ops=t['ops'][:j] + t['ops'][j + 1:]) for j in range(len(t['ops']))] +
                        [dict(t, reopen=None), dict(t, u=['m', 0, 0], d=['m', 0, 0], e=['e', 0])]):
            cand = txns[:i] + [simpler] + txns[i + 1:]
            if simpler != txns[i] and fails_case(with_txns(cand)):
                txns = cand
                t = simpler
    return with_txns(txns)


# ---------------------------------------------------------------- generator
def gen_meta(rng, big_ok):
    r = rng.random()
    if r < 0.45:
        n = 0
    elif r < 0.65:
        n = 1
    elif r < 0.9:
        n = rng.choice([2, 3, 4, 5, 17, 40, 300])
    elif big_ok:
        n = 65535
    else:
        n = rng.choice([7, 100])
    return ['m', rng.choice([0x41, 0x20, 0x00, 0xff, 0x70]), n]


def gen_ext(rng, big_ok):
    r = rng.random()
    if r < 0.6:
        return ['e', 0]
    if r < 0.67:
        key = rng.choice(sorted(_EXTK))
        return ['e', _EXTK0[key] + rng.choice([1, 2, 3, 5]), key]     # ('x' never empty: it identifies the bytes)
    if r < 0.92 or not big_ok:
        return ['e', _EXT0 + rng.choice([0, 1, 5, 40])]
    return ['e', 65535]


def gen_data(rng, thorough=False):
    r = rng.random()
    # the big ones lie around the 64 KiB copy chunk; they are costly in the interpreted model, so the
    # quick tier draws fewer of them and leaves the 128 KiB ones to the thorough tier
    n = (rng.choice([1, 2, 3, 8]) if r < 0.5 else rng.choice([20, 24, 25, 30, 100]) if r < (0.93 if thorough else 0.96)
         else rng.choice([8191, 8192, 65536, 65537, 70000, 131077] if thorough else
                         [8191, 8192, 65536, 65537, 70000]))
    return ['d', rng.randrange(6), n]


def gen_case(rng, realkind, thorough=False):
    # hexfs / demofs histories are generated like FileStorage ones, hexmap like MappingStorage ones
    kind = {'hexfs': 'fs', 'demofs': 'fs', 'hexmap': 'map'}.get(realkind, realkind)
    ntx = rng.choice([1, 2, 3, 4, 5, 6, 6, 7, 8, 8, 9, 10, 11, 12])
    viadb = realkind in ('fs', 'map') and rng.random() < 0.12
    pool = rng.sample([0, 1, 2, 3, 5, 0x10, 0xff, 0xff00, 0xffff, 0x10000, 0x10001, 0x00ff00ff00ff00ff,
                       2 ** 63, 2 ** 64 - 2, 2 ** 64 - 1, rng.randrange(2 ** 64 - 2)][1 if viadb else 0:],
                      rng.choice([2, 3, 4, 5]))
    clockmode = rng.choice(['explicit', 'clock', 'clock', 'mixed'])
    now = 1_700_000_000.0 + rng.randrange(10 ** 6)
    big_budget = 1 if rng.random() < 0.25 else 0         # at most one 65535-byte metadata per history
    txns = []
    known = []           # oids the generator believes exist
    for i in range(ntx):
        if clockmode == 'explicit' or (clockmode == 'mixed' and rng.random() < 0.4):
            tid = ['x', rng.choice([1, 1, 1, 2, 3, 256, 2 ** 32, 2 ** 32 - 1, 5 * 2 ** 33 + 7])]
        else:
            r = rng.random()
            if r < 0.3:
                delta = 0.0                                 # stalled clock
            elif r < 0.5:
                delta = -rng.choice([1e-9, 0.5, 60.0, 3600.0, 86400.0 * 400])   # stepping back
            elif r < 0.6:
                delta = rng.choice([1e-9, 1e-8, 2e-8])      # below / at the tid resolution
            else:
                delta = rng.choice([0.001, 1.0, 59.0, 3600.0, 86400.0 * 31])
            now = max(now + delta, 1.0)
            tid = ['c', now]
        big = big_budget and rng.random() < 0.3
        if big:
            big_budget = 0
        t = dict(tid=tid, u=gen_meta(rng, big and rng.random() < 0.5), d=gen_meta(rng, False),
                 e=gen_ext(rng, big), ops=[], end='commit', reopen=None)
        if big and t['u'][2] != 65535 and t['e'][1] != 65535:
            t['d'] = ['m', 0x44, 65535]
        if kind == 'fs':
            r = rng.random()
            if r < 0.04:
                t['status'] = 'p'
            elif r < 0.05:
                t['status'] = 'x'
            if rng.random() < 0.02:
                t['u'] = ['m', 0x55, 65536]                 # rejected by _begin: aborted
        nops = rng.choice([0, 1, 1, 2, 2, 3, 4, 6]) if i else rng.choice([1, 1, 2, 3])
        if kind == 'fs' and i == 0 and rng.random() < 0.06:
            nops = 0
            t['u'], t['d'], t['e'] = ['m', 0x41, rng.choice([0, 1, 3])], ['m', 0, 0], ['e', 0]
        for _ in range(nops):
            r = rng.random()
            oid = rng.choice(pool)
            if kind != 'fs' or r < 0.45 or not txns:
                smode = 'cur' if rng.random() < 0.93 else rng.choice(['bad', 'zero'])
                t['ops'].append(['store', oid, smode, gen_data(rng, thorough)])
                if rng.random() < 0.15:                     # duplicate store of one oid in a transaction
                    t['ops'].append(['store', oid, 'cur', gen_data(rng, thorough)])
            elif r < 0.55:
                t['ops'].append(['delete', rng.choice(known) if known and rng.random() < 0.85 else oid,
                                 'cur' if rng.random() < 0.9 else 'bad'])
            elif r < 0.78:
                t['ops'].append(['undo', -rng.choice([1, 1, 1, 2, 2, 3, 5])])
                if rng.random() < 0.25:
                    t['ops'].append(['undo', -rng.choice([2, 3, 4])])   # multi-undo
            else:
                r2 = rng.random()
                o = rng.choice(known) if known and rng.random() < 0.7 else oid
                if r2 < 0.45:
                    t['ops'].append(['restore', o, 'copy', -rng.choice([1, 1, 2, 3, 4])])
                elif r2 < 0.7:
                    t['ops'].append(['restore', o, gen_data(rng, thorough), None])
                elif r2 < 0.85:
                    t['ops'].append(['restore', o, gen_data(rng, thorough), -rng.choice([1, 2, 3])])
                elif r2 < 0.95:
                    t['ops'].append(['restore', o, None, None])
                else:
                    t['ops'].append(['restore', o, gen_data(rng, thorough), 'missing'])
            if oid not in known:
                known.append(oid)
        if rng.random() < 0.07:
            t['end'] = 'abort'
        if kind == 'fs' and rng.random() < 0.24:
            t['reopen'] = rng.choice(['keep', 'drop', 'keep', 'drop', 'stale', 'stale', 'ro'])
        txns.append(t)
    # a transaction aborted after its vote, followed by one of exactly the same shape (it lands on the
    # same file offsets)
    if kind == 'fs':
        for i in range(ntx - 1):
            if txns[i]['end'] == 'commit' and txns[i]['ops'] and rng.random() < 0.07:
                txns[i]['end'] = 'abort-voted'
                txns[i]['reopen'] = None
                if rng.random() < 0.6:
                    txns[i]['fresh'] = True
                if rng.random() < 0.75:
                    twin = json.loads(json.dumps(txns[i]))
                    twin['end'] = 'commit'
                    twin.pop('fresh', None)
                    twin['tid'] = txns[i + 1]['tid']
                    for op in twin['ops']:
                        for x in op:
                            if isinstance(x, list) and x and x[0] == 'd':
                                x[1] = (x[1] + 1 + rng.randrange(4)) % 6
                    txns[i + 1] = twin
    # now and then the next transaction's tpc_begin is entered by a second thread while this one is
    # still in progress, with a clock that has not moved (or has stepped back) in between
    for i in range(ntx - 1):
        if rng.random() < 0.1:
            txns[i]['overlap'] = True
            a = txns[i]['tid']
            base = a[1] if a[0] == 'c' else now
            txns[i + 1]['tid'] = ['c', max(base + rng.choice([0.0, 0.0, 0.0, -5.0, 1e-9, 2.0]), 1.0)]
    case = dict(kind=realkind, txns=txns, qseed=rng.randrange(10 ** 6))
    if realkind in FILE_KINDS:
        case['ctor'] = rng.choice(['direct', 'direct', 'direct-opts', 'config', 'config-opts'])
        if case['ctor'].endswith('-opts'):
            case['quota'] = rng.choice([1500, 4000, 70000]) if rng.random() < 0.2 else 10 ** 12
    if viadb:
        case['viadb'] = True
        for t in txns:                  # DB.* decodes user name and description as UTF-8
            for k in 'ud':
                if t[k][1] not in (0x41, 0x20, 0x70):
                    t[k] = ['m', 0x41, t[k][2]]
    if realkind == 'demofs':
        case['base_n'] = min(rng.choice([0, 1, 2, 3, ntx // 2]), ntx - 1) if ntx > 1 else 0
    if thorough and rng.random() < 0.1:
        case['full'] = True          # every oid x every tid boundary after EVERY transaction
    if kind == 'demo':
        if rng.random() < 0.3 and ntx > 2:
            case['push_n'] = -1        # set below, above the base
        case['base_n'] = rng.choice([0, 1, 1, 2, 3, ntx // 2])
        case['base_n'] = min(case['base_n'], ntx - 1) if ntx > 1 else 0
        if 'push_n' in case:
            if case['base_n'] + 1 < ntx:
                case['push_n'] = rng.randrange(case['base_n'] + 1, ntx)
            else:
                del case['push_n']
        # the base's clock is normally not ahead of the changes' clock (hypothesis TidOrdered, C16);
        # a clock that stalls or steps back across the base/changes boundary is the reproduced
        # defect "DemoStorage tid below base tid" and is generated rarely
        b = case['base_n']
        if b and rng.random() > 0.06:
            t0 = txns[b]
            if t0['tid'][0] == 'c':
                prevnow = max([t['tid'][1] for t in txns[:b] if t['tid'][0] == 'c'] or [0])
                if t0['tid'][1] <= prevnow + 1.0:
                    shift = prevnow + 5.0 - t0['tid'][1]
                    for t in txns[b:]:
                        if t['tid'][0] == 'c':
                            t['tid'] = ['c', t['tid'][1] + shift]
            # explicit tids are relative to the last committed tid: always above the base
            if any(t['tid'][0] == 'x' for t in txns[:b]) and t0['tid'][0] == 'c':
                t0['tid'] = ['x', 3]
    return case


def load_corpus():
    d = os.path.join(VERIF, 'corpus', 'C04')
    out = []
    if os.path.isdir(d):
        for f in sorted(os.listdir(d)):
            if f.endswith('.json'):
                with open(os.path.join(d, f)) as fh:
                    j = json.load(fh)
                out.append(j.get('case', j))
    return out


# ---------------------------------------------------------------- worker: execute, judge, compare with model
def judge_pair(a, b, tmp, timeout, full_every):
    """two cases executed with their storages alive at once and their steps interleaved:
    [(case, run, signature, diff)] — a case that fails only in company is reported as a pair"""
    try:
        runs = with_timeout(lambda: execute_pair(a, b, tmp, full_every), 2 * timeout)
    except CaseTimeout:
        runs = None
    if runs is None:
        return [(c,) + judge(c, tmp, timeout, full_every, confirm=True) for c in (a, b)]
    out = []
    for i, (c, run) in enumerate(zip((a, b), runs)):
        d = oracle_diff(run)
        if d is None:
            out.append((c, run, None, None))
            continue
        solo = judge(c, tmp, timeout, full_every, confirm=True)
        if solo[1] is not None:
            out.append((c,) + solo)                 # fails on its own: the usual report
        else:
            pair = dict(kind='pair', cases=[a, b], which=i)
            run.pair = True
            out.append((pair, run, signature(c, run, d) + ':two-instances', d))
    return out


def work(args):
    units, tmp, full_every = args
    res = dict(cases=[], violations=[], mismatches=[], counts={}, infra=None)
    runs = []
    os.makedirs(tmp, exist_ok=True)
    timeout = CASE_TIMEOUT
    judged = []
    for unit in units:
        try:
            if len(unit) == 2:
                judged += judge_pair(unit[0], unit[1], tmp, timeout, full_every)
                res['counts']['pair:interleaved'] = res['counts'].get('pair:interleaved', 0) + 1
            else:
                judged.append((unit[0],) + judge(unit[0], tmp, timeout, full_every,
                                                 confirm=(timeout == CASE_TIMEOUT)))
        except Exception as e:  # noqa: BLE001
            import traceback
            res['infra'] = 'executing a case failed: %r\n%s\ncase=%s' % (
                e, traceback.format_exc()[-1500:], json.dumps(unit)[:3000])
            return res
        if judged[-1][1] is None:
            timeout = SHRINK_TIMEOUT          # do not wait that long again in this worker
    for case, run, sig, d in judged:
        if run is None:       # the real storage hung: a violation in its own right
            res['cases'].append((case, False, None))
            res['counts']['violation:' + sig] = res['counts'].get('violation:' + sig, 0) + 1
            if sum(1 for v in res['violations'] if v[0] == sig) < 1:
                small = shrink(case, tmp, sig)
                res['violations'].append((sig, '%s storage did not answer a query within %d s (endless '
                                          'loop?)' % (case['kind'], SHRINK_TIMEOUT), small))
            continue
        runs.append(run)
        for k, v in run.counts.items():
            res['counts'][k] = res['counts'].get(k, 0) + v
        for r in run.real:
            if r.startswith('err:'):
                res['counts'][r.split()[0]] = res['counts'].get(r.split()[0], 0) + 1
        sample = dict(kind=case['kind'], ops=[l for l in run.lines if l and 'qall' not in l[:6]][:14],
                      real=[r[:160] for r in run.real][:14])
        res['cases'].append((case, run.nontrivial, sample))
        run.case = case
        if d is not None:
            res['counts']['violation:' + sig] = res['counts'].get('violation:' + sig, 0) + 1
            if sum(1 for v in res['violations'] if v[0] == sig) < (1 if sig == QUIRK else 2):
                if case['kind'] == 'pair':
                    small, r2, d2 = case, run, d          # needs both storages: reported as it is
                else:
                    small = shrink(case, tmp, sig)
                    r2, _, d2 = judge(small, tmp, CASE_TIMEOUT)
                    if r2 is None or d2 is None:
                        r2, d2 = run, d
                res['violations'].append((sig, '%s storage answered %s ; the list of committed '
                                          'transactions says %s (after %r)' % (
                                              case['kind'], d2[1][:300], d2[2][:300],
                                              (r2.lines[d2[0]] or 'queries')[:80]), small))
            run.judged = sig == QUIRK       # the model follows the code there: still compared
        else:
            run.judged = True
    # model: one driver process for all FileStorage cases of this worker
    lines, spans = [], []
    for run in runs:
        idx = [i for i, l in enumerate(run.lines) if l is not None]
        spans.append((len(lines), idx))
        lines += [run.lines[i] for i in idx]
    if lines:
        try:
            out = run_driver('FileStore', lines, timeout=1200)
        except InfraError as e:
            res['infra'] = str(e)
            return res
        for run, (off, idx) in zip(runs, spans):
            case = run.case
            if not run.judged:
                continue
            for k, i in enumerate(idx):
                if out[off + k] != run.real[i]:
                    x, y = first_diff(run.real[i], out[off + k])
                    res['mismatches'].append((
                        'model/impl differ at %r: impl %s model %s' % (run.lines[i][:60], x[:300], y[:300]),
                        dict(case, model_line=run.lines[i][:300])))
                    break
    return res


def main(argv=None):
    ck = Check('C04', argv)
    # Props.Links: cross-model link theorems (History = the spec every other model's queries are tied
    # to; byte layout C01 = C17; sizes/offsets C04 = C01 = C05; …) are audited with this check
    ck.extra['modules'] = ['Props.C04', 'Props.Links', 'Drivers.FileStore']
    ck.run_gate(ck.extra['modules'], ['Props.C04', 'Props.Links'])
    nproc = min(16, os.cpu_count() or 4)
    if ck.replay_path:
        with open(ck.replay_path) as f:
            j = json.load(f)
        c = j.get('case')
        units = [] if not c else [c['cases']] if c.get('kind') == 'pair' else [[c]]
        nproc = 1
    else:
        units = [c['cases'] if c.get('kind') == 'pair' else [c] for c in load_corpus()]
        counts = (dict(fs=1200, map=400, demo=400, hexfs=200, hexmap=100, demofs=200) if ck.thorough else
                  dict(fs=56, map=22, demo=22, hexfs=10, hexmap=6, demofs=10))
        for kind in KINDS:
            gen = [gen_case(ck.rng, kind, ck.thorough) for _ in range(counts[kind])]
            # two storages of one class alive in one process, their steps interleaved
            i = 0
            while i < len(gen):
                if kind != 'demofs' and i + 1 < len(gen) and ck.rng.random() < 0.12:
                    units.append([gen[i], gen[i + 1]])
                    i += 2
                else:
                    units.append([gen[i]])
                    i += 1
    # FileStorage cases carry the model comparison: spread them evenly
    chunks = [[] for _ in range(nproc)]
    for i, u in enumerate(units):
        chunks[i % nproc].append(u)
    jobs = [(ch, os.path.join(ck.tmp, 'w%d' % i), False) for i, ch in enumerate(chunks) if ch]
    if len(jobs) > 1:
        with multiprocessing.Pool(len(jobs)) as pool:
            results = pool.map(work, jobs)
    else:
        results = [work(j) for j in jobs]
    for res in results:
        if res['infra']:
            raise InfraError(res['infra'])
        for k, v in res['counts'].items():
            ck.count(k, v)
        for case, nontriv, sample in res['cases']:
            ck.count('case:' + case['kind'])
            ck.case(case, nontriv, sample if nontriv else None)
        for sig, what, case in res['violations']:
            ck.violation(sig, what, case)
        for what, case in res['mismatches']:
            ck.mismatch(what, case)
    ck.finish(
        rule='seeded histories of 1-12 transactions on FileStorage and MappingStorage (model + oracle), '
             'HexStorage around either, DemoStorage over MappingStorages (also pushed) and '
             'DemoStorage(base=FileStorage, changes=FileStorage) (oracle only); constructed directly or '
             'through ZODB.config with explicit option values, reopened with the saved / a stale / no '
             'index and read-only, also reached through DB.history/undoLog/undoInfo, some pairs of '
             'storages interleaved in one process; all queries after every transaction, every oid x '
             'every tid boundary after the last one and after each reopen; non-trivial = the executed '
             'history has >= 1 record without bytes of its own (back pointer / un-creation) and >= 1 oid '
             'with >= 3 revisions; distinct by hash of the case',
        assumptions=[
            'record data is opaque and non-empty (conflict resolution and undo merges always fail)',
            'callers keep the contract of the storage-level API: explicit tids above the last committed '
            'tid, restore(serial) = the transaction id, truthful prev_txn hints, status not in "uc", '
            'tpc_abort after a failed undo/restore, tpc_vote before tpc_finish',
            'TimeStamp.laterThan(o) = o + 1 on the raw value (differs only when the low 32 bits are all '
            'ones; avoided by the generator)',
            'float -> TimeStamp conversion of the clock is runtime (the model receives the raw value)',
            'byte-level encoding of Data.fs is C01\'s model; here offsets/_pos/index are compared [I]',
            'getTid follows the code (stated in History.getTid): POSKeyError only when the newest record '
            'ITSELF is an un-creation / deletion marker; when the newest record is a back pointer whose '
            'chain ends in one, load/loadBefore raise POSKeyError but getTid answers that record\'s tid '
            '(reproducer: corpus/C16/repro_gettid_uncreated_via_backpointer.py; kept as is by decision)',
            'ORACLE ONLY (no Lean model): HexStorage-wrapped storages, DemoStorage in all its layerings; '
            'the FileStorage quota (a refused store is not sent to the model) and the DB entry points '
            '(compared with the storage\'s own answer, which is compared with model and oracle)',
            'DemoStorage over a FileStorage base: loadBefore answering None vs raising POSKeyError for '
            'an object deleted in the base is not distinguished (MVCC readers treat both as POSKeyError)',
            'concurrency is covered only by one scripted interleaving per overlapped pair (a second '
            'thread enters tpc_begin while the commit lock is held); schedules in general are C02/C03'])


if __name__ == '__main__':
    try:
        main()
    except InfraError as e:
        print('INFRA-ERROR', e)
        sys.exit(2)
