"""a persistent class whose module name is dotted (c14_pkg.sub.mod)"""
from persistent import Persistent


class Deep(Persistent):
    pass
