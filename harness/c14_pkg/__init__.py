"""package of the C14 check: a persistent class in a package submodule"""
