"""C09 — Index and side files are only caches; a read-only open changes nothing.

Part A (index is a cache).  Histories (C01 generator, plus pack histories with equal-size
transactions) run on the real FileStorage under the recording VFS; every `.index` version the storage
wrote (and forced `_save_index()` at random moments) is kept.  Targets = the final file, crash images
with a torn tail from the C01 cut generator, the packed file.  Each target is reopened with: no index
(baseline), every EARLIER index, truncations of an index, leftover .tmp/.lock/.pack/.old/.tr0/.index_tmp
junk.  Direct oracle [P]: the full dump (all C04 queries + index + pos + ltid + max oid + Data.fs bytes
after the open) equals the no-index dump, and nothing raises that did not raise without index.
Part B (read-only).  Random sequences of public API calls on a read_only=True instance — cleanly closed
files, files with a torn / status-'c' tail, and while a writer instance in the same process has the
file open (mid-transaction too) — under the VFS read-only guard and a byte comparison of the directory
around every call; every write API must raise ReadOnlyError (StorageTransactionError for
tpc_vote/tpc_finish).
Model (Drivers/Disk.lean): `open <slot> <ro> <cut>` = `openWith` on the same bytes and the same index
contents; `api` = `runApi`."""
import hashlib
import json
import os
import shutil
import sys
import time

sys.path.insert(0, os.path.dirname(os.path.abspath(__file__)))
from common import Check, InfraError, run_driver, ddmin, VERIF  # noqa: E402
import c01_lib as L  # noqa: E402
import c01  # noqa: E402
import vfs  # noqa: E402

CORPUS = os.path.join(VERIF, 'corpus', 'C09')
STALE_SIG = 'C09:stale-index-across-pack'


# ---------------------------------------------------------------- generators
def pickled(n, pad):
    from ZODB.tests.MinPO import MinPO
    from ZODB.tests.StorageTestBase import zodb_pickle
    return zodb_pickle(MinPO('%06d%s' % (n, 'x' * pad)))


def gen_pack_history(rng, align):
    """all-commit history of real pickles; align: every transaction has the same size"""
    n = rng.choice([4, 5, 6, 7, 8])
    oids = rng.sample([1, 2, 3, 4, 5], rng.choice([2, 3, 4]))
    hist = []
    tid = L.TID_BASE + rng.randrange(1, 1000)
    pad = rng.randrange(0, 30)
    for i in range(n):
        tid += rng.choice([1, 2, 0x100])
        if align:
            ops = [['store', rng.choice(oids), ['h', pickled(i, pad).hex()]]]
            meta = ['f', 0, 0]
        else:
            ops = [['store', o, ['h', pickled(i, rng.randrange(0, 40)).hex()]]
                   for o in rng.sample(oids, rng.choice([1, 1, 2]))]
            meta = ['f', rng.choice([0, 0, 3, 10]), rng.randrange(256)]
        hist.append(dict(kind='commit', tid=tid, status=' ', user=['f', 0, 0], desc=meta, ext=['f', 0, 0],
                         ops=ops, save_index=rng.random() < 0.7))
    return hist


def gen_shift_pack_history(rng):
    """pack removes k transactions in FRONT of the saved index position (old revisions of A) and the k
    transactions committed after the pack time have the same sizes: the position of the index saved in
    between is again a transaction boundary of the packed file, but every record sits at a LOWER
    offset than the pre-pack index says.  Returns (history, pack spec)."""
    A, B, C = 1, 2, 3
    k = rng.choice([1, 1, 2])
    pads = [rng.randrange(110, 230) for _ in range(k)]
    tid = L.TID_BASE + rng.randrange(1, 1000)
    hist = []

    def txn(oid, n, pad, save):
        nonlocal tid
        tid += 0x1000000 + rng.randrange(0x1000)
        hist.append(dict(kind='commit', tid=tid, status=' ', user=['f', 0, 0], desc=['f', 0, 0], ext=['f', 0, 0],
                         ops=[['store', oid, ['h', pickled(n, pad).hex()]]], save_index=save))
    for i, pad in enumerate(pads):
        txn(A, i, pad, rng.random() < 0.3)
    txn(A, 10, rng.randrange(0, 20), rng.random() < 0.5)
    mids = rng.sample([B, C], rng.choice([1, 2]))
    for j, o in enumerate(mids):
        txn(o, 20 + j, rng.randrange(0, 20), j == len(mids) - 1 or rng.random() < 0.5)
    after = len(hist) - 1
    for i, pad in enumerate(pads):
        txn(mids[-1] if i == k - 1 else rng.choice([A] + mids), 30 + i, pad, False)
    if rng.random() < 0.5:
        txn(rng.choice([A, B, C, 4]), 40, 30, False)
    return hist, dict(gc=False, after=after)


def gen_uncreate_pack_history(rng):
    """an object is un-created (deleteObject, or undo of its creation) AFTER the pack time and that record is
    still its latest one; an ordinary transaction follows; the pack frees an old revision.  The index pack()/
    close() save must not list the un-created object (or must point at the un-creation record): reopening
    with it has to equal the scan, also for load() of the un-created oid.  Returns (history, pack spec)."""
    A, B, C = 1, 2, 3
    tid = L.TID_BASE + rng.randrange(1, 1000)
    hist = []

    def txn(ops, save=False):
        nonlocal tid
        tid += 0x1000000 + rng.randrange(0x1000)
        hist.append(dict(kind='commit', tid=tid, status=' ', user=['f', 0, 0], desc=['f', rng.choice([0, 4]), 1],
                         ext=['f', 0, 0], ops=ops, save_index=save))
    txn([['store', A, ['h', pickled(1, rng.randrange(0, 30)).hex()]]])
    if rng.random() < 0.5:
        txn([['store', B, ['h', pickled(2, rng.randrange(0, 30)).hex()]]], save=rng.random() < 0.5)
        txn([['store', A, ['h', pickled(3, rng.randrange(0, 30)).hex()]]])          # frees A's first revision
        after = len(hist) - 1
        txn([['delete', B]] if rng.random() < 0.6 else [['undo', 2]])               # un-creation of B after T
    else:
        txn([['store', A, ['h', pickled(3, rng.randrange(0, 30)).hex()]]])          # frees A's first revision
        after = len(hist) - 1
        txn([['store', B, ['h', pickled(2, rng.randrange(0, 30)).hex()]]])          # created after T …
        txn([['undo', 1]] if rng.random() < 0.5 else [['delete', B]])               # … and un-created
    txn([['store', C, ['h', pickled(4, rng.randrange(0, 30)).hex()]]])              # a later ordinary transaction
    if rng.random() < 0.5:
        txn([['store', A, ['h', pickled(5, 3).hex()]]])
    return hist, dict(gc=False, after=after)


def recipe_history():
    """DESIGN section 5 item 9: T1a={C}, T1b={A}; save index; T2a={D}, T2b={A}, T2c={C}; pack"""
    A, C, D = 1, 2, 3
    hist = []
    for i, (oid, save) in enumerate([(C, False), (A, True), (D, False), (A, False), (C, False)]):
        hist.append(dict(kind='commit', tid=L.TID_BASE + 1 + i, status=' ', user=['f', 0, 0], desc=['f', 0, 0],
                         ext=['f', 0, 0], ops=[['store', oid, ['h', pickled(7, 0).hex()]]], save_index=save))
    return hist


# ---------------------------------------------------------------- index snapshots of a run
def index_snapshots(rr, upto=None):
    """[(event index after which it exists, bytes, commits returned by then)] of every distinct
    Data.fs.index the storage wrote, the one of the creation included"""
    snaps = []
    img = dict(rr.init)
    if img.get('Data.fs.index') is not None:
        snaps.append((0, img['Data.fs.index'], 0))
    ret = 0
    evs = rr.events if upto is None else rr.events[:upto]
    for i, e in enumerate(evs):
        vfs.apply_events(img, [e])
        if e[0] == 'mark' and e[1].startswith('ret finish'):
            ret += 1
        if e[0] == 'rename' and e[2] == 'Data.fs.index':
            b = img.get('Data.fs.index')
            if b is not None and (not snaps or snaps[-1][1] != b):
                snaps.append((i + 1, b, ret))
    return snaps


def old_format_index(pos, items):
    """the index file as FileStorage versions before fsIndex.save wrote it: ONE pickle of a dict
    {'index': plain dict oid -> pos, 'pos': pos, 'oid': max oid, 'vindex': {}} (what _restore_index still
    accepts and converts)"""
    import pickle
    return pickle.dumps({'index': {L.p64(k): v for k, v in items}, 'pos': pos,
                         'oid': L.p64(max([k for k, _ in items] or [0])), 'vindex': {}}, protocol=2)


def load_index_bytes(b, tmp):
    """(pos, [(oid, off)]) of an index file's bytes via the real fsIndex.load, or None"""
    from ZODB.fsIndex import fsIndex
    p = os.path.join(tmp, 'probe.index')
    with open(p, 'wb') as f:
        f.write(b)
    try:
        info = fsIndex.load(p)
        return int(info['pos']), [(L.u64(k), v) for k, v in info['index'].items()]
    except Exception:
        return None


# ---------------------------------------------------------------- opening a directory image
def ix_fnv(items):
    return L.fnv64(b''.join(L.p64(k) + L.p64(v) for k, v in sorted(items)))


def write_program(fs, oids, tids):
    """the same short write program through a freshly opened storage, whatever it was opened with:
    overwrite existing objects with their current serial, a store with a stale serial (must conflict),
    deleteObject, undo of the last transaction, a new object.  Returns the outcomes."""
    import base64
    from ZODB.Connection import TransactionMetaData
    from ZODB.POSException import POSKeyError
    out = []
    base = max([L.u64(fs.lastTransaction())] + list(tids)) + 0x1000000
    existing = []
    for o in oids:
        try:
            existing.append((o, fs.load(L.p64(o), '')[1]))
        except Exception:
            pass

    def txn(k, body):
        md = TransactionMetaData(b'', b'write program %d' % k, b'')
        try:
            fs.tpc_begin(md, tid=L.p64(base + k * 0x100))
        except Exception as e:
            out.append('begin %d: %s' % (k, L.ename(e)))
            return
        try:
            body(md)
            fs.tpc_vote(md)
            fs.tpc_finish(md)
            out.append('txn %d: committed' % k)
        except Exception as e:
            out.append('txn %d: %s' % (k, L.ename(e)))
            try:
                fs.tpc_abort(md)
            except Exception as e2:
                out.append('abort %d: %s' % (k, L.ename(e2)))
    for i, (o, serial) in enumerate(existing[:3]):
        txn(i, lambda md, o=o, serial=serial, i=i: fs.store(L.p64(o), serial, b'rewritten-%d' % i * 3, '', md))
    if existing:
        o, serial = existing[0]
        txn(4, lambda md: fs.store(L.p64(o), serial, b'stale serial, must conflict', '', md))
    if len(existing) > 1:
        o = existing[1][0]
        try:
            cur = fs.load(L.p64(o), '')[1]
            txn(5, lambda md: fs.deleteObject(L.p64(o), cur, md))
        except Exception as e:
            out.append('load before delete: ' + L.ename(e))
    txn(6, lambda md: fs.store(L.p64(0x7777), L.Z64, b'a new object', '', md))
    txn(7, lambda md: fs.undo(base64.encodebytes(L.p64(base + 6 * 0x100)).rstrip(b'\n'), md))
    return out, [base + k * 0x100 for k in range(8)]


def open_dump(wd, files, oids, tids, read_only=False, writes=False):
    """write `files`, open with the real FileStorage, dump everything (and, if `writes`, run the write
    program through the opened storage and dump again).  Returns dict or {'error': …}"""
    from ZODB.FileStorage import FileStorage
    L.write_dir(wd, files)
    before = L.read_dir(wd) if read_only else None
    try:
        fs = FileStorage(os.path.join(wd, 'Data.fs'), read_only=read_only)
    except Exception as e:
        return {'error': L.ename(e) + ' ' + str(e)[:160]}
    try:
        d = L.dump_storage(fs, oids, tids)
        items = [(L.u64(k), v) for k, v in fs._index.items()]
        d['index'] = [['%016x' % k, v] for k, v in sorted(items)]
        used = getattr(fs, '_used_index', None)
        internal = dict(used=used, ixfnv=ix_fnv(items), n=len(items))
        after = L.read_dir(wd).get('Data.fs', b'')
        d['datafs_after'] = [len(after), hashlib.sha1(after).hexdigest()]
        internal['after_len'] = len(after)
        internal['after_fnv'] = L.fnv64(after) if len(after) <= 20000 else None
        if writes and not read_only:
            outcomes, newtids = write_program(fs, oids, tids)
            d['after_writes:outcomes'] = outcomes
            d2 = L.dump_storage(fs, sorted(set(oids) | {0x7777}), sorted(set(tids) | set(newtids)))
            for k, v in d2.items():
                d['after_writes:' + k] = v
    finally:
        fs.close()
    if writes and not read_only:
        final = L.read_dir(wd).get('Data.fs', b'')
        d['after_writes:datafs'] = [len(final), hashlib.sha1(final).hexdigest()]
    if read_only:
        after_dir = L.read_dir(wd)
        internal['ro_changed'] = sorted(k for k in set(before) | set(after_dir) if before.get(k) != after_dir.get(k))
    return dict(dump=d, internal=internal)


def stale_alignment(packed, ipos, items):
    """the precise precondition of the known defect: the pre-pack index position is a transaction
    boundary (>= 100) of the packed file and the first <= 5 records of the last non-empty transaction
    before it sit exactly where the old index says (so the documented sanity check has to accept)"""
    try:
        txs = L.parse_file(packed, packed[:4])
    except L.ParseError:
        return False
    if ipos < 100 or ipos not in {t['end'] for t in txs}:
        return False
    ix = dict(items)
    for t in reversed([t for t in txs if t['end'] <= ipos]):
        if not t['recs']:
            continue
        return all(ix.get(r['oid'], 0) == r['pos'] for r in t['recs'][:5])
    return False


ITER_SIG = 'C09:ro-iterator-start-%s-on-torn-tail'


def split_known_iterator_start(got, want, unfinished_tail, tids):
    """the recorded open finding and nothing but it (c01_lib.classify_iterator_start): read-only dump of a
    file with an unfinished tail, all keys but iterator_start equal to the committed prefix's.
    Returns (kind | None, got', want') with the key removed from both when it is the known class."""
    if unfinished_tail:
        g2 = {k: v for k, v in got.items() if k != 'iterator_start'}
        w2 = {k: v for k, v in want.items() if k != 'iterator_start'}
        kind = L.classify_iterator_start(got, want, tids)
        if kind:
            return kind, g2, w2
    return None, got, want


def first_diff(a, b):
    keys = sorted(k for k in set(a) | set(b) if a.get(k) != b.get(k))
    if not keys:
        return None
    k = keys[0]
    return '%s (%d keys differ): with %s | without %s' % (k, len(keys), str(a.get(k))[:100], str(b.get(k))[:100])


# ---------------------------------------------------------------- part A on one run
class Collector:
    """stand-in for the Check object inside worker processes (merged by the parent)"""

    def __init__(self, seed, thorough, tmp):
        import random
        self.rng = random.Random(seed)
        self.thorough = thorough
        self.tmp = tmp
        self.cases, self.counts, self.mismatches = [], {}, []

    def case(self, canonical, nontrivial, sample=None):
        self.cases.append((canonical, nontrivial, sample))

    def count(self, key, n=1):
        self.counts[key] = self.counts.get(key, 0) + n

    def mismatch(self, what, case):
        self.mismatches.append((what, case))


def part_a_worker(spec):
    tmp = os.path.join(spec['tmp'], 'p%d' % os.getpid())
    os.makedirs(tmp, exist_ok=True)
    col = Collector(spec['seed'], spec['thorough'], tmp)
    res = part_a(col, spec['history'], spec['name'].replace('.', '_'), spec['pack'])
    res.update(cases=col.cases, counts=col.counts, mismatches=col.mismatches, name=spec['name'])
    return res


def trunc_lengths(n, rng, thorough):
    if thorough or n <= 64:
        return list(range(n))
    s = {0, 1, 2, 3, n - 1, n - 2, n - 3, n // 2}
    while len(s) < 64:
        s.add(rng.randrange(n))
    return sorted(s)


JUNK = {'Data.fs.tmp': b'junk-tmp' * 9, 'Data.fs.lock': b'99999\n', 'Data.fs.pack': b'FS30' + b'\1' * 77,
        'Data.fs.old': b'FS30old', 'Data.fs.tr0': b'tr0', 'Data.fs.index.index_tmp': b'\x80\x03J\x04\x00'}


def part_a(ck, hist, tag, pack=None, model=True):
    """returns dict(violations, model_lines, model_checks)"""
    from ZODB.serialize import referencesf
    root = os.path.join(ck.tmp, 'a-' + tag)
    if os.path.exists(root):
        shutil.rmtree(root)
    probes = []
    oids0, tids0 = c01.history_oids_tids(hist)

    def pack_probe(rec, ev):
        """a read-only instance opened while the file is being packed"""
        from ZODB.FileStorage import FileStorage
        before = vfs.snapshot(root)
        rec.readonly_guard = True
        try:
            ro = FileStorage(os.path.join(root, 'Data.fs'), read_only=True)
            try:
                probes.append((ev[:3], L.dump_storage(ro, oids0, tids0), None))
            finally:
                ro.close()
        except Exception as e:
            probes.append((ev[:3], None, L.ename(e) + ' ' + str(e)[:120]))
        finally:
            rec.readonly_guard = False
        bad = [x for x in rec.events if x[0] == 'VIOLATED-RO']
        if bad or vfs.snapshot(root) != before:
            probes.append((ev[:3], None, 'MUTATED'))
            rec.events[:] = [x for x in rec.events if x[0] != 'VIOLATED-RO']
    try:
        rr = L.run_history(hist, root, pack_after=pack, referencesf=referencesf,
                           pack_probe=pack_probe if pack is not None else None)
    except Exception as e:
        return dict(violations=[('C09:history-raised', 'executing the history%s raised %s: %s' % (
            ' and the pack' if pack is not None else '', type(e).__name__, str(e)[:160]),
            dict(history=hist, pack=pack))], lines=[], checks={}, hist=hist)
    oids, tids = c01.history_oids_tids(hist)
    wd = os.path.join(ck.tmp, 'wd')
    viol = []
    hid = hashlib.sha1(json.dumps([hist, pack], sort_keys=True).encode()).hexdigest()[:12]
    pre_events = getattr(rr, 'pre_pack_events', None)
    snaps = index_snapshots(rr, pre_events)
    evs = rr.events if pre_events is None else rr.events[:pre_events]
    nret_total = sum(1 for e in evs if e[0] == 'mark' and e[1].startswith('ret finish'))
    # ---- targets: (name, Data.fs bytes, event index, commits returned, torn, canonical cut)
    targets = [('final', rr.final, len(evs), nret_total, False, None)]
    can, where = L.canonical_trace(evs)
    torn_cuts = []
    ret = 0
    for k, e in enumerate(evs):
        if e[0] == 'mark' and e[1].startswith('ret finish'):
            ret += 1
        if e[0] == 'write' and e[1] == 'Data.fs':
            ci, off = where[k]
            if len(e[3]) > 1:
                for nb in sorted({1, 22, 23, 24, len(e[3]) // 2, len(e[3]) - 1} & set(range(1, len(e[3])))):
                    torn_cuts.append((k, nb, ret, (ci, off + nb)))
            else:
                torn_cuts.append((k, None, ret, (ci, off)))       # complete vote write, status still 'c'
    picks = torn_cuts if ck.thorough else ck.rng.sample(torn_cuts, min(5, len(torn_cuts)))
    img = dict(rr.init)
    ki = 0
    for k, nb, r, cc in sorted(picks, key=lambda x: x[0]):
        while ki < k:
            vfs.apply_events(img, [evs[ki]])
            ki += 1
        data = img.get('Data.fs', b'')
        if nb is not None:
            tmpi = {'Data.fs': data}
            vfs.apply_events(tmpi, [evs[k]], nbytes_last=nb)
            data = tmpi['Data.fs']
        targets.append(('cut%d.%s' % (k, nb), data, k, r, True, cc))
    if probes:
        # read-only opens DURING the pack show the unpacked or the packed database, and touch nothing
        refs = []
        for b in (rr.final, rr.packed):
            rd = os.path.join(ck.tmp, 'packref')
            L.write_dir(rd, {'Data.fs': b})
            from ZODB.FileStorage import FileStorage as _FS
            r_ = _FS(os.path.join(rd, 'Data.fs'), read_only=True)
            try:
                refs.append(L.canon(L.dump_storage(r_, oids0, tids0)))
            finally:
                r_.close()
        for ev, dump_, err in probes:
            ck.case([hid, 'ro-during-pack', list(map(str, ev))], True, None)
            ck.count('ro-during-pack')
            if err == 'MUTATED':
                viol.append(('C09:ro-mutated:open', 'a read-only open while the file is being packed (before %s) modified '
                             'the directory' % (ev,), dict(history=hist, pack=pack, target='during-pack', variant=str(ev))))
            elif err:
                viol.append(('C09:ro-open-raised', 'a read-only open while the file is being packed (before %s) raised %s'
                             % (ev, err), dict(history=hist, pack=pack, target='during-pack', variant=str(ev))))
            elif L.canon(dump_) not in refs:
                viol.append(('C09:ro-during-pack-differs', 'a read-only open while the file is being packed (before %s) '
                             'shows neither the unpacked nor the packed database' % (ev,),
                             dict(history=hist, pack=pack, target='during-pack', variant=str(ev))))
    if rr.packed is not None:
        # the index pack() and close() saved, next to the packed file: open with it == open by scan
        left = L.read_dir(root)
        if left.get('Data.fs.index') is not None and left.get('Data.fs') is not None:
            want = open_dump(wd, {'Data.fs': left['Data.fs']}, oids, tids, writes=True)
            got = open_dump(wd, {'Data.fs': left['Data.fs'], 'Data.fs.index': left['Data.fs.index']}, oids, tids, writes=True)
            ck.case([hid, 'packed', 'index-saved-by-pack'], True, None)
            ck.count('variant:index-saved-by-pack')
            if 'internal' in got:
                ck.count('pack-saved-index-used=%s' % got['internal']['used'])
            if 'error' not in want:
                diff = ('open raised ' + got['error']) if 'error' in got else first_diff(got['dump'], want['dump'])
                if diff:
                    viol.insert(0, ('C09:pack-saved-index-changes-state', 'the packed file reopened with the index that pack()/'
                                 'close() saved differs from the reopen by scan: %s' % diff,
                                 dict(history=hist, pack=pack, target='packed', variant='index-saved-by-pack')))
    pack_variants = {}
    if rr.packed is not None:
        targets.append(('packed', rr.packed, len(rr.events), nret_total, False, None))
        # crash states DURING the pack (C08's cuts): every fs-operation boundary (quick: around the
        # operations on whole files), reopened as crashed and with the index of that moment
        pimg = dict(rr.init)
        vfs.apply_events(pimg, rr.events[:pre_events])
        for k in range(pre_events, len(rr.events) + 1):
            e = rr.events[k - 1] if k > pre_events else None
            if e is not None:
                vfs.apply_events(pimg, [e])
            nxt = rr.events[k] if k < len(rr.events) else None
            interesting = ck.thorough or any(x is not None and x[0] in ('create', 'rename', 'remove', 'link')
                                             for x in (e, nxt))
            if not interesting or pimg.get('Data.fs') is None:
                continue
            tname = 'packcut%d' % k
            files = {n: b for n, b in pimg.items() if b is not None and not n.endswith('/')
                     and n not in ('Data.fs', 'Data.fs.lock', 'Data.fs.tmp')}
            vs = [('as-crashed', files)]
            if pimg.get('Data.fs.index') is not None:
                vs.append(('index-at-crash', {'Data.fs.index': pimg['Data.fs.index']}))
            pack_variants[tname] = vs
            targets.append((tname, pimg['Data.fs'], len(evs), nret_total, False, None))
    model_lines, model_checks = [], {}
    if model:
        try:
            lines, checks, _ = L.model_lines_for_run(hist, rr if pre_events is None else _pre_pack_view(rr))
            model_lines, model_checks = lines, dict(checks)
        except Exception as e:
            ck.mismatch('cannot translate the real trace for the model: %r' % (e,), dict(history=hist))
            model = False
    slot_of = {}
    for name, data, evidx, nret, torn, cc in targets:
        base = open_dump(wd, {'Data.fs': data}, oids, tids, writes=True)
        if 'error' in base:
            # not C09's business (C01 judges crash images); with-index must then not do better/worse silently
            ck.count('baseline-open-raised')
            continue
        ro_base = open_dump(wd, {'Data.fs': data}, oids, tids, read_only=True)
        ck.case([hid, name, 'read-only-vs-writable', True], torn, None)
        if 'error' in ro_base:
            viol.append(('C09:ro-open-raised', 'read-only open of %s raised %s, the writable open succeeds'
                         % (name, ro_base['error']), dict(history=hist, pack=pack, target=name, variant='read-only')))
            ro_base = base
        else:
            skip = ('datafs_after',)
            a = {k: v for k, v in ro_base['dump'].items() if k not in skip and not k.startswith('after_writes:')}
            b = {k: v for k, v in base['dump'].items() if k not in skip and not k.startswith('after_writes:')}
            isknown, a, b = split_known_iterator_start(a, b, torn, tids)
            if isknown:
                viol.append((ITER_SIG % isknown, 'read-only open of %s: iterator(start) %s on the unfinished tail (%s); '
                             'all other queries are judged separately' % (name, isknown, str(ro_base['dump'][
                                 'iterator_start'])[:200]),
                             dict(history=hist, pack=pack, target=name, variant='read-only')))
            diff = first_diff(a, b)
            if diff:
                viol.append(('C09:ro-shows-uncommitted-tail' if torn else 'C09:ro-differs-from-writable',
                             'read-only open of %s (which leaves the tail alone) does not show the state of the '
                             'committed prefix that the writable open shows: %s' % (name, diff),
                             dict(history=hist, pack=pack, target=name, variant='read-only')))
        packed = name == 'packed'
        if packed and model:
            # the packed file as a fresh model history
            try:
                ptx = L.parse_file(data, data[:4])
                model_lines.append('reset')
                for t in ptx:
                    model_lines += L.txn_lines(t)
                    model_lines.append('commit')
                model_checks[len(model_lines) - 1] = 'ok pos=%d len=%d fnv=%s' % (len(data), len(data), L.fnv64(data))
                slot_of = {}
            except L.ParseError as e:
                ck.mismatch('packed file not parseable by the oracle parser: %s' % e, dict(history=hist))
                model = False
        variants = []
        if name in pack_variants:
            for vname, extra in pack_variants[name]:
                files = {'Data.fs': data}
                files.update(extra)
                got = open_dump(wd, files, oids, tids, writes=True)
                ck.case([hid, name, vname, False], True, None)
                ck.count('variant:pack-crash-' + vname)
                if 'error' in got:
                    viol.append(('C09:stale-index-after-pack-crash', 'crash image during pack (%s): open with the '
                                 'side files of that moment (%s) raised %s, Data.fs alone opens' % (
                                     name, vname, got['error']), dict(history=hist, pack=pack, target=name, variant=vname)))
                else:
                    diff = first_diff(got['dump'], base['dump'])
                    if diff:
                        viol.append(('C09:stale-index-after-pack-crash', 'crash image during pack (%s) reopened with '
                                     'the side files of that moment (%s) differs from Data.fs alone: %s' % (
                                         name, vname, diff), dict(history=hist, pack=pack, target=name, variant=vname)))
            continue
        for si, (sidx, sbytes, sret) in enumerate(snaps):
            if sidx <= evidx:
                variants.append(('index%d' % si, {'Data.fs.index': sbytes}, nret - sret, si))
        for si, (sidx, sbytes, sret) in enumerate(snaps):
            if sidx <= evidx and (si == len(snaps) - 1 or ck.rng.random() < 0.4):
                li = load_index_bytes(sbytes, ck.tmp)
                if li is not None:
                    variants.append(('oldformat%d' % si, {'Data.fs.index': old_format_index(li[0], li[1])},
                                     nret - sret, si))
        if snaps:
            # truncations of the newest applicable index (quick: 64 lengths), on final/packed and one torn target
            app = [s for s in snaps if s[0] <= evidx]
            if app and (name in ('final', 'packed') or ck.rng.random() < 0.3):
                sb = app[-1][1]
                for ln in trunc_lengths(len(sb), ck.rng, ck.thorough):
                    variants.append(('trunc%d' % ln, {'Data.fs.index': sb[:ln]}, nret - app[-1][2], None))
            junk = dict(JUNK)
            variants.append(('leftovers', junk, 0, None))
            # every side file zero-length; .old/.pack/.trN being directories (nothing the storage reads or writes)
            variants.append(('leftovers-empty', {n: b'' for n in JUNK}, 0, None))
            variants.append(('leftovers-dirs', {'Data.fs.old': None, 'Data.fs.pack': None, 'Data.fs.tr0': None,
                                                'Data.fs.tmp': b'', 'Data.fs.lock': b''}, 0, None))
            if app:
                j2 = dict(JUNK)
                j2['Data.fs.index'] = app[-1][1]
                variants.append(('leftovers+index', j2, nret - app[-1][2], len(app) - 1))
        variants = [v + (None,) for v in variants]
        variants += [(v[0] + '-ro', v[1], v[2], v[3], True) for v in variants if v[0].startswith('oldformat')]
        for vname, extra, age, si, force_ro in variants:
            files = {'Data.fs': data}
            files.update(extra)
            ro = ck.rng.random() < 0.25 and not vname.startswith('leftovers')
            if vname.startswith('oldformat'):
                ro = bool(force_ro)
            wr = not vname.startswith('trunc') or vname in ('trunc0', 'trunc1')
            want = base if not ro else ro_base
            got = open_dump(wd, files, oids, tids, read_only=ro, writes=wr)
            if not wr and 'dump' in got and 'dump' in want:
                want = dict(want, dump={k: v for k, v in want['dump'].items() if not k.startswith('after_writes:')})
            nontriv = age >= 2 or torn
            ck.case([hid, name, vname, ro], nontriv,
                    dict(target=name, variant=vname, index_age_txns=age, torn=torn,
                         used_index=got.get('internal', {}).get('used')) if nontriv and vname.startswith('index') else None)
            ck.count('variant:' + vname.rstrip('0123456789'))
            if 'internal' in got:
                ck.count('used_index=%s' % got['internal']['used'])
            if ro and got.get('internal', {}).get('ro_changed'):
                viol.append(('C09:ro-mutated:open', 'read-only open of %s with %s changed files in the directory: %s'
                             % (name, vname, got['internal']['ro_changed']),
                             dict(history=hist, pack=pack, target=name, variant=vname)))
            sig = what = None
            stale = False
            if packed and si is not None:
                li = load_index_bytes(snaps[si][1], ck.tmp)
                stale = li is not None and stale_alignment(data, li[0], li[1])
                ck.count('pre-pack-index-aligned=%s' % stale)
            if 'error' in want:
                continue
            if 'error' in got:
                sig = 'C09:open-with-side-files-raised'
                if packed and si is not None:
                    sig = 'C09:sanity-check-raises-on-stale-index'
                if 'OSError' in got['error'] and 'Errno 22' in got['error']:
                    sig = 'C09:sanity-walk-before-file-start'
                what = 'open of %s with %s raised %s, without it the open succeeds' % (name, vname, got['error'])
            else:
                diff = first_diff(got['dump'], want['dump'])
                if diff:
                    if stale:
                        sig = STALE_SIG
                    elif packed and si is not None:
                        sig = 'C09:unaligned-pre-pack-index-accepted'
                    elif vname.startswith('oldformat'):
                        sig = 'C09:old-format-index-changes-state'
                    elif vname.startswith('trunc'):
                        sig = 'C09:truncated-index-changes-state'
                    elif vname.startswith('leftovers'):
                        sig = 'C09:leftover-files-change-state'
                    else:
                        sig = 'C09:index-changes-state'
                    what = ('%s reopened%s with %s (index %d transactions old%s) differs from the reopen without '
                            'index: %s' % (name, ' read-only' if ro else '', vname, age,
                                           ', saved BEFORE the pack' if packed and si is not None else '', diff))
            if sig:
                viol.append((sig, what, dict(history=hist, pack=pack, target=name, variant=vname)))
            # model: same bytes, same index contents
            if model and si is not None and 'internal' in got and (cc is not None or name in ('final', 'packed')) \
                    and not vname.startswith('leftovers') and not vname.startswith('oldformat'):
                if si not in slot_of:
                    li = load_index_bytes(snaps[si][1], ck.tmp)
                    if li is None:
                        continue
                    model_lines.append('setidx %d %s' % (li[0], ','.join('%016x:%d' % kv for kv in li[1]) or '-'))
                    slot_of[si] = len(slot_of)
                k_, nb_ = (-1, 0) if cc is None else cc
                model_lines.append('open %d %d %d %d' % (slot_of[si], 1 if ro else 0, k_, nb_))
                it = got['internal']
                d = got['dump']
                exp = 'used=%d pos=%d ltid=%016x maxoid=%016x' % (it['used'], d['pos'], d['lastTransaction'], d['maxoid'])
                tail = 'n=%d ixfnv=%s len=%d' % (it['n'], it['ixfnv'], it['after_len'])
                if it['after_fnv']:
                    tail += ' fnv=' + it['after_fnv']
                model_checks[len(model_lines) - 1] = ('open', exp, tail)
    # fault sequence: the fsync of a tpc_finish raises; _finish closes the storage, and close() saves the index.
    # What a failed fsync means: the bytes written since the last successful fsync may be lost while the (later)
    # index file survives.  The saved index must describe a prefix of BOTH files.
    if rr.packed is None and pack is None:
        nt = max(tids or [L.TID_BASE]) + 0x1000000
        hist_ff = list(hist) + [dict(kind='commit', tid=nt, status=' ', user=['f', 0, 0], desc=['f', 3, 7],
                                     ext=['f', 0, 0], ops=[['store', 0x4243, ['f', 33, 5]]], save_index=False)]
        root2 = os.path.join(ck.tmp, 'aff-' + tag)
        if os.path.exists(root2):
            shutil.rmtree(root2)
        try:
            rr2 = L.run_history(hist_ff, root2, fsync_fault_at=len(hist_ff) - 1)
        except Exception:
            rr2 = None
        if rr2 is not None and (rr2.fsync_fault or '').startswith('raised'):
            files2 = L.read_dir(root2)
            idx2, full = files2.get('Data.fs.index'), files2.get('Data.fs', b'')
            voteoff = [e[2] for e in rr2.events if e[0] == 'write' and e[1] == 'Data.fs' and len(e[3]) > 1]
            o2, t2 = sorted(set(oids) | {0x4243}), sorted(set(tids) | {nt})
            if idx2 is not None and voteoff:
                for tname, data2 in (('fsync-failed-tail-present', full), ('fsync-failed-tail-lost', full[:voteoff[-1]])):
                    want = open_dump(wd, {'Data.fs': data2}, o2, t2, writes=True)
                    got = open_dump(wd, {'Data.fs': data2, 'Data.fs.index': idx2}, o2, t2, writes=True)
                    ck.case([hid, tname, 'index-saved-by-close'], True, None)
                    ck.count('variant:' + tname)
                    if 'error' in want:
                        continue
                    if 'error' in got:
                        viol.append(('C09:index-after-failed-fsync-changes-state', '%s: open with the index that close() '
                                     'saved after the failed fsync raised %s' % (tname, got['error']),
                                     dict(history=hist, pack=pack, target=tname, variant='index-saved-by-close')))
                    else:
                        diff = first_diff(got['dump'], want['dump'])
                        if diff:
                            viol.append(('C09:index-after-failed-fsync-changes-state', '%s: the index that close() saved '
                                         'after a tpc_finish whose fsync raised does not describe a prefix of the data '
                                         'file: reopen with it differs from the full scan: %s' % (tname, diff),
                                         dict(history=hist, pack=pack, target=tname, variant='index-saved-by-close')))
    # [I] fidelity of the _check_sanity model on index contents the property excludes (damaged /
    # mismatched indexes): model and implementation must take the same decision on the final file
    if model and rr.packed is None and snaps:
        li = load_index_bytes(snaps[-1][1], ck.tmp)
        try:
            ends = [t['end'] for t in L.parse_file(rr.final, rr.final[:4])]
        except L.ParseError:
            ends = []
        if li is not None and snaps[-1][0] <= len(evs):
            pos0, items = li
            pert = [(pos0, items[1:]), (pos0 + 8, items), (len(rr.final) + 10, items), (99, items)]
            if items:
                k, v = items[-1]
                pert.append((pos0, items[:-1] + [(k, v + 1)]))
                pert.append((pos0, [(k_, 4) for k_, _ in items]))
            for e in ends:
                if e != pos0:
                    pert.append((e, items))
            pert = [(rr.final, -1, pp, pi) for pp, pi in pert[:12]]
            # an index NEWER than the file (the file as it was after an earlier commit, the newest index)
            rets = [i for i, e in enumerate(can) if e[0] == 'ret']
            for j in sorted({len(rets) - 1, len(rets) // 2}):
                if 0 < j <= len(rets) and j < len(ends) + 1 and j - 1 < len(ends):
                    pert.append((rr.final[:ends[j - 1]], rets[j - 1] + 1, pos0, items))
            for pdata_, pcut, ppos, pitems in pert:
                got = open_perturbed(wd, pdata_, ppos, pitems, oids, tids)
                model_lines.append('setidx %d %s' % (ppos, ','.join('%016x:%d' % kv for kv in pitems) or '-'))
                model_lines.append('open %d 0 %d 0' % (len(slot_of), pcut))
                slot_of['pert%d' % len(slot_of)] = len(slot_of)
                model_checks[len(model_lines) - 1] = ('open', got[0], got[1]) if isinstance(got, tuple) else got
                ck.count('perturbed-index-used=%s' % (got[0][5] if isinstance(got, tuple) else 'err'))
    return dict(violations=viol, lines=model_lines, checks=model_checks, hist=hist)


def open_perturbed(wd, data, pos, items, oids, tids):
    """real open of `data` with an index file holding (pos, items), written by the real fsIndex.save"""
    from ZODB.fsIndex import fsIndex
    from ZODB.FileStorage import FileStorage
    L.write_dir(wd, {'Data.fs': data})
    ix = fsIndex()
    for k, v in items:
        ix[L.p64(k)] = v
    ix.save(pos, os.path.join(wd, 'Data.fs.index'))
    try:
        fs = FileStorage(os.path.join(wd, 'Data.fs'))
    except Exception as e:
        return c01.ERRKIND.get(type(e).__name__, 'err:Other(%s)' % type(e).__name__)
    try:
        its = [(L.u64(k), v) for k, v in fs._index.items()]
        exp = 'used=%d pos=%d ltid=%016x maxoid=%016x' % (fs._used_index, fs._pos, L.u64(fs.lastTransaction()),
                                                         L.u64(fs._oid))
        tail = 'n=%d ixfnv=%s' % (len(its), ix_fnv(its))
    finally:
        fs.close()
    return exp, tail


def _pre_pack_view(rr):
    v = L.RealRun()
    v.__dict__.update(rr.__dict__)
    v.events = rr.events[:rr.pre_pack_events]
    return v


# ---------------------------------------------------------------- steps that may block
BLOCKED = object()
STEP_TIMEOUT = 4


def call_with_timeout(fn, timeout):
    """run fn() in a daemon thread; BLOCKED if it has not returned after `timeout` seconds (the thread is
    abandoned), else its result (exceptions are re-raised here)"""
    import threading
    box = {}

    def body():
        try:
            box['r'] = fn()
        except BaseException as e:
            box['e'] = e
    th = threading.Thread(target=body, daemon=True)
    th.start()
    th.join(timeout)
    if th.is_alive():
        return BLOCKED
    if 'e' in box:
        raise box['e']
    return box['r']


# ---------------------------------------------------------------- part B: read-only sessions
READ_APIS = ['load', 'loadBefore', 'loadSerial', 'history', 'iterator', 'lastTransaction', 'getTid', 'getSize',
             'undoLog', 'lastInvalidations', 'record_iternext', 'isReadOnly', 'len', 'supportsUndo']
WRITE_APIS = ['store', 'deleteObject', 'restore', 'undo', 'new_oid', 'pack', 'tpc_begin', 'tpc_vote',
              'tpc_finish']
OTHER_APIS = ['tpc_abort']
EXTRA_REAL = ['getName', 'sortKey', 'undoInfo', 'lastTid', 'copyTransactionsFrom', 'storeBlob',
              'tpc_transaction', 'getExtensionMethods']          # real-only (not in the model's ApiOp)


def call_api(ro, name, oids, tids, rng):
    """perform one public call on the read-only instance; returns outcome class"""
    from ZODB.Connection import TransactionMetaData
    from ZODB.serialize import referencesf
    from ZODB.POSException import ReadOnlyError, StorageTransactionError
    oid = L.p64(rng.choice(oids or [1]))
    tid = L.p64(rng.choice(tids or [L.TID_BASE + 5]) + rng.choice([0, 1]))
    md = TransactionMetaData()
    try:
        if name == 'load':
            ro.load(oid, '')
        elif name == 'loadBefore':
            ro.loadBefore(oid, tid)
        elif name == 'loadSerial':
            ro.loadSerial(oid, tid)
        elif name == 'history':
            ro.history(oid, size=5)
        elif name == 'iterator':
            it = ro.iterator()
            for t in it:
                for r in t:
                    pass
            it.close()
        elif name == 'lastTransaction':
            ro.lastTransaction()
        elif name == 'getTid':
            ro.getTid(oid)
        elif name == 'getSize':
            ro.getSize()
        elif name == 'undoLog':
            ro.undoLog(0, -20)
        elif name == 'undoInfo':
            ro.undoInfo()
        elif name == 'lastInvalidations':
            ro.lastInvalidations(5)
        elif name == 'record_iternext':
            ro.record_iternext()
        elif name == 'isReadOnly':
            assert ro.isReadOnly()
        elif name == 'len':
            len(ro)
        elif name == 'supportsUndo':
            ro.supportsUndo()
        elif name == 'getName':
            ro.getName()
        elif name == 'sortKey':
            ro.sortKey()
        elif name == 'registerDB':
            ro.registerDB(None)
        elif name == 'lastTid':
            ro.lastTid(oid)
        elif name == 'tpc_transaction':
            ro.tpc_transaction()
        elif name == 'getExtensionMethods':
            ro.getExtensionMethods()
        elif name == 'store':
            ro.store(oid, L.Z64, b'x' * 5, '', md)
        elif name == 'deleteObject':
            ro.deleteObject(oid, tid, md)
        elif name == 'restore':
            ro.restore(oid, tid, b'y' * 3, '', None, md)
        elif name == 'undo':
            import base64
            ro.undo(base64.encodebytes(tid).rstrip(b'\n'), md)
        elif name == 'new_oid':
            ro.new_oid()
        elif name == 'pack':
            ro.pack(time.time(), referencesf)
        elif name == 'tpc_begin':
            ro.tpc_begin(md)
        elif name == 'tpc_vote':
            ro.tpc_vote(md)
        elif name == 'tpc_finish':
            ro.tpc_finish(md)
        elif name == 'tpc_abort':
            ro.tpc_abort(md)
        elif name == 'storeBlob':
            ro.storeBlob(oid, L.Z64, b'x', '/nonexistent', '', md)
        elif name == 'copyTransactionsFrom':
            from ZODB.MappingStorage import MappingStorage
            ms = MappingStorage()
            t = TransactionMetaData()
            ms.tpc_begin(t)
            ms.store(L.p64(77), L.Z64, b'data', '', t)
            ms.tpc_vote(t)
            ms.tpc_finish(t)
            ro.copyTransactionsFrom(ms)
        elif name == 'close':
            ro.close()
        return 'ok'
    except ReadOnlyError:
        return 'ReadOnly'
    except StorageTransactionError:
        return 'StorageTransaction'
    except Exception as e:
        return 'exc:' + type(e).__name__


REFUSALS = {'store': {'ReadOnly'}, 'deleteObject': {'ReadOnly'}, 'restore': {'ReadOnly'}, 'undo': {'ReadOnly'},
            'new_oid': {'ReadOnly'}, 'pack': {'ReadOnly'}, 'tpc_begin': {'ReadOnly'},
            'tpc_vote': {'ReadOnly', 'StorageTransaction'}, 'tpc_finish': {'ReadOnly', 'StorageTransaction'},
            'copyTransactionsFrom': {'ReadOnly'}, 'storeBlob': {'ReadOnly', 'exc:Unsupported'}}


def gen_ro_spec(rng, idx):
    """a self-contained, replayable read-only session"""
    n = rng.choice([4, 8, 12, 20])
    return dict(history=L.gen_history(rng, 'small', ntx=rng.choice([1, 2, 3, 4])),
                mode=['closed', 'tail', 'writer', 'writer-voted', 'tail', 'writer-begun', 'closed', 'writer-stored',
                      'writer-voted', 'writer'][idx % 10],
                blob=(idx % 3 == 1),
                calls=[rng.choice(READ_APIS + WRITE_APIS + WRITE_APIS + OTHER_APIS + EXTRA_REAL) for _ in range(n)] + ['close'],
                seed=rng.randrange(1 << 30), index=idx, opener=['direct', 'config'][idx % 2])


def ro_session(ck, spec):
    """one read-only session; returns (violations, model line, expected model output, mode, calls)"""
    import random
    from ZODB.FileStorage import FileStorage
    from ZODB.Connection import TransactionMetaData
    rng = random.Random(spec['seed'])
    root = os.path.join(ck.tmp, 'ro-%d' % spec.get('index', 0))
    if os.path.exists(root):
        shutil.rmtree(root)
    hist, mode = spec['history'], spec['mode']
    oids, tids = c01.history_oids_tids(hist)
    viol = []
    if spec.get('blob') and hist:
        hist = [dict(hist[0], opts=dict(via='direct', blob_dir=True))] + list(hist[1:])   # the blob directory exists
    rr = L.run_history(hist, root, keep_open=(mode.startswith('writer')))
    path = os.path.join(root, 'Data.fs')
    writer = getattr(rr, 'fs', None)
    blob_dir = os.path.join(root, 'blobs') if spec.get('blob') else None
    if mode == 'tail':
        # a crash image: the bytes of a voted, unfinished transaction (or a part of them) at the end
        tail = b''
        for e in rr.events:
            if e[0] == 'write' and e[1] == 'Data.fs' and len(e[3]) > 1:
                tail = e[3]
        tail = tail or (L.p64(L.TID_BASE + 999999) + L.p64(60) + b'c' + b'\0' * 6 + b'z' * 45)
        tid, rest = L.p64(L.u64(tail[:8]) + 0x1000000), tail[8:]
        cutlen = rng.choice([len(tail), len(tail), 1, 5, 22, 23, 30, len(tail) - 1, len(tail) // 2])
        with open(path, 'ab') as f:
            f.write((tid + rest)[:max(1, cutlen)])
    rec = vfs.Recorder(root)
    calls, outs = [], []
    voted_later = False
    with vfs.install(rec):
        md = None
        if mode in ('writer-voted', 'writer-begun', 'writer-stored'):
            # the writer is at one of the steps of a commit when the read-only instance is opened
            md = TransactionMetaData()
            writer.tpc_begin(md, tid=L.p64(max(tids) + 0x5000000))
            if mode != 'writer-begun':
                writer.store(L.p64(4242), L.Z64, b'in-flight' * (7 if mode == 'writer-voted' else 3000), '', md)
            if mode == 'writer-voted':
                writer.tpc_vote(md)
        rec.readonly_guard = True
        # read_only + create is refused and touches nothing
        snap0 = vfs.snapshot(root)
        for way in ('direct', 'config'):
            try:
                if way == 'direct':
                    x = FileStorage(path, read_only=True, create=True)
                else:
                    import ZODB.config
                    x = ZODB.config.storageFromString('<filestorage>\n path %s\n read-only true\n create true\n'
                                                      '</filestorage>\n' % path)
                x.close()
                viol.append(('C09:ro-create-not-refused', 'read_only together with create (%s) was accepted' % way,
                             dict(spec, calls=[])))
            except ValueError:
                pass
            except Exception as e:
                if not (isinstance(e, OSError) and e.errno == 30):
                    viol.append(('C09:ro-create-not-refused', 'read_only together with create (%s) raised %s instead of '
                                 'ValueError' % (way, L.ename(e)), dict(spec, calls=[])))
            if vfs.snapshot(root) != snap0 or any(e[0] == 'VIOLATED-RO' for e in rec.events):
                viol.append(('C09:ro-mutated:open', 'a refused read_only+create open (%s) modified the directory' % way,
                             dict(spec, calls=[])))
                rec.events[:] = [e for e in rec.events if e[0] != 'VIOLATED-RO']
                break
        before = vfs.snapshot(root)
        try:
            if spec.get('opener') == 'config':
                # the other way to open the same thing: a <filestorage> section with `read-only true`
                import ZODB.config
                ro = ZODB.config.storageFromString('<filestorage>\n  path %s\n  read-only true\n%s</filestorage>\n'
                                                   % (path, '  blob-dir %s\n' % blob_dir if blob_dir else ''))
                ck.count('ro-opener:config')
            elif blob_dir:
                ro = FileStorage(path, read_only=True, blob_dir=blob_dir)
                ck.count('ro-opener:blob_dir')
            else:
                ro = FileStorage(path, read_only=True)
            if not ro.isReadOnly():
                viol.append(('C09:ro-open-not-read-only', 'a storage opened read-only (%s, opener %s) reports isReadOnly() '
                             '== False' % (mode, spec.get('opener', 'direct')), dict(spec, calls=[])))
        except Exception as e:
            rec.readonly_guard = False
            sig = 'C09:ro-open-raised'
            if isinstance(e, OSError) and e.errno == 22:
                sig = 'C09:sanity-walk-before-file-start'
            if isinstance(e, OSError) and e.errno == 30:        # EROFS raised by the VFS read-only guard
                sig = 'C09:ro-mutated:open'
            viol.append((sig, 'read-only open (%s, opener %s) raised %s %s' % (mode, spec.get('opener', 'direct'),
                                                                                  L.ename(e), str(e)[:120]),
                         dict(spec, calls=[])))
            if writer is not None:
                if md is not None:
                    writer.tpc_abort(md)
                writer.close()
            return viol, None, None, mode, []
        # the read-only instance must show exactly the committed prefix (iterator, iterator(start), undoLog,
        # current records, every load …) although the unfinished tail stays in the file
        committed_pos = writer._pos if writer is not None else len(rr.final)
        refdir = os.path.join(ck.tmp, 'roref-%d' % spec.get('index', 0))
        with open(path, 'rb') as f:
            L.write_dir(refdir, {'Data.fs': f.read()[:committed_pos]})
        try:
            got = L.dump_storage(ro, oids, tids)
            ref = FileStorage(os.path.join(refdir, 'Data.fs'), read_only=True)
            try:
                want = L.dump_storage(ref, oids, tids)
            finally:
                ref.close()
            isknown, got, want = split_known_iterator_start(got, want, os.path.getsize(path) > committed_pos, tids)
            if isknown:
                viol.append((ITER_SIG % isknown, 'read-only instance (%s): iterator(start) %s on the unfinished tail; all '
                             'other queries are judged separately' % (mode, isknown), dict(spec, calls=[])))
            diff = first_diff(got, want)
            if diff:
                viol.append(('C09:ro-shows-uncommitted-tail', 'read-only instance (%s) does not show the state of the '
                             'committed prefix: %s' % (mode, diff), dict(spec, calls=[])))
        except Exception as e:
            viol.append(('C09:ro-dump-raised', 'dumping the read-only instance (%s) raised %s' % (mode, L.ename(e)),
                         dict(spec, calls=[])))
        if vfs.snapshot(root) != before or any(e[0] == 'VIOLATED-RO' for e in rec.events):
            viol.append(('C09:ro-mutated:reads', 'read-only instance (%s): the read-only queries modified the directory'
                         % mode, dict(spec, calls=[])))
            rec.events[:] = [e for e in rec.events if e[0] != 'VIOLATED-RO']
            before = vfs.snapshot(root)
        names = list(spec['calls'])
        if not names or names[-1] != 'close':
            names.append('close')
        if not spec.get('exact_calls'):
            # every session ends with refused writes IN A ROW (a refusal must not leave a lock behind)
            names = names[:-1] + ['tpc_begin', 'store', 'tpc_begin', 'new_oid', 'close']
        blocked = False
        for name in names:
            out = call_with_timeout(lambda: call_api(ro, name, oids, tids, rng), STEP_TIMEOUT)
            if out is BLOCKED:
                # the step did not come back: a verdict with this session as failing input, not a hang
                calls.append(name)
                prev_refused = [c for c in calls[:-1] if c in REFUSALS]
                sig = 'C09:ro-second-write-blocks' if (name in REFUSALS and prev_refused) else 'C09:step-blocked'
                viol.append((sig, 'read-only instance (%s): %s did not return within %d s%s' % (
                    mode, name, STEP_TIMEOUT, ' after the refused %s (a refusal left a lock behind)' % prev_refused[-1]
                    if prev_refused else ''), dict(spec, calls=calls[:], exact_calls=True)))
                blocked = True
                break
            calls.append(name)
            outs.append(out)
            ck.count('api:' + name)
            ck.count('out:' + out.split(':')[0] if not out.startswith('exc') else 'out:' + out)
            if name in REFUSALS and out not in REFUSALS[name]:
                viol.append(('C09:ro-write-not-refused:' + name, 'read-only instance (%s): %s returned %s instead of '
                             'raising ReadOnlyError' % (mode, name, out), dict(spec, calls=calls[:])))
            bad = [e for e in rec.events if e[0] == 'VIOLATED-RO']
            after = vfs.snapshot(root)
            if bad or after != before:
                changed = sorted(k for k in set(before) | set(after) if before.get(k) != after.get(k))
                viol.append(('C09:ro-mutated:' + name, 'read-only instance (%s): %s modified the directory (%s; events %s)'
                             % (mode, name, changed, [b[1:3] for b in bad][:3]), dict(spec, calls=calls[:])))
                rec.events[:] = [e for e in rec.events if e[0] != 'VIOLATED-RO']
                before = after
            # let the writer make progress between the read-only calls
            if writer is not None and rng.random() < 0.3 and name != 'close':
                rec.readonly_guard = False
                if md is not None:
                    if rng.random() < 0.5:
                        if mode != 'writer-voted' and not voted_later:
                            writer.tpc_vote(md)
                        writer.tpc_finish(md)
                    else:
                        writer.tpc_abort(md)
                    md = None
                    voted_later = True
                else:
                    md = TransactionMetaData()
                    writer.tpc_begin(md)
                    writer.store(L.p64(5000 + len(calls)), L.Z64, b'later' * 3, '', md)
                    writer.tpc_vote(md)
                    if rng.random() < 0.5:
                        writer.tpc_finish(md)
                        md = None
                rec.readonly_guard = True
                before = vfs.snapshot(root)
        rec.readonly_guard = False
        if writer is not None:
            if md is not None:
                writer.tpc_abort(md)
            writer.close()
    modelled = [(c, o) for c, o in zip(calls, outs) if c not in EXTRA_REAL]
    line = 'api 1 ' + ' '.join(c for c, _ in modelled)
    exp = [('ok' if not o.startswith('exc') else 'ok') if c not in REFUSALS else o for c, o in modelled]
    return viol, line, exp, mode, calls


# ---------------------------------------------------------------- read-only open with a missing blob directory
def ro_missing_blob_dir(ck):
    """read_only=True with a blob_dir that does not exist (or lacks tmp/.layout), through the constructor and
    through ZODB.config: the open must not create anything.  Returns [(sig, what, case)]"""
    from ZODB.FileStorage import FileStorage
    import ZODB.config
    out = []
    for way in ('constructor', 'config'):
        root = os.path.join(ck.tmp, 'roblob-' + way)
        if os.path.exists(root):
            shutil.rmtree(root)
        hist = L.gen_history(__import__('random').Random(7), 'small', ntx=2)
        L.run_history(hist, root)
        path, bd = os.path.join(root, 'Data.fs'), os.path.join(root, 'blobs')

        def tree():
            return sorted(os.path.relpath(os.path.join(dp, x), root) for dp, dn, fn in os.walk(root) for x in dn + fn)
        before, snap = tree(), vfs.snapshot(root)
        try:
            if way == 'constructor':
                ro = FileStorage(path, read_only=True, blob_dir=bd)
            else:
                ro = ZODB.config.storageFromString('<filestorage>\n path %s\n read-only true\n blob-dir %s\n'
                                                   '</filestorage>\n' % (path, bd))
            ro.close()
        except Exception as e:
            out.append(('C09:ro-open-raised', 'read-only open with a missing blob directory (%s) raised %s' % (way, L.ename(e)),
                        dict(ro_blob=way, calls=[])))
        ck.case(['ro-missing-blob-dir', way], True, None)
        created = [x for x in tree() if x not in before]
        changed = sorted(k for k in set(snap) & set(vfs.snapshot(root)) if snap[k] != vfs.snapshot(root)[k])
        if created or changed:
            out.append(('C09:ro-open-creates-blob-dir', 'a read-only open (%s) with a blob directory that does not exist '
                        'created %s%s' % (way, created, ' and changed %s' % changed if changed else ''),
                        dict(ro_blob=way, calls=[])))
    return out


# ---------------------------------------------------------------- a second writable open while a writer is active
def refused_second_writer(ck, rng, idx):
    """a writer is inside a transaction whose records exceed the staging file's buffer; another attempt to open
    the same Data.fs for writing must be refused (LockError) WITHOUT modifying any file, and the writer's
    transaction must commit exactly what was stored.  Returns [(sig, what, case)]"""
    from ZODB.FileStorage import FileStorage
    from ZODB.Connection import TransactionMetaData
    import zc.lockfile
    root = os.path.join(ck.tmp, 'w2-%d' % idx)
    if os.path.exists(root):
        shutil.rmtree(root)
    hist = L.gen_history(rng, 'small', ntx=rng.choice([1, 2]))
    big = rng.choice([9000, 20000, 33000])
    case = dict(history=hist, second_writer=True, big=big)
    out = []
    rr = L.run_history(hist, root, keep_open=True)
    writer = rr.fs
    path = os.path.join(root, 'Data.fs')
    dA, dB = L.fill(big, 17), L.fill(300, 99)
    try:
        md = TransactionMetaData(b'', b'second writer scenario', b'')
        writer.tpc_begin(md)
        writer.store(L.p64(0x6161), L.Z64, dA, '', md)
        before = vfs.snapshot(root)
        try:
            other = FileStorage(path)
            other.close()
            out.append(('C09:second-writer-not-refused', 'a second writable open while a writer holds the database '
                        'succeeded', case))
        except zc.lockfile.LockError:
            pass
        except Exception as e:
            out.append(('C09:second-writer-open-raised', 'a second writable open while a writer is active raised %s '
                        'instead of LockError' % L.ename(e), case))
        after = vfs.snapshot(root)
        if after != before:
            changed = sorted(k for k in set(before) | set(after) if before.get(k) != after.get(k))
            out.append(('C09:refused-open-mutated', 'a writable open that was REFUSED (LockError, a writer is active) '
                        'modified %s (sizes %s -> %s)' % (changed, [len(before.get(k) or b'') for k in changed],
                                                          [len(after.get(k) or b'') for k in changed]), case))
        writer.store(L.p64(0x6262), L.Z64, dB, '', md)
        writer.tpc_vote(md)
        tid = writer.tpc_finish(md)
        bad = None
        for o, d in ((0x6161, dA), (0x6262, dB)):
            try:
                if writer.load(L.p64(o), '') != (d, tid):
                    bad = 'load(%x) does not return what was stored' % o
            except Exception as e:
                bad = 'load(%x) raised %s' % (o, L.ename(e))
        writer.close()
        with open(path, 'rb') as f:
            final = f.read()
        try:
            txs = L.parse_file(final, final[:4])
            recs = {r['oid']: r['data'] for r in txs[-1]['recs']}
            if recs.get(0x6161) != dA or recs.get(0x6262) != dB:
                bad = bad or 'the committed records do not hold what was stored'
        except L.ParseError as e:
            bad = bad or 'the data file is no longer well-formed: %s' % e
        if bad:
            out.append(('C09:refused-open-damaged-commit', 'after a refused second writable open the writer committed its '
                        'transaction, but %s' % bad, case))
    finally:
        try:
            writer.close()
        except Exception:
            pass
    return out


# ---------------------------------------------------------------- main
def load_corpus():
    cases = []
    if os.path.isdir(CORPUS):
        for fn in sorted(os.listdir(CORPUS)):
            if fn.endswith('.json'):
                with open(os.path.join(CORPUS, fn)) as f:
                    j = json.load(f)
                cases.append((fn, j.get('case', j)))
    return cases


def main(argv=None):
    ck = Check('C09', argv)
    ck.extra['modules'] = ['Props.C09', 'Drivers.Disk']
    ck.run_gate(ck.extra['modules'], ['Props.C09'])
    runs = []          # (name, history, pack)
    nro = 0
    ro_specs = []
    if ck.replay_path:
        with open(ck.replay_path) as f:
            j = json.load(f)['case']
        if 'calls' in j or j.get('second_writer'):
            ro_specs = [j]
        else:
            runs = [('replay', j['history'], j.get('pack'))]
    else:
        for fn, j in load_corpus():
            runs.append((fn, j['history'], j.get('pack')))
        ngen = 6 if not ck.thorough else 120
        npack = 10 if not ck.thorough else 150
        for i in range(ngen):
            runs.append(('gen%d' % i, L.gen_history(ck.rng, ck.rng.choice(['small', 'small', 'small', 'meta'])), None))
        for i in range(npack):
            runs.append(('pack%d' % i, gen_pack_history(ck.rng, align=(i % 3 != 0)), False))
        for i in range(4 if not ck.thorough else 60):
            h, pk = gen_shift_pack_history(ck.rng)
            runs.append(('shiftpack%d' % i, h, pk))
        for i in range(4 if not ck.thorough else 60):
            h, pk = gen_uncreate_pack_history(ck.rng)
            runs.append(('uncreatepack%d' % i, h, pk))
        nro = 50 if not ck.thorough else 2000
    all_lines, expectations = [], []
    specs = [dict(name=name, history=hist, pack=pack, seed=ck.rng.randrange(1 << 30), thorough=ck.thorough,
                  tmp=ck.tmp) for name, hist, pack in runs]
    procs = int(os.environ.get('VERIF_PROCS', '8' if not ck.thorough else '16'))
    if procs > 1 and len(specs) > 2:
        import multiprocessing
        with multiprocessing.get_context('fork').Pool(procs) as pool:
            results = pool.map(part_a_worker, specs, chunksize=1)
    else:
        results = [part_a_worker(sp) for sp in specs]
    for res in results:
        for canonical, nontriv, sample in res['cases']:
            ck.case(canonical, nontriv, sample)
        for k, v in res['counts'].items():
            ck.count(k, v)
        for what, case in res['mismatches']:
            ck.mismatch(what, case)
        for sig, what, case in res['violations']:
            ck.violation(sig, what, case)
        expectations.append((res['name'], res['hist'], len(all_lines), res['checks']))
        all_lines += res['lines']
    if ck.replay_path is None or (ro_specs and ro_specs[0].get('ro_blob')):
        try:
            for sig, what, case in ro_missing_blob_dir(ck):
                ck.violation(sig, what, case)
        except Exception as e:
            ck.violation('C09:ro-session-raised', 'the missing-blob-directory probe raised %s: %s'
                         % (type(e).__name__, str(e)[:160]), dict(ro_blob='probe', calls=[]))
        if ck.replay_path is not None:
            ro_specs = []
    # ---- a refused second writer modifies nothing
    nsw = 0
    if ck.replay_path is None:
        nsw = 6 if not ck.thorough else 60
    elif ro_specs and ro_specs[0].get('second_writer'):
        nsw, ro_specs = 3, []
    for i in range(nsw):
        ck.case(['second-writer', i], True, None)
        try:
            for sig, what, case in refused_second_writer(ck, ck.rng, i):
                ck.violation(sig, what, case)
        except Exception as e:
            ck.violation('C09:second-writer-scenario-raised', 'the second-writer scenario raised %s: %s'
                         % (type(e).__name__, str(e)[:160]), dict(second_writer=True, calls=[]))
    # ---- read-only sessions
    api_lines = []
    ro_specs += [gen_ro_spec(ck.rng, i) for i in range(nro)]
    nblocked = 0
    for i, spec in enumerate(ro_specs):
        if nblocked >= 2:
            # two sessions already ended in a blocked step: enough failing inputs, keep the run time normal
            ck.count('ro-sessions-skipped-after-blocked-steps', len(ro_specs) - i)
            break
        try:
            viol, line, exp, mode, calls = ro_session(ck, spec)
            nblocked += any('block' in v[0] for v in viol)
        except Exception as e:
            ck.violation('C09:ro-session-raised', 'setting up / running read-only session %d raised %s: %s'
                         % (i, type(e).__name__, str(e)[:160]), spec)
            continue
        if viol and len(spec['calls']) > 2 and any(not x[0].startswith('C09:ro-iterator-start-') for x in viol) \
                and not any('block' in x[0] for x in viol):
            # shrink the call list (the session is self-contained)
            sig0 = viol[0][0]

            def fails(sub, spec=spec, sig0=sig0):
                v = ro_session(ck, dict(spec, calls=list(sub)))[0]
                return any(x[0] == sig0 for x in v)
            try:
                small = ddmin(spec['calls'], fails, max_tests=30)
                v2 = ro_session(ck, dict(spec, calls=list(small)))[0]
                if any(x[0] == sig0 for x in v2):
                    viol = [x for x in v2 if x[0] == sig0] + [x for x in viol if x[0] != sig0]
            except Exception:
                pass
        ck.count('ro-mode:' + mode)
        nwrites = sum(1 for c in calls if c in REFUSALS)
        ck.case(['ro', i, mode, calls], nwrites >= 1,
                dict(mode=mode, calls=calls[:8]) if i < 1 else None)
        for sig, what, case in viol:
            ck.violation(sig, what, case)
        if line:
            api_lines.append((len(all_lines), line, exp, mode, calls))
            all_lines.append(line)
    # ---- model
    if all_lines:
        out = run_driver('Disk', all_lines, timeout=1500)
        for name, hist, base, checks in expectations:
            for k, want in sorted(checks.items()):
                got = out[base + k]
                if isinstance(want, tuple):
                    ok = got.startswith(want[1] + ' how=') and (' ' + want[2]) in got
                    want = want[1] + ' … ' + want[2]
                else:
                    ok = got == want
                if not ok:
                    ck.mismatch('run %s: model/impl differ at %r: impl %s | model %s' % (
                        name, all_lines[base + k][:120], want[:300], got[:300]), dict(history=hist))
                    break
                ck.count('model_lines_compared')
        for pos, line, exp, mode, calls in api_lines:
            got = out[pos].split()
            if got[0] != 'ev=0' or got[1:] != exp:
                ck.mismatch('read-only session (%s): model %s | impl %s' % (mode, ' '.join(got), ' '.join(exp)),
                            dict(mode=mode, calls=calls))
            else:
                ck.count('model_ro_sessions_compared')
    ck.finish(rule='part A: a case = (history, target file, index/side-file variant, read-only?); targets = final file, '
                   'crash images with a torn tail, packed file; variants = every earlier .index the storage wrote '
                   '(forced _save_index at random moments), truncations of the newest one (quick 64 lengths, thorough '
                   'all), leftover .tmp/.lock/.pack/.old/.tr0/.index_tmp junk; non-trivial = the index is >= 2 '
                   'transactions old or the file has a torn tail.  part B: a case = one read-only session of 4-20 '
                   'random public calls (+close) on a closed file / a file with a torn or status-c tail / next to an '
                   'active writer; non-trivial = the session issues >= 1 write API',
              assumptions=['arbitrary bit damage inside an index file is excluded (property text); truncations are included',
                           'fault sequence "fsync of tpc_finish raises": the bytes written to Data.fs since the last successful '
                           'fsync may be lost while the index file that close() saves afterwards survives (that is what a '
                           'failed fsync means); both the tail-present and the tail-lost file are reopened with that index',
                           'read-only storages are opened both directly and through a ZODB.config <filestorage> section, with '
                           'and without blob_dir, while the writer is idle / begun / has stored 27 KB / has voted, and during a '
                           'pack (before every whole-file operation; oracle-only: dump equals the unpacked or the packed file); '
                           'read_only+create must be refused untouched; side files also zero-length and (.old/.pack/.trN) as '
                           'directories; permission-denied variants are not run (the checks run as root); indexes newer than '
                           'the file are compared model-vs-implementation only (outside the property)',
                           'cleanup() — the test-support call that deletes the database files, not part of '
                           'ZODB.interfaces — is not counted as a public write API',
                           'pickle framing of the index file is idealised as a prefix-free code in the model; every '
                           'truncation is executed on the real fsIndex.load',
                           'the stale-index-across-pack witness is proved about the bytes pack produces in the '
                           'reproduced recipe; pack itself is modelled in C07/C08'])


if __name__ == '__main__':
    try:
        main()
    except InfraError as e:
        print('INFRA-ERROR', e)
        sys.exit(2)
