"""Importable classes used by the C11/C12 harness (persistent objects must be picklable by
module path): a custom Persistent class and a failing second resource manager."""
import persistent


from persistent.list import PersistentList
from persistent.mapping import PersistentMapping

# python ids of the objects whose state currently cannot be pickled (set by the harness around one
# commit; nothing is stored on the object itself, so "repairing" it does not mark it changed)
PICKLE_FAIL = set()


class _MaybeUnpicklable:
    def __getstate__(self):
        if id(self) in PICKLE_FAIL:
            raise Injected('pickle')
        return super().__getstate__()


class PMap(_MaybeUnpicklable, PersistentMapping):
    pass


class PList(_MaybeUnpicklable, PersistentList):
    pass


class Node(_MaybeUnpicklable, persistent.Persistent):
    """custom persistent object: integer payload `v`, references in the tuple `refs`"""

    def __init__(self):
        self.v = 0
        self.refs = ()


class BigNode(Node):
    """a Node whose pickled state is larger than 64 KiB (copy loops work in 64 KiB chunks)"""

    def __init__(self):
        Node.__init__(self)
        self.pad = 'x' * 70000


class SelfActNode(Node):
    """a Node that does not stay a ghost: when it is invalidated it reloads its state at once (like a
    persistent class, or ZODB's SelfActivatingObject test helper)"""

    def _p_invalidate(self):
        super()._p_invalidate()
        try:
            self._p_activate()
        except Exception:
            pass


class Injected(Exception):
    """failure injected by the harness (second resource manager / storage fault)"""


class FailingRM:
    """A second resource manager joined to the transaction; raises `Injected` in one phase.
    `key` decides whether it is sorted before or after the ZODB connection."""

    def __init__(self, key, phase):
        self.key, self.phase = key, phase
        self.calls = []

    def sortKey(self):
        return self.key

    def _f(self, ph):
        self.calls.append(ph)
        if ph == self.phase:
            raise Injected(ph)

    def abort(self, txn):
        self.calls.append('abort')

    def tpc_begin(self, txn):
        self._f('begin')

    def commit(self, txn):
        self._f('commit')

    def tpc_vote(self, txn):
        self._f('vote')

    def tpc_finish(self, txn):
        self._f('finish')

    def tpc_abort(self, txn):
        self.calls.append('tpc_abort')


class GrowNode(Node):
    """a Node whose __getstate__ creates (once) a new persistent child: an object that first exists while its
    parent is being pickled is stored with it"""

    def __getstate__(self):
        if 'child' not in self.__dict__:
            self.__dict__['child'] = Node()
        return super().__getstate__()


class PlainRM:
    """a resource manager WITHOUT savepoint support"""

    def __init__(self):
        self.calls = []

    def sortKey(self):
        return '~plain'

    def abort(self, txn):
        self.calls.append('abort')

    def tpc_begin(self, txn):
        pass

    def commit(self, txn):
        pass

    def tpc_vote(self, txn):
        pass

    def tpc_finish(self, txn):
        pass

    def tpc_abort(self, txn):
        pass
