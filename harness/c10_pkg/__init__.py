"""package for C10: conflict resolution must import classes that live in a package SUBMODULE
(`__import__(name, {}, {}, ['cluck'])` returns the submodule, plain `__import__(name)` the top package)"""
