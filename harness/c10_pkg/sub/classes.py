"""a resolvable class in a dotted module (see c10_classes.py for the conventions: the state of an
instance is its tree `v`; the resolver logs its three arguments and returns a seeded function of them)"""
import persistent


class DeepMerge(persistent.Persistent):
    CID = 19
    SEED = 19

    def __init__(self, v=0):
        self.v = v

    def __getstate__(self):
        return self.v

    def __setstate__(self, v):
        self.v = v

    def _p_resolveConflict(self, old, committed, new):
        import c10_classes
        c10_classes._log(self.CID, old, committed, new)
        return (self.SEED, (old, (committed, new)))
