"""a module that EXISTS but cannot be imported in the resolving process: importing it raises a plain
ImportError (not ModuleNotFoundError), as a module does whose own imports fail.  Conflict resolution
must treat classes of this module as not importable (placeholder), never let the error escape."""
raise ImportError("c10_pkg.breaks_on_import cannot be imported here (on purpose)")
