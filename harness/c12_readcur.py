"""C12/C11, readCurrent family (oracle only: the Lean model has no readCurrent).

Three committed objects X, Y, Z (c11_classes.Node under the root), the connection under test and an
independent second connection that commits in between.

    mod k v | read k | rc k            rc: load the object, then conn.readCurrent(obj)
    tch k                              obj._p_changed = True, then = False again (the legal idiom: the object is
                                       registered, the connection joins, nothing is to be written — a savepoint
                                       taken now has an EMPTY savepoint store)
    ext k v                            the second connection commits a new value of k
    sp | rb n | commit | abort | peek k

Observation per op:  <result> | X:<G|U|C>[=<v>] Y:… Z:…
Oracle: a commit fails with ConflictError when an object it writes, and with ReadConflictError when an
object it declared current (rc, at any time in the transaction — a rollback does not withdraw a declaration),
was committed by the other connection since the transaction's view was taken; otherwise it succeeds and
writes exactly the modified objects; savepoint/rollback/abort as in C12."""
import os

from c11_lib import errname, make_storage

NAMES = 'XYZ'


class World5:
    def __init__(self, case, tmpdir, tag):
        import ZODB
        import transaction
        from c11_classes import Node
        self.st = make_storage(case['kind'], tmpdir, tag)
        self.db = ZODB.DB(self.st)
        self.tm = transaction.TransactionManager()
        self.conn = self.db.open(self.tm)
        for k in NAMES:
            self.conn.root()[k] = Node()
        self.tm.commit()
        self.objs = {k: self.conn.root()[k] for k in NAMES}
        for o in self.objs.values():
            o.v
        self.tm2 = transaction.TransactionManager()
        self.c2 = self.db.open(self.tm2)
        self.sps = []

    def close(self):
        for f in (self.tm.abort, self.tm2.abort, self.db.close):
            try:
                f()
            except Exception:
                pass

    def vector(self):
        out = []
        for k in NAMES:
            o = self.objs[k]
            ch = o._p_changed
            s = '%s:%s' % (k, 'G' if ch is None else ('C' if ch else 'U'))
            if ch is not None:
                s += '=%s' % o.__dict__.get('v', '?')
            out.append(s)
        return ' '.join(out)

    def run_op(self, op):
        t = op.split()
        try:
            if t[0] == 'mod':
                self.objs[t[1]].v = int(t[2])
                r = 'ok'
            elif t[0] == 'read':
                r = 'v=%d' % self.objs[t[1]].v
            elif t[0] == 'rc':
                self.objs[t[1]].v
                self.conn.readCurrent(self.objs[t[1]])
                r = 'ok'
            elif t[0] == 'tch':
                o = self.objs[t[1]]
                o.v
                if o._p_changed:
                    r = 'skip'          # (modified: withdrawing would drop a real change — not this op's subject)
                else:
                    o._p_changed = True
                    o._p_changed = False
                    r = 'ok'
            elif t[0] == 'ext':
                self.tm2.begin()
                try:
                    self.c2.root()[t[1]].v = int(t[2])
                    self.tm2.commit()
                finally:
                    self.tm2.abort()
                r = 'ok'
            elif t[0] == 'sp':
                self.sps.append(self.tm.savepoint())
                r = 'ok'
            elif t[0] == 'rb':
                if int(t[1]) >= len(self.sps):
                    r = 'err:InvalidSavepoint'
                else:
                    self.sps[int(t[1])].rollback()
                    r = 'ok'
            elif t[0] == 'commit':
                self.sps = []
                self.tm.commit()
                r = 'ok'
            elif t[0] == 'abort':
                self.sps = []
                self.tm.abort()
                r = 'ok'
            elif t[0] == 'peek':
                self.tm2.begin()
                try:
                    r = 'v=%d' % self.c2.root()[t[1]].v
                finally:
                    self.tm2.abort()
            else:
                r = 'bad-op'
        except Exception as e:
            r = ('fail:' if t[0] == 'commit' else 'err:') + errname(e)
            if t[0] == 'commit':
                try:
                    self.tm.abort()
                except Exception:
                    pass
        return r + ' | ' + self.vector()


def run_real(case, tmpdir, tag):
    import shutil
    w = World5(case, tmpdir, tag)
    try:
        return ['ok | ' + w.vector()] + [w.run_op(op) for op in case['ops']]
    finally:
        w.close()
        shutil.rmtree(os.path.join(tmpdir, 'fs-' + tag), ignore_errors=True)


def judge(case, real):
    com = {k: 0 for k in NAMES}
    vis = dict(com)
    dirty, touched, declared, stale = set(), set(), set(), set()
    joined = False
    sps = []
    for idx, op in enumerate(case['ops'], 1):
        res, vec = real[idx].split(' | ')
        t = op.split()
        k = t[0]
        if k == 'mod':
            vis[t[1]] = int(t[2])
            dirty.add(t[1])
            touched.add(t[1])
            joined = True
            exp = {'ok'}
        elif k == 'tch':
            if t[1] in dirty:
                exp = {'skip'}
            else:
                exp = {'ok'}
                joined = True
        elif k == 'read':
            exp = {'v=%d' % vis[t[1]]}
        elif k == 'rc':
            declared.add(t[1])
            exp = {'ok'}
        elif k == 'ext':
            com[t[1]] = int(t[2])
            stale.add(t[1])
            exp = {'ok'}
        elif k == 'sp':
            sps.append((dict(vis), set(touched), joined))
            dirty = set()
            exp = {'ok'}
        elif k == 'rb':
            n = int(t[1])
            if n >= len(sps) or sps[n] is None:
                exp = {'err:InvalidSavepoint'}
            else:
                vis, touched, dirty = dict(sps[n][0]), set(sps[n][1]), set()
                joined = sps[n][2]      # (a savepoint made before the connection joined: rolling back to it is abort())
                for m in range(n + 1, len(sps)):
                    sps[m] = None
                exp = {'ok'}
        elif k == 'commit':
            exp = set()
            if touched & stale:
                exp.add('fail:Conflict')
            if (declared - touched) & stale and (touched or joined):
                exp.add('fail:ReadConflict')        # (checked only when the connection takes part in the commit)
            if not exp:
                exp = {'ok'}
                com.update({x: vis[x] for x in touched})
            vis = dict(com)
            dirty, touched, declared, stale, sps = set(), set(), set(), set(), []
            joined = False
        elif k == 'abort':
            exp = {'ok'}
            vis = dict(com)
            dirty, touched, declared, stale, sps = set(), set(), set(), set(), []
            joined = False
        elif k == 'peek':
            exp = {'v=%d' % com[t[1]]}
        else:
            return ('taint', idx)
        if res not in exp:
            return (idx, 'C12:readcur:%s:result' % k, 'op %r returned %r, the property requires %s'
                    % (op, res, ' or '.join(sorted(exp))))
        for item in vec.split():
            name, rest = item.split(':')
            st = rest[0]
            val = rest[2:] if len(rest) > 1 else None
            if name in dirty:
                if st != 'C':
                    return (idx, 'C12:readcur:%s:modified-object-not-changed' % k,
                            'object %s was modified but _p_changed is %s after %r' % (name, st, op))
            elif st == 'C':
                return (idx, 'C12:readcur:%s:object-not-clean' % k, 'object %s is marked changed after %r' % (name, op))
            if st != 'G' and val != str(vis[name]):
                return (idx, 'C12:readcur:%s:value' % k, 'object %s shows %s, expected %d after %r'
                        % (name, val, vis[name], op))
    return None


def gen(rng, kind):
    if rng.random() < 0.3:
        # a declaration made after a savepoint (and rolled back over), or saved through one, still protects
        a, b, c = rng.sample(NAMES, 3)
        v = rng.randrange(1, 9)
        ops = ['mod %s %d' % (a, v), 'sp', 'rc %s' % b]
        if rng.random() < 0.5:
            ops += ['mod %s %d' % (c, v + 1), 'sp', 'rb %d' % rng.choice([0, 1])]
        else:
            ops += ['rb 0']
        if rng.random() < 0.7:
            ops += ['ext %s %d' % (rng.choice([b, b, c]), 10 + v)]
        ops += ['mod %s %d' % (a, v + 2), 'commit', 'read %s' % b, 'mod %s %d' % (a, v + 3), 'commit']
        ops += ['read %s' % k for k in NAMES] + ['peek %s' % k for k in NAMES]
        return dict(kind=kind, n=3, ops=ops, family='readcur')
    if rng.random() < 0.2:
        # a savepoint of a joined connection that has nothing to write (an EMPTY savepoint store), further
        # savepoints and rollbacks to it, then real changes and the commit
        a, b, c = rng.sample(NAMES, 3)
        v = rng.randrange(1, 9)
        ops = ['tch %s' % a, 'sp']
        if rng.random() < 0.3:
            ops += ['sp']
        if rng.random() < 0.5:
            ops += ['mod %s %d' % (b, v), 'sp', 'rb 0']
            if rng.random() < 0.5:
                ops += ['read %s' % b]
        if rng.random() < 0.8:
            ops += ['mod %s %d' % (c, v + 1)]
        if rng.random() < 0.3:
            ops += ['rc %s' % a]
        ops += ['commit', 'mod %s %d' % (a, v + 2), 'commit']
        ops += ['read %s' % k for k in NAMES] + ['peek %s' % k for k in NAMES]
        return dict(kind=kind, n=3, ops=ops, family='readcur')
    ops = []
    nsp = 0
    for _ in range(rng.choice([5, 8, 12, 16])):
        r = rng.random()
        k = rng.choice(NAMES)
        v = rng.randrange(1, 10)
        if r < 0.22:
            ops.append('mod %s %d' % (k, v))
        elif r < 0.27:
            ops.append('tch %s' % k)
        elif r < 0.38:
            ops.append('rc %s' % k)
        elif r < 0.46:
            ops.append('read %s' % k)
        elif r < 0.58:
            ops.append('ext %s %d' % (k, 10 + v))
        elif r < 0.70:
            ops.append('sp')
            nsp += 1
        elif r < 0.80 and nsp:
            ops.append('rb %d' % rng.randrange(nsp))
        elif r < 0.90:
            ops.append('commit')
            nsp = 0
        elif r < 0.95:
            ops.append('abort')
            nsp = 0
        else:
            ops.append('peek %s' % k)
    ops += ['commit'] + ['read %s' % k for k in NAMES] + ['peek %s' % k for k in NAMES]
    return dict(kind=kind, n=3, ops=ops, family='readcur')
