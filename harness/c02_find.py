"""Builder helper (not a registered check): search seeded C02 cases for one the direct oracle rejects
on the tree given by ZODB_REPO, shrink it and write it as a corpus file.
usage: ZODB_REPO=<worktree> [KIND=file] [NEED2=1] [S=seed] python c02_find.py <max cases> <out.json> [signature]"""
import json
import os
import random
import sys
import tempfile

repo = os.environ.get('ZODB_REPO', '/repo')
sys.path.insert(0, repo + '/src')
sys.path.insert(0, os.path.dirname(os.path.abspath(__file__)))
import c02  # noqa: E402


def main():
    n_max, out = int(sys.argv[1]), sys.argv[2]
    want = sys.argv[3] if len(sys.argv) > 3 else None
    kind, need2 = os.environ.get('KIND'), os.environ.get('NEED2')
    rng = random.Random(int(os.environ.get('S', '1')))
    tmp = tempfile.mkdtemp()
    n = 0
    for i in range(n_max):
        case = c02.gen_case(rng, True, i)
        if (kind and case['kind'] != kind) or (need2 and not case.get('nobj2')):
            continue
        n += 1
        v = c02.oracle(c02.run_case(case, tmp))
        if v and (want is None or v[0][0] == want):
            sig = v[0][0]
            print('found at', i, 'after', n, v[0])
            small = c02.shrink(case, tmp, sig)
            print('shrunk', small['progs'], c02.oracle(c02.run_case(small, tmp))[:1])
            with open(out, 'w') as f:
                json.dump(dict(case=small, note=os.environ.get('NOTE', '')), f, indent=1)
            return
    print('not found in', n)


if __name__ == '__main__':
    main()
