"""C13 helpers: a real blob storage in a scratch directory with
  * every call that crosses the storage boundary (tpc_begin, store, storeBlob, restoreBlob,
    tpc_vote, tpc_finish, tpc_abort, undo, pack) logged as one op line of Drivers/Blob.lean
    together with the REAL observation after the call (outcome | raw events on committed-named
    paths | set + contents of <oid>/<tid>.blob | committed blob records from storage.iterator());
  * the recording VFS underneath (renames / removes / links / write-opens on committed paths);
  * BlobFile opens recorded (BlobFile is a raw FileIO, the VFS does not see it).
Nothing here judges anything: the oracle lives in c13.py."""
import logging
import os
import re
import sys
import time
from base64 import decodebytes

sys.path.insert(0, os.path.dirname(os.path.abspath(__file__)))
import vfs  # noqa: E402

logging.disable(logging.CRITICAL)

BLOB_RE = re.compile(r'^((?:0x[0-9a-f]{2}/){7}0x[0-9a-f]{2})/0x([0-9a-f]{16})\.blob$')      # bushy layout
LAWN_RE = re.compile(r'^0x([0-9a-f]{1,16})/0x([0-9a-f]{16})\.blob$')                           # lawn layout


def u64(b):
    return int.from_bytes(b, 'big')


def p64(n):
    return n.to_bytes(8, 'big')


def key_of_rel(rel):
    """'0x00/…/0x01/0x03f….blob' (relative to the blob dir) -> (oid, tid) or None"""
    m = BLOB_RE.match(rel)
    if not m:
        m = LAWN_RE.match(rel)
        if not m:
            return None
        return int(m.group(1), 16), int(m.group(2), 16)
    oid = int(''.join(x[2:] for x in m.group(1).split('/')), 16)
    return oid, int(m.group(2), 16)


class Intern:
    """long byte strings are opaque to the storage-level model: replace by a short stand-in"""

    def __init__(self):
        self.tab = {}

    def hex(self, b):
        if len(b) > 24:
            i = self.tab.setdefault(bytes(b), len(self.tab))
            b = b'\xff\xfe' + i.to_bytes(3, 'big')
        return b.hex() if b else '-'


class FinishBoom(Exception):
    """injected: the wrapped storage's tpc_finish raises before doing anything"""


def errname(e):
    from ZODB.POSException import (ConflictError, POSKeyError, StorageTransactionError, UndoError,
                                   MultipleUndoErrors)
    if isinstance(e, ConflictError):
        return 'err:Conflict'
    if isinstance(e, (UndoError, MultipleUndoErrors)):
        return 'err:Undo'
    if isinstance(e, POSKeyError):
        return 'err:KeyError'
    if isinstance(e, StorageTransactionError):
        return 'err:Txn'
    if isinstance(e, OSError):
        return 'err:OS'
    return 'err:Other(%s)' % type(e).__name__


class Env:
    """one real storage (+ optional DB) below `root`"""

    def __init__(self, root, flavor, keep_old=False, pack_gc=True, hex=False, layout=None, via_config=False,
                 oid_base=0, db_opts=None):
        self.root = os.path.realpath(root)
        os.makedirs(self.root)
        self.flavor = flavor
        self.keep_old = keep_old
        self.pack_gc = pack_gc
        self.hex = hex
        self.layout = layout
        self.via_config = via_config
        self.oid_base = oid_base
        self.db_opts = dict(db_opts or {})
        self.blob_dir = os.path.join(self.root, 'blobs')
        self.rec = vfs.Recorder(self.root)
        self._vfs = vfs.install(self.rec)
        self._vfs.__enter__()
        self.blobfile_opens = []
        self._patch_blobfile()
        self._patch_bound_os()
        if layout is not None:
            # a pre-existing blob directory that carries a layout marker ('lawn': the old flat layout)
            os.makedirs(os.path.join(self.blob_dir, 'tmp'))
            with vfs._real_open(os.path.join(self.blob_dir, '.layout'), 'w') as f:
                f.write(layout)
        self._make_storage()
        if oid_base:
            # oids beyond 2^16 / with 0xff and 0x00 bytes: the blob path is derived from the oid's bytes
            if flavor in ('fs', 'wrapfs'):
                self.base.set_max_oid(p64(oid_base))
            else:
                self.base._oid = oid_base
        self.intern = Intern()
        self.lines = []          # model op lines
        self.real = []           # real observation per line
        self.calls = []          # (first line index, name, outcome) per boundary call
        self.vals = {}
        self.ntemp = 0
        self.depth = 0
        self.pack_errors = []
        self.staged_oids = []
        self.last_tid = {}
        self.dropped_by_pack = []   # list of sets of (oid, tid)
        self.db = None
        self.tie_breaks = []         # internal facts the model's atomic steps rely on, found violated
        self.intruder = None         # (txn, oid) of a transaction slipped in by the finish probe
        self.intruder_aborted = 0
        self._wire()

    def _make_storage(self):
        import ZODB.blob
        from ZODB.FileStorage import FileStorage
        from ZODB.MappingStorage import MappingStorage
        if self.via_config:
            # the same storages built by ZODB.config from a configuration text
            import ZODB.config
            if not os.path.isdir(self.blob_dir):
                os.makedirs(self.blob_dir)
            if self.flavor == 'fs':
                text = ('<filestorage>\n  path %s\n  blob-dir %s\n  pack-gc %s\n  pack-keep-old %s\n</filestorage>\n'
                        % (os.path.join(self.root, 'Data.fs'), self.blob_dir,
                           'true' if self.pack_gc else 'false', 'true' if self.keep_old else 'false'))
                self.storage = ZODB.config.storageFromString(text)
                self.base = self.storage
            else:
                inner = ('<mappingstorage/>' if self.flavor == 'wrap' else
                         '<filestorage>\n    path %s\n  </filestorage>' % os.path.join(self.root, 'Data.fs'))
                text = '<blobstorage>\n  blob-dir %s\n  %s\n</blobstorage>\n' % (self.blob_dir, inner)
                self.storage = ZODB.config.storageFromString(text)
                self.base = self.storage._BlobStorage__storage
        elif self.flavor == 'fs':
            self.storage = FileStorage(os.path.join(self.root, 'Data.fs'), blob_dir=self.blob_dir,
                                       pack_keep_old=self.keep_old, pack_gc=self.pack_gc)
            self.base = self.storage
        elif self.flavor == 'wrapfs':
            # the legacy proxy: the blob wrapper over an UNDO-CAPABLE storage without blob support of its own
            self.base = FileStorage(os.path.join(self.root, 'Data.fs'), pack_gc=self.pack_gc)
            self.storage = ZODB.blob.BlobStorage(self.blob_dir, self.base)
        else:
            self.base = MappingStorage()
            self.storage = ZODB.blob.BlobStorage(self.blob_dir, self.base)

    def _wire(self):
        self._interpose()
        self._probe_finish()
        # `top`: what the DB (and the iterator used for observation) talks to.  hex: a record-transforming
        # wrapper (ZODB.tests.hexstorage) around the FileStorage — created AFTER the interposition so that the
        # methods it copies are the recorded ones; the blob layer below must untransform before asking
        # "is this a blob record?" (pack tags, undo's blob copy)
        self.top = self.storage
        if self.hex:
            from ZODB.tests.hexstorage import HexStorage
            self.top = HexStorage(self.storage)

    def reopen(self):
        """close the database / storage and open the same files again (saved index, same blob directory)"""
        if self.db is not None:
            self.db.close()
        else:
            self.storage.close()
        self.db = None
        self._make_storage()
        self._wire()

    # ------------------------------------------------------------------ set-up / tear-down
    def _patch_blobfile(self):
        import ZODB.blob
        env = self
        self._orig_bf_init = ZODB.blob.BlobFile.__init__

        def init(bf, name, mode, blob):
            env.blobfile_opens.append((os.path.realpath(name), mode))
            env._orig_bf_init(bf, name, mode, blob)
        ZODB.blob.BlobFile.__init__ = init

    def _patch_bound_os(self):
        """blob.py binds `remove_committed = os.remove`, `link_or_copy = os.link` at import time, so
        the VFS's os.* wrappers are bypassed: route them through os.* looked up at call time"""
        self._saved_bound = []
        for mname in ('ZODB.blob', 'ZODB.FileStorage.FileStorage', 'ZODB.Connection'):
            __import__(mname)
            m = sys.modules[mname]
            for name, f in (('remove_committed', lambda p: os.remove(p)),
                            ('link_or_copy', lambda a, b: os.link(a, b))):
                if name in m.__dict__:
                    self._saved_bound.append((m, name, m.__dict__[name]))
                    m.__dict__[name] = f

    def open_db(self):
        import ZODB
        self.db = ZODB.DB(self.top, **self.db_opts)
        return self.db

    def close(self):
        import ZODB.blob
        try:
            if self.db is not None:
                self.db.close()
            else:
                self.storage.close()
        except Exception:
            pass
        Env.clear_pack_failure()
        if getattr(self, '_other', None) is not None:
            try:
                self._other.close()
            except Exception:
                pass
        ZODB.blob.BlobFile.__init__ = self._orig_bf_init
        for m, name, f in self._saved_bound:
            m.__dict__[name] = f
        self._vfs.__exit__(None, None, None)

    # ------------------------------------------------------------------ observation
    def scan(self):
        """({(oid, tid): bytes}, [stray relative paths]) of the blob directory outside tmp/"""
        files, stray = {}, []
        for dp, dns, fns in os.walk(self.blob_dir):
            if dp == self.blob_dir and 'tmp' in dns:
                dns.remove('tmp')
            for f in fns:
                rel = os.path.relpath(os.path.join(dp, f), self.blob_dir)
                k = key_of_rel(rel)
                if k is not None:
                    with vfs._real_open(os.path.join(dp, f), 'rb') as fh:
                        files[k] = fh.read()
                elif rel not in ('.layout', '.removed'):
                    stray.append(rel)
        return files, sorted(stray)

    def tmp_listing(self):
        out = []
        t = os.path.join(self.blob_dir, 'tmp')
        for dp, dns, fns in os.walk(t):
            for f in fns:
                out.append(os.path.relpath(os.path.join(dp, f), t))
            for d in dns:
                out.append(os.path.relpath(os.path.join(dp, d), t) + '/')
        return sorted(out)

    def records(self):
        """[(oid, tid, kind)] from storage.iterator(); kind 'blob' | 'plain' | 'none'"""
        from ZODB.blob import is_blob_record
        out = []
        it = self.top.iterator()
        try:
            for t in it:
                for r in t:
                    kind = 'none' if r.data is None else ('blob' if is_blob_record(r.data) else 'plain')
                    out.append((u64(r.oid), u64(r.tid), kind))
        finally:
            close = getattr(it, 'close', None)
            if close is not None:
                close()
        return out

    def blob_key(self, path):
        p = os.path.realpath(path) if os.path.isabs(path) else os.path.join(self.root, path)
        if not p.startswith(self.blob_dir + os.sep):
            return None
        return key_of_rel(os.path.relpath(p, self.blob_dir))

    def canon_events(self, evs, opens, before, after):
        out = []
        moved_old = set()
        for e in evs:
            if e[0] == 'rename':
                kd = self.blob_key(e[2]) if e[2] else None
                ks = self.blob_key(e[1]) if e[1] else None
                if kd is not None:
                    out.append('mv>%d:%d' % kd)
                elif ks is not None:
                    if e[2] and e[2].startswith('blobs.old/'):
                        out.append('old:%d:%d' % ks)
                        moved_old.add(ks)
                    else:
                        out.append('mvaway:%d:%d' % ks)
                elif e[1] and e[1].startswith('blobs/0x') and e[2] and e[2].startswith('blobs.old/'):
                    out.append('olddir:' + e[1])
            elif e[0] == 'link':
                ks = self.blob_key(e[1]) if e[1] else None
                kd = self.blob_key(e[2]) if e[2] else None
                if kd is not None:
                    out.append('ln>%d:%d' % kd)
            elif e[0] in ('create', 'write', 'trunc'):
                k = self.blob_key(e[1])
                if k is not None:
                    tag = {'create': 'cr', 'write': 'wr', 'trunc': 'tr'}[e[0]]
                    s = '%s:%d:%d' % ((tag,) + k)
                    if s not in out:
                        out.append(s)
        for path, mode in opens:
            k = self.blob_key(path)
            if k is not None and mode != 'r':
                out.append('ow:%d:%d' % k)
        for k in before:
            if k not in after and k not in moved_old:
                out.append('rm:%d:%d' % k)
        # a set: a transaction may hold superseded duplicate records of one oid (multi-undo), and undoing it
        # then renames the same copy into place once per record
        return sorted(set(out))

    def observe(self, out, evs, opens, before):
        files, stray = self.scan()
        ev = self.canon_events(evs, opens, before, files)
        fs = ','.join('%d:%d:%s' % (k[0], k[1], self.intern.hex(files[k])) for k in sorted(files))
        recs = ','.join('%d:%d' % k for k in sorted({(o, t) for o, t, kd in self.records()
                                                     if kd == 'blob'}))
        return '%s|%s|%s|%s' % (out, ','.join(ev), fs, recs), files, stray

    # ------------------------------------------------------------------ interposition
    def _emit(self, line, obs):
        self.lines.append(line)
        self.real.append(obs)

    def _val(self, data):
        return self.vals.setdefault(bytes(data), len(self.vals) + 1)

    def _in_progress(self):
        f = getattr(self.base, 'tpc_transaction', None)
        return f() if f is not None else getattr(self.base, '_transaction', None)

    def _interpose(self):
        S = self.storage
        env = self

        def wrap(name, pre):
            orig = getattr(S, name)

            def call(*a, **kw):
                if env.depth:
                    return orig(*a, **kw)
                env.depth += 1
                try:
                    before, _ = env.scan()
                    ctx = pre(*a, **kw)            # may emit 'mktemp' lines; returns line maker
                    n0, o0 = len(env.rec.events), len(env.blobfile_opens)
                    out, exc, res = 'ok', None, None
                    try:
                        res = orig(*a, **kw)
                    except Exception as e:
                        out, exc = errname(e), e
                    line = ctx(res, exc)
                    if name == 'tpc_finish' and isinstance(exc, FinishBoom):
                        out, line = 'ok', 'nop'      # nothing happened: the transaction is still in progress
                    if name == 'pack' and exc is not None:
                        # whether a pack succeeds is C07/C08's subject (e.g. MappingStorage refuses a pack
                        # time before an earlier one); a pack that raised did not reach the blob step
                        import traceback
                        env.pack_errors.append((out, traceback.format_exception(exc)[-3:]))
                        out = 'ok'
                        line = 'nop'
                    obs, files, stray = env.observe(out, env.rec.events[n0:],
                                                    env.blobfile_opens[o0:], before)
                    env.calls.append((len(env.lines), name, out))
                    env._emit(line, obs)
                    env.last_files, env.last_stray = files, stray
                    if name == 'tpc_finish' and env.intruder is not None:
                        # the finish probe slipped a transaction in (it holds the commit lock): abort it now,
                        # before anything else needs the lock; the runner's next directory check judges
                        env.abort_intruder()
                        env.intruder_aborted += 1
                    if exc is not None:
                        raise exc
                    return res
                finally:
                    env.depth -= 1
            setattr(S, name, call)

        def pre_begin(txn, tid=None, *a, **kw):
            env.staged_oids = []
            return lambda res, exc: 'begin %d' % u64(env.base._tid)

        def pre_finish(txn, *a, **kw):
            env.rec.fail_at = None          # injected raw faults stop at the point of no return

            def line(res, exc):
                if exc is None:
                    for o in env.staged_oids:
                        env.last_tid[o] = u64(res)
                return 'finish'
            return line

        def pre_store(oid, serial, data, version, txn):
            v = env._val(data)
            return lambda res, exc: 'store %d %d %d' % (u64(oid), v, u64(serial or b'\0' * 8))

        def mk_temp(blobfilename):
            env.ntemp += 1
            n = env.ntemp
            try:
                with vfs._real_open(blobfilename, 'rb') as f:
                    b = f.read()
                files, _ = env.scan()
                obs = 'ok||%s|%s' % (
                    ','.join('%d:%d:%s' % (k[0], k[1], env.intern.hex(files[k])) for k in sorted(files)),
                    ','.join('%d:%d' % k for k in sorted({(o, t) for o, t, kd in env.records()
                                                          if kd == 'blob'})))
                env._emit('mktemp %d %s' % (n, env.intern.hex(b)), obs)
            except OSError:
                pass          # no such file: the model's temp n does not exist either
            return n

        def pre_storeblob(oid, serial, data, blobfilename, version, txn):
            n = mk_temp(blobfilename)
            return lambda res, exc: 'storeblob %d %d %d' % (u64(oid), n, u64(serial or b'\0' * 8))

        def pre_restoreblob(oid, serial, data, blobfilename, prev_txn, txn):
            n = mk_temp(blobfilename)
            env.staged_oids.append(u64(oid))
            return lambda res, exc: 'restoreblob %d %d' % (u64(oid), n)

        def pre_restore(oid, serial, data, version, prev_txn, txn):
            v = env._val(data) if data is not None else 0
            env.staged_oids.append(u64(oid))
            return lambda res, exc: 'store %d %d %d' % (u64(oid), v, env.last_tid.get(u64(oid), 0))

        def pre_simple(word):
            return lambda *a, **kw: (lambda res, exc: word)

        def pre_abort(txn, *a, **kw):
            mine = env._in_progress() is txn
            return lambda res, exc: 'abort' if mine else 'fabort'

        def pre_undo(tid, txn):
            ut = u64(decodebytes(tid + b'\n'))
            return lambda res, exc: 'undo %d' % ut

        def pre_pack(t, referencesf, *a, **kw):
            from ZODB.TimeStamp import TimeStamp
            T = u64(TimeStamp(*time.gmtime(t)[:5] + (t % 60,)).raw())
            recs0 = {(o, tt) for o, tt, kd in env.records()}

            def line(res, exc):
                recs1 = {(o, tt) for o, tt, kd in env.records()}
                drop = sorted(recs0 - recs1)
                env.dropped_by_pack.append(set(drop))
                return 'pack %d %d %s' % (T, 1 if env.keep_old else 0,
                                          ','.join('%d:%d' % k for k in drop) or '-')
            return line

        wrap('tpc_begin', pre_begin)
        wrap('store', pre_store)
        wrap('storeBlob', pre_storeblob)
        wrap('restoreBlob', pre_restoreblob)
        if self.flavor in ('fs', 'wrapfs'):
            wrap('restore', pre_restore)
        wrap('tpc_vote', pre_simple('vote'))
        wrap('tpc_finish', pre_finish)
        wrap('tpc_abort', pre_abort)
        if self.flavor in ('fs', 'wrapfs'):
            wrap('undo', pre_undo)
        wrap('pack', pre_pack)

    def _probe_finish(self):
        """The model's `finish` forgets the dirty list atomically with the commit.  On FileStorage that
        rests on `_blob_tpc_finish` running while the commit lock is held (nobody can have begun the
        next transaction and appended to the list).  Probe it on every finish; if the lock is free,
        search for the failing input right away: slip a second transaction's tpc_begin + storeBlob in
        before the list is reset — the runner then aborts it and the oracle looks at the directory."""
        if self.flavor != 'fs':
            return             # the wrapper clears its list after the base storage released the lock (6.2)
        S, env = self.storage, self
        orig = S._blob_tpc_finish

        def hooked():
            lock = getattr(S, '_commit_lock', None)
            held = lock.locked() if lock is not None and hasattr(lock, 'locked') else True
            if not held:
                if 'finish-clears-dirty-list-outside-commit-lock' not in env.tie_breaks:
                    env.tie_breaks.append('finish-clears-dirty-list-outside-commit-lock')
                if env.intruder is None:
                    try:
                        env._intrude()
                    except Exception:
                        pass
            orig()
        S._blob_tpc_finish = hooked

    def _intrude(self):
        from ZODB.Connection import TransactionMetaData
        from ZODB.blob import Blob
        from ZODB.serialize import ObjectWriter
        S = self.storage
        t2 = TransactionMetaData()
        self.depth += 1                   # not part of the recorded history
        try:
            S.tpc_begin(t2)
            oid = S.new_oid()
            tmp = os.path.join(S.temporaryDirectory(), 'intruder%d.tmp' % len(self.lines))
            with vfs._real_open(tmp, 'wb') as f:
                f.write(b'intruder')
            S.storeBlob(oid, b'\0' * 8, ObjectWriter().serialize(Blob()), tmp, '', t2)
            self.intruder = (t2, oid)
        finally:
            self.depth -= 1

    def abort_intruder(self):
        """abort the slipped-in transaction; returns True if there was one"""
        if self.intruder is None:
            return False
        t2, _ = self.intruder
        self.intruder = None
        self.depth += 1
        try:
            self.storage.tpc_abort(t2)
        finally:
            self.depth -= 1
        return True

    def fail_next_finish(self):
        """failure point 'finish phase' for the wrapper: the wrapped storage's tpc_finish raises before
        making anything durable (the transaction is not committed; the caller aborts it)"""
        base = self.base

        def boom(*a, **kw):
            base.__dict__.pop('tpc_finish', None)
            raise FinishBoom('wrapped storage tpc_finish fails')
        base.tpc_finish = boom

    def clear_finish_failure(self):
        self.base.__dict__.pop('tpc_finish', None)

    def fail_next_pack(self):
        """failure point for pack: the packer runs out of disk space after its copy phase (before the
        data-file swap); the pack is abandoned, nothing was packed — and nothing of it may influence a
        later pack (e.g. tags left in <blob_dir>/.removed)"""
        import errno
        mod = sys.modules['ZODB.FileStorage.fspack']
        cls = mod.FileStoragePacker
        if '_c13_orig_copy' in cls.__dict__:
            return
        orig = cls.copyToPacktime
        cls._c13_orig_copy = orig

        def copyToPacktime(packer):
            Env.clear_pack_failure()
            orig(packer)
            raise OSError(errno.ENOSPC, 'No space left on device (injected into the packer)')
        cls.copyToPacktime = copyToPacktime

    @staticmethod
    def clear_pack_failure():
        mod = sys.modules.get('ZODB.FileStorage.fspack')
        if mod is not None and '_c13_orig_copy' in mod.FileStoragePacker.__dict__:
            mod.FileStoragePacker.copyToPacktime = mod.FileStoragePacker._c13_orig_copy
            del mod.FileStoragePacker._c13_orig_copy

    def other_storage(self, root, kind):
        """a second, independent blob storage in the same process (not recorded, not modelled)"""
        if getattr(self, '_other', None) is None:
            import ZODB.blob
            from ZODB.FileStorage import FileStorage
            from ZODB.MappingStorage import MappingStorage
            d = os.path.join(root, 'other')
            os.makedirs(d)
            if kind == 'fs':
                self._other = FileStorage(os.path.join(d, 'Data.fs'), blob_dir=os.path.join(d, 'blobs'))
            else:
                self._other = ZODB.blob.BlobStorage(os.path.join(d, 'blobs'), MappingStorage())
            self._other_oid = self._other.new_oid()
            self._other_serial = b'\0' * 8
        return self._other

    def other_transaction(self, root, kind, end):
        """run one complete two-phase commit with a blob on the second storage; end 'finish' | 'abort'"""
        from ZODB.Connection import TransactionMetaData
        from ZODB.blob import Blob
        from ZODB.serialize import ObjectWriter
        S2 = self.other_storage(root, kind)
        t2 = TransactionMetaData()
        S2.tpc_begin(t2)
        tmp = os.path.join(S2.temporaryDirectory(), 'o%d.tmp' % len(self.lines))
        with vfs._real_open(tmp, 'wb') as f:
            f.write(b'other storage')
        S2.storeBlob(self._other_oid, self._other_serial, ObjectWriter().serialize(Blob()), tmp, '', t2)
        S2.tpc_vote(t2)
        if end == 'finish':
            self._other_serial = S2.tpc_finish(t2)
        else:
            S2.tpc_abort(t2)
        # its own directory: one file per committed revision
        n = sum(1 for dp, _, fn in os.walk(S2.fshelper.base_dir) for f in fn if f.endswith('.blob'))
        return n

    def _cur_tid(self, oid):
        try:
            return u64(self.storage.getTid(oid))
        except Exception:
            return 0


def copy_to_fresh(src, root, expected):
    """copyTransactionsFrom(src) into a fresh FileStorage+blob_dir (restoreBlob path); returns the
    destination's model lines, real observations and oracle problems (dest files must be exactly
    the source's committed blob revisions `expected`, byte for byte)"""
    recs = src.records()
    src_blobrecs = {(o, t) for o, t, kd in recs if kd == 'blob'}
    if len({(o, t) for o, t, kd in recs}) != len(recs):
        return [], [], []      # a multi-undo transaction holds superseded duplicate records: the copy restores
        #                        each of them, which the model (one record per oid and transaction) does not follow
    if src_blobrecs != set(expected):
        return [], [], []      # source already lost a file (open wrapper-pack finding): restore() path, not ours
    # the copy lives in a FileStorage whose blob directory has the OTHER layout
    dst = Env(os.path.join(root, 'copy'), 'fs', layout='bushy' if src.layout == 'lawn' else 'lawn')
    problems = []
    try:
        try:
            dst.storage.copyTransactionsFrom(src.top)
        except Exception as e:
            problems.append(('C13:copy-failed', 'copyTransactionsFrom raised %s: %s' % (type(e).__name__, str(e)[:120])))
        files, stray = dst.scan()
        if stray:
            problems.append(('C13:stray-file', 'copy: unexpected files %r' % (stray,)))
        for k, b in expected.items():
            if k not in files:
                problems.append(('C13:copy-blob-missing', 'copy lacks the blob file of revision %r' % (k,)))
            elif files[k] != b:
                problems.append(('C13:copy-blob-bytes-differ', 'copy of %r holds %r, source %r'
                                 % (k, files[k][:40], b[:40])))
        for k in files:
            if k not in expected:
                problems.append(('C13:copy-file-without-record', 'copy has a blob file %r the source has not' % (k,)))
    finally:
        dst.close()
    return ['reset fs'] + dst.lines, ['ok'] + dst.real, problems[:4]
