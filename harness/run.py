"""Front end used by ./check: imports harness/<cxx>.py and calls its main() under a safety net.

An exception that escapes a harness is not allowed to end a check with a bare traceback:
  * InfraError raised by the tooling layer (common.py: lake, model driver, extractor), or a crash that does
    not involve /repo's code at all → `INFRA-ERROR`, exit 2;
  * InfraError raised by a property's own harness = a sanity condition on what the implementation did that
    holds on every run of the unchanged tree (set-up commit reached the storage, a worker returned a result,
    a scheduled run did not deadlock, a tid lies on the model's grid …) → the correspondence could not be
    established: `VIOLATION … no-failing-input-found` (replay file: the condition and the traceback);
  * an unexpected exception whose traceback passes through $ZODB_REPO/src (the implementation did
    something the correspondence harness has never seen on the unchanged tree) → the correspondence is
    broken: the harness could not finish its failing-input search, so per DESIGN 1.3 step 6 this is
    `VIOLATION property=Cxx replay=<file> no-failing-input-found` (the replay file holds the traceback).
  * watchdog: a check whose harness never blocks on the unchanged tree (quick: well under a minute,
    thorough: minutes) but does not terminate within VERIF_WATCHDOG_QUICK / VERIF_WATCHDOG_THOROUGH
    seconds (default 900 / 5400) is stuck in the implementation (a leaked lock, a loop that no longer
    ends) on some generated input the harness could not isolate: the correspondence could not be
    established, same verdict `… no-failing-input-found` with the stacks of all threads in the replay
    file.  Stuck while the Lean gate (lake build, waiting for the build lock) is running → INFRA-ERROR.
"""
import importlib
import json
import os
import signal
import sys
import threading
import time
import traceback

HARNESS = os.path.dirname(os.path.abspath(__file__))
sys.path.insert(0, HARNESS)


def _descendants(root):
    kids = {}
    for d in os.listdir('/proc'):
        if d.isdigit():
            try:
                with open('/proc/%s/stat' % d) as f:
                    st = f.read()
                ppid = int(st[st.rindex(')') + 2:].split()[1])
                kids.setdefault(ppid, []).append(int(d))
            except Exception:
                pass
    out, todo = [], [root]
    while todo:
        for k in kids.get(todo.pop(), []):
            out.append(k)
            todo.append(k)
    return out


def _watchdog(pid, tier, limit, common):
    time.sleep(limit)
    stacks = []
    for tid, fr in sys._current_frames().items():
        stacks.append('thread %s:\n%s' % (tid, ''.join(traceback.format_stack(fr))[-3000:]))
    in_gate = any('lean_gate' in s or 'LakeLock' in s for s in stacks)
    kids = _descendants(os.getpid())
    if in_gate:
        print('INFRA-ERROR check %s %s did not finish its Lean gate within %d s' % (pid, tier, limit))
        code = 2
    else:
        os.makedirs(os.path.join(common.OUT, 'replay'), exist_ok=True)
        path = os.path.join(common.OUT, 'replay', '%s-watchdog.json' % pid)
        with open(path, 'w') as f:
            json.dump(dict(property=pid, kind='no-failing-input-found', signature='check-did-not-terminate',
                           what='the %s check did not terminate within %d s (it takes seconds to minutes on the '
                                'unchanged tree): the implementation blocks or loops on a generated input (for '
                                'example a lock that is no longer released) and the correspondence between model '
                                'and implementation could not be established' % (tier, limit),
                           stacks=stacks, worker_processes=len(kids), argv=sys.argv[1:],
                           seed=os.environ.get('VERIF_SEED', '0')), f, indent=1)
        print('VIOLATION property=%s replay=%s no-failing-input-found' % (pid, path))
        code = 1
    sys.stdout.flush()
    for k in kids:
        try:
            os.kill(k, signal.SIGKILL)
        except OSError:
            pass
    os._exit(code)


def main():
    pid = sys.argv[1]
    sys.argv = [os.path.join(HARNESS, pid.lower() + '.py')] + sys.argv[2:]
    import common
    tier = 'thorough' if 'thorough' in sys.argv else 'quick'
    limit = int(os.environ.get('VERIF_WATCHDOG_' + tier.upper(), '5400' if tier == 'thorough' else '900'))
    if limit > 0:
        threading.Thread(target=_watchdog, args=(pid, tier, limit, common), daemon=True).start()
    try:
        mod = importlib.import_module(pid.lower())
        mod.main()
    except SystemExit:
        raise
    except common.InfraError as e:
        tb = traceback.format_exc()
        frames = traceback.extract_tb(sys.exc_info()[2])
        site = os.path.basename(frames[-1].filename) if frames else ''
        if site in ('common.py', 'extract.py', 'run.py') or not site.startswith('c'):
            # tooling (lake, the model driver, the extractor): nothing is known about the implementation
            print('INFRA-ERROR', e)
            sys.exit(2)
        # raised by the property's own harness: a sanity condition on what the implementation did
        # (set-up commit, worker result, scheduler run, tid grid …) that holds on every run of the
        # unchanged tree does not hold — the correspondence could not be established
        os.makedirs(os.path.join(common.OUT, 'replay'), exist_ok=True)
        path = os.path.join(common.OUT, 'replay', '%s-harness-sanity.json' % pid)
        with open(path, 'w') as f:
            json.dump(dict(property=pid, kind='no-failing-input-found', signature='harness-sanity-condition',
                           what='a sanity condition of the correspondence harness on the behaviour of the '
                                'implementation (always true on the unchanged tree) failed: %s' % (e,),
                           traceback=tb[-6000:], argv=sys.argv[1:],
                           seed=os.environ.get('VERIF_SEED', '0')), f, indent=1)
        print('harness sanity condition failed:', e)
        print('VIOLATION property=%s replay=%s no-failing-input-found' % (pid, path))
        sys.stdout.flush()
        sys.exit(1)
    except BaseException:      # noqa: B902
        tb = traceback.format_exc()
        repo_src = os.path.join(os.path.realpath(common.REPO), 'src') + os.sep
        frames = traceback.extract_tb(sys.exc_info()[2])
        site = os.path.basename(frames[-1].filename) if frames else ''
        own_harness = (len(site) > 3 and site[0] == 'c' and site[1:3].isdigit()
                       and os.path.dirname(os.path.abspath(frames[-1].filename)) == HARNESS)
        if isinstance(sys.exc_info()[1], (KeyboardInterrupt, MemoryError)):
            own_harness = False
        # own_harness: the exception was raised inside the property's own harness code (cNN*.py) while it
        # handled what the implementation returned (e.g. an attribute of an object that no longer has the
        # shape the unchanged tree always produces) — same situation as a traceback through $ZODB_REPO/src
        if own_harness or repo_src in tb or (os.path.join(common.REPO, 'src') + os.sep) in tb:
            os.makedirs(os.path.join(common.OUT, 'replay'), exist_ok=True)
            path = os.path.join(common.OUT, 'replay', '%s-harness-crash.json' % pid)
            with open(path, 'w') as f:
                json.dump(dict(property=pid, kind='no-failing-input-found', signature='correspondence-broken',
                               what='the implementation raised an exception the correspondence harness does not '
                                    'handle (never seen on the unchanged tree); the run could not complete',
                               traceback=tb[-6000:], argv=sys.argv[1:],
                               seed=os.environ.get('VERIF_SEED', '0')), f, indent=1)
            print(tb[-3000:])
            print('VIOLATION property=%s replay=%s no-failing-input-found' % (pid, path))
            sys.stdout.flush()
            sys.exit(1)
        print('INFRA-ERROR unexpected harness exception\n' + tb[-4000:])
        sys.exit(2)


if __name__ == '__main__':
    main()
