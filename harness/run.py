"""Front end used by ./check: imports harness/<cxx>.py and calls its main() under a safety net.

An exception that escapes a harness is not allowed to end a check with a bare traceback:
  * InfraError, or a crash that does not involve /repo's code at all → `INFRA-ERROR`, exit 2;
  * an unexpected exception whose traceback passes through $ZODB_REPO/src (the implementation did
    something the correspondence harness has never seen on the unchanged tree) → the correspondence is
    broken: the harness could not finish its failing-input search, so per DESIGN 1.3 step 6 this is
    `VIOLATION property=Cxx replay=<file> no-failing-input-found` (the replay file holds the traceback).
"""
import importlib
import json
import os
import sys
import traceback

HARNESS = os.path.dirname(os.path.abspath(__file__))
sys.path.insert(0, HARNESS)


def main():
    pid = sys.argv[1]
    sys.argv = [os.path.join(HARNESS, pid.lower() + '.py')] + sys.argv[2:]
    import common
    try:
        mod = importlib.import_module(pid.lower())
        mod.main()
    except SystemExit:
        raise
    except common.InfraError as e:
        print('INFRA-ERROR', e)
        sys.exit(2)
    except BaseException:      # noqa: B902
        tb = traceback.format_exc()
        repo_src = os.path.join(os.path.realpath(common.REPO), 'src') + os.sep
        if repo_src in tb or (os.path.join(common.REPO, 'src') + os.sep) in tb:
            os.makedirs(os.path.join(common.OUT, 'replay'), exist_ok=True)
            path = os.path.join(common.OUT, 'replay', '%s-harness-crash.json' % pid)
            with open(path, 'w') as f:
                json.dump(dict(property=pid, kind='no-failing-input-found', signature='correspondence-broken',
                               what='the implementation raised an exception the correspondence harness does not '
                                    'handle (never seen on the unchanged tree); the run could not complete',
                               traceback=tb[-6000:], argv=sys.argv[1:],
                               seed=os.environ.get('VERIF_SEED', '0')), f, indent=1)
            print(tb[-3000:])
            print('VIOLATION property=%s replay=%s no-failing-input-found' % (pid, path))
            sys.stdout.flush()
            sys.exit(1)
        print('INFRA-ERROR unexpected harness exception\n' + tb[-4000:])
        sys.exit(2)


if __name__ == '__main__':
    main()
