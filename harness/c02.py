"""C02 — Every transaction reads from one consistent snapshot.

Correspondence: multi-connection programs (reads, group writes, commit / abort / failed vote,
begin, close + reopen from the pool, optional packer) on the real ZODB DB/Connection/MVCCAdapter
over FileStorage and MappingStorage, one connection per thread, under the deterministic scheduler
(`sched.py`: a thread switch is possible at every ZODB lock operation and every raw file
operation).  [P] observables: every (oid, _p_serial, value) read per epoch, every commit tid and
the moment its tpc_finish returned.  Direct oracle (model-free): per epoch, the validity intervals
[serial, next serial of that oid) of all reads — from the FINAL storage's revision lists — must
have a common point, and that point must not be older than the last commit whose tpc_finish had
returned before the epoch's boundary poll began; own uncommitted writes overlay.
Model tie ([I]): the run is mapped to an action trace of the Lean model (Drivers/Mvcc.lean) and
the model's start bounds / drained invalidations / read serials are compared (c02_trace.py).
"""
import contextlib
import json
import logging
import os
import shutil
import sys
import threading

sys.path.insert(0, os.path.dirname(os.path.abspath(__file__)))
from common import Check, InfraError, ddmin  # noqa: E402
import clock  # noqa: E402
import sched  # noqa: E402
import vfs  # noqa: E402

logging.disable(logging.CRITICAL)
INF = 1 << 70
NOBJ_MAX = 6


class PoisonError(Exception):
    pass


class Poison:
    """a second resource manager that makes the transaction fail at a chosen phase:
       'vote'   (sorted last)  after the storage voted           => tpc_abort after the vote
       'commit' (sorted last)  after the connection stored       => abort + tpc_abort before the vote
       'begin'  (sorted first) before the connection's tpc_begin => abort (tpc_abort without tpc_begin)"""

    def __init__(self, tm, phase='vote'):
        self.transaction_manager = tm
        self.phase = phase

    def sortKey(self):
        return '   poison' if self.phase == 'begin' else '~~~poison'

    def abort(self, t):
        pass

    def tpc_begin(self, t):
        if self.phase == 'begin':
            raise PoisonError()

    def commit(self, t):
        if self.phase == 'commit':
            raise PoisonError()

    def tpc_vote(self, t):
        if self.phase == 'vote':
            raise PoisonError()

    def tpc_finish(self, t):
        pass

    def tpc_abort(self, t):
        pass


# storage kinds: what sits behind the DB
#   file / map            FileStorage / MappingStorage behind the MVCC adapter
#   hexfile / hexmap      the same wrapped in ZODB.tests.hexstorage.HexStorage (record transform; its
#                         invalidateCache() is the storage-side route into MVCCAdapter.invalidateCache)
#   bwfile / bwmap        wrapped in ZODB.blob.BlobStorage (blob support by proxy, 'lawn' or 'bushy')
#   demo / demofile       DemoStorage(base=MappingStorage, changes=MappingStorage | FileStorage)
#   demobase              DemoStorage over a base that already holds the objects (oracle only)
#   mvccmap               ZODB.tests.MVCCMappingStorage: native IMVCCStorage, no adapter (oracle only)
FILE_KINDS = ('file', 'hexfile', 'bwfile', 'demofile')          # a FileStorage does the commits
UNDO_KINDS = ('file', 'hexfile')
BLOB_KINDS = ('file', 'bwfile', 'bwmap')
KIND_POOL = ['file'] * 6 + ['map'] * 5 + ['mvccmap'] * 2 + ['hexfile', 'hexmap', 'bwfile', 'bwmap', 'demo',
                                                             'demofile', 'demobase']


# ---------------------------------------------------------------- generator
def gen_program(rng, role, nobj, nops, blobs=()):
    ops = []
    i = 0
    while i < nops:
        r = rng.random()
        grp = sorted(rng.sample(range(nobj), min(nobj, rng.choice([1, 2, 2, 3, 4]))))
        if rng.random() < 0.02:
            ops.append(['ic'])
        if blobs and rng.random() < 0.12:
            ops.append(['ro', rng.choice(list(blobs))])     # read a Blob and keep the reader file open
        x = rng.random()
        if x < 0.03:
            ops.append(['cm'])                              # cacheMinimize()
        elif x < 0.06:
            ops.append(['rg', rng.randrange(nobj)])         # read through Connection.get(oid)
        elif x < 0.09:
            ops.append(['os', rng.randrange(nobj)])         # read + Connection.oldstate(obj, serial)
        elif x < 0.115:
            ops.append(['rcur', rng.randrange(nobj)])       # read + readCurrent(obj): joins, checked at commit
        elif x < 0.14:
            ops.append(['ex', rng.randrange(nobj)])         # exportFile(oid): the record as the storage has it
        elif x < 0.16:
            ops.append(['idle', rng.choice([5, 20, 60])])   # stay inside the transaction while others commit
        elif x < 0.19:
            ops.append(['r2', grp])                         # read through a second connection on the same manager
        elif x < 0.215 and role != 'reader':
            ops += [['wn'], ['rn'], [rng.choice(['c', 'c', 'a', 'cv'])], ['rn']]   # new objects
            i += 3
        if role == 'reader':
            if r < 0.62:
                ops.append(['r', grp])
            elif r < 0.80:
                ops.append(['b'])
            elif r < 0.89:
                ops.append(['x'])
            elif r < 0.91:
                ops.append(['rc'])          # resetCaches(): a reused connection starts a fresh cache
            elif r < 0.95:
                ops.append(['a'])
            else:
                ops += [['w', grp], ['a']]
        else:
            if r < 0.30:
                ops.append(['r', grp])
            elif r < 0.62:
                ops += [['w', grp], [rng.choice(['c', 'c', 'c', 'c', 'c', 'c', 'cv', 'cv', 'cc', 'cb'])]]
                i += 1
            elif r < 0.72:
                ops += [['b'], ['w', grp], ['r', grp], ['c']]
                i += 3
            elif r < 0.76:
                ops += [['w', grp], ['a']]
                i += 1
            elif r < 0.80:
                # savepoints: changes before sp1, changes after it flushed by a later savepoint, rollback
                g2 = sorted(rng.sample(range(nobj), min(nobj, rng.choice([1, 2, 3]))))
                ops += [['w', grp], ['sp'], ['w', g2], ['sp']] + \
                       ([['w', [rng.randrange(nobj)]]] if rng.random() < 0.4 else []) + \
                       ([['rb', rng.choice([0, 0, 1])]] if rng.random() < 0.7 else []) + \
                       [['r', sorted(set(grp + g2))], [rng.choice(['c', 'c', 'a', 'b', 'cv', 'cv', 'cc'])],
                        ['r', sorted(set(grp + g2))]]
                i += 4
            elif r < 0.82:
                ops.append([rng.choice(['sp', 'sp', 'rb']), 0] if rng.random() < 0.5 else ['sp'])
            elif r < 0.88:
                ops.append(['b'])
            elif r < 0.92:
                ops.append(['u', rng.choice([0, 0, 0, 1, 2])])       # undo a recent commit (FileStorage)
            elif r < 0.955:
                ops.append(['um', rng.choice([2, 2, 3])])            # undo several recent commits at once
            else:
                ops.append(['x'])
        i += 1
    return ops


def gen_case(rng, thorough, idx):
    nconn = rng.choice([2, 2, 3, 3, 4] if thorough else [2, 2, 3, 3])
    nobj = rng.choice([2, 3, 4, NOBJ_MAX])
    kind = rng.choice(KIND_POOL)
    blobs = sorted(rng.sample(range(nobj), rng.choice([1, 1, 2]))) \
        if kind in BLOB_KINDS and rng.random() < (0.35 if kind == 'file' else 0.8) else []
    # a second database whose objects are used through get_connection(): the group of connections
    # goes back to the pool together and is handed to whichever thread opens next
    nobj2 = rng.choice([1, 2, 3]) if kind in ('file', 'map') and rng.random() < 0.25 else 0
    roles = ['writer', 'reader'] + [rng.choice(['writer', 'reader', 'mixed']) for _ in range(nconn - 2)]
    progs = {}
    for t, role in enumerate(roles):
        role2 = role if role != 'mixed' else rng.choice(['writer', 'reader'])
        progs['t%d' % t] = gen_program(rng, role2, nobj + nobj2, rng.choice([4, 6, 8, 10]), blobs)
        if nobj2 and rng.random() < 0.7:
            progs['t%d' % t][rng.randrange(len(progs['t%d' % t]) + 1):0] = [['x']]
    if kind not in UNDO_KINDS or nobj2:
        progs = {t: [op for op in ops if op[0] not in ('u', 'um')] for t, ops in progs.items()}
    pack = kind in ('file', 'hexfile') and rng.random() < (0.25 if thorough else 0.15)
    # construction: direct constructors with non-default options, storage from a config string, or the
    # whole database from a config string (then the trace mapping is off: oracle only)
    ctor = rng.choice(['direct', 'direct', 'storage-config', 'db-config']) if kind in ('file', 'map', 'demo') \
        and not nobj2 else 'direct'
    cache_size = rng.choice([400, 400, 1, 2, 5])
    pool = rng.choice([16, 16, 16, 16, 16, 16, 16, 1, 2])
    # persistent CLASSES (ZODB.persistentclass) among the test objects: never ghosts, they re-read their
    # state immediately when invalidated (oracle only)
    pclass = sorted(rng.sample([i for i in range(nobj) if i not in blobs], 1)) \
        if rng.random() < 0.14 and len(blobs) < nobj and kind != 'mvccmap' else []
    # (not with the native MVCCMappingStorage: its load() polls on demand when a class re-reads itself
    # between tpc_abort and the next boundary and drops the invalidations of that poll — reported)
    if pack:
        progs['pk'] = [['pack']] * rng.choice([1, 1, 2])
    if kind == 'file' and not nobj2 and rng.random() < 0.08:
        t = rng.choice(sorted(n for n in progs if n != 'pk'))
        progs[t].insert(rng.randrange(len(progs[t]) + 1), ['do'])    # storage-level deleteObject of garbage
    clock_step = rng.choice([1.0, 1.0, 0.0, 0.0, 0.001] + ([-1.0] if 'pk' not in progs else []))
    return dict(kind=kind, nobj=nobj, progs=progs, seed=rng.randrange(1 << 30),
                stick=rng.choice([0.0, 0.3, 0.6, 0.8, 0.9]), pool=pool, ctor=ctor, cache_size=cache_size,
                layout=rng.choice(['bushy', 'lawn']),
                explicit=rng.random() < 0.2, garbage=rng.choice([0, 1, 2]),
                clock_step=clock_step, blobs=blobs, nobj2=nobj2, pclass=pclass,
                pct=[rng.choice([1, 2, 3]), rng.choice([100, 300, 800])] if rng.random() < 0.35 else None)


class PCTScheduler(sched.Scheduler):
    """PCT-style strategy (priority per thread, the enabled thread of highest priority runs, at d-1
    random change points the running thread drops to the lowest priority): finds the interleavings
    that need few, specific preemptions.  Seeded, hence replayable like the base scheduler."""

    def __init__(self, seed, depth, horizon, **kw):
        sched.Scheduler.__init__(self, seed=seed, **kw)
        self.depth, self.horizon = depth, horizon
        self.prio = None
        self.low = 0

    def _choose(self, cur):
        if self.prio is None:
            names = [t.name for t in self.threads]
            self.rng.shuffle(names)
            self.prio = {n: len(names) - i for i, n in enumerate(names)}
            self.changes = set(self.rng.randrange(self.horizon) for _ in range(max(0, self.depth - 1)))
        en = [t for t in self.threads if self._enabled(t)]
        if not en:
            timed = [t for t in self.threads if not t.done and t.cond_wait is not None and t.cond_wait[2]]
            return timed[0] if timed else None
        self.steps += 1
        if self.steps > self.max_steps:
            return None
        if self.steps in self.changes and cur is not None:
            self.low -= 1
            self.prio[cur.name] = self.low
        best = max(en, key=lambda t: self.prio[t.name])
        self.decisions.append(en.index(best))
        return best


def record_value(data):
    """MinPO.value out of a data record (class pickle + state pickle); None if there is none"""
    import io
    from ZODB._compat import Unpickler
    try:
        u = Unpickler(io.BytesIO(data))
        u.persistent_load = lambda ref: None
        u.load()
        state = u.load()
        return state.get('value') if isinstance(state, dict) else None
    except Exception:       # noqa: BLE001
        return None


def get_value(obj):
    """the state of a test object: MinPO.value, or the integer stored in a Blob's data"""
    if hasattr(obj, 'open') and not hasattr(obj, 'value'):
        with obj.open('r') as f:
            return int(f.read())
    return obj.value


def set_value(obj, v):
    if hasattr(obj, 'open') and not hasattr(obj, 'value'):
        with obj.open('w') as f:
            f.write(b'%d' % v)
    else:
        obj.value = v


# ---------------------------------------------------------------- real code
class Run:
    """state shared by the instrumentation of one case"""

    def __init__(self):
        self.ev = 0                 # global event counter (total order of instrumentation points)
        self.commits = []           # dict(tid, thread, ret)   ret = counter when tpc_finish returned
        self.epochs = []            # dict(thread, conn, begin, end_poll, start, reads, owns, inval)
        self.cur = {}               # (thread name, id(storage instance)) -> current epoch
        self.st_off = {}            # id(storage) / id(shared _data) -> oid offset of its database
        self.pending = {}           # thread name -> {oid: stamp}
        self.errors = []
        self.loads = {}             # thread -> number of storage loads (to tell hit from miss)
        self.inst_ids = {}          # id(instance) -> small int
        self.pool_bad = []
        self.garbage = []           # [(oid, serial)] unreachable objects an external GC may delete
        self.values = {}            # (oid, tid) -> stamp the harness knows that commit wrote
        self.trace = []             # model-level events (c02_trace)
        self.tracer = None

    def tick(self):
        self.ev += 1
        return self.ev

    def off_of(self, inst):
        """oid offset of the database a storage instance belongs to (0 for the first / only one)"""
        for key in (getattr(inst, '_storage', None), getattr(inst, '_data', None)):
            if key is not None and id(key) in self.st_off:
                return self.st_off[id(key)]
        return 0


def tname():
    n = threading.current_thread().name
    return n[6:] if n.startswith('sched-') else None


@contextlib.contextmanager
def instrumented(run):
    """class-level wrappers (harness process only) that log epochs, commits and loads"""
    import ZODB.mvccadapter as M
    from ZODB.utils import u64
    cls = M.MVCCAdapterInstance
    o_poll, o_fin, o_load = cls.poll_invalidations, cls.tpc_finish, cls.load

    def new_epoch(self, t, begin, start, r):
        off = run.off_of(self)
        ep = dict(thread=t, begin=begin, end_poll=run.tick(), start=start, reads=[], owns=[], off=off,
                  inval=None if r is None else sorted(u64(o) + off for o in r))
        run.epochs.append(ep)
        run.cur[(t, id(self))] = ep

    def log_commit(self, t, tid):
        off = run.off_of(self)
        mine = {o: v for o, v in run.pending.get(t, {}).items() if (o >> 40 << 40) == off}
        run.commits.append(dict(tid=u64(tid), thread=t, ret=run.tick(), oids=sorted(mine), off=off))
        for o, v in mine.items():
            run.values[(o, u64(tid))] = v

    def poll_invalidations(self):
        t = tname()
        if t is None:
            return o_poll(self)
        begin = run.tick()
        if run.tracer:
            run.tracer.enter_poll(t, self)
        try:
            r = o_poll(self)
        finally:
            if run.tracer:
                run.tracer.leave_poll(t, self)
        new_epoch(self, t, begin, u64(self._start), r)
        return r

    def tpc_finish(self, transaction, func=lambda tid: None):
        t = tname()
        tid = o_fin(self, transaction, func)
        log_commit(self, t, tid)
        return tid

    # the bundled storage with native MVCC support (DB uses it without the adapter)
    from ZODB.tests.MVCCMappingStorage import MVCCMappingStorage as N
    n_poll, n_fin, n_load = N.poll_invalidations, N.tpc_finish, N.load

    def native_poll(self):
        t = tname()
        if t is None:
            return n_poll(self)
        begin = run.tick()
        r = n_poll(self)
        new_epoch(self, t, begin, None, r)
        return r

    def native_finish(self, transaction, func=lambda tid: None):
        t = tname()
        tid = n_fin(self, transaction, func)
        log_commit(self, t, tid)
        return tid

    def native_load(self, oid, version=''):
        t = tname()
        if t is not None:
            run.loads[t] = run.loads.get(t, 0) + 1
        return n_load(self, oid, version)

    def load(self, oid):
        t = tname()
        if t is None:
            return o_load(self, oid)
        run.loads[t] = run.loads.get(t, 0) + 1
        caller = sys._getframe(1).f_code.co_name
        if caller == 'load' and sys._getframe(2).f_code.co_name == 'setstate':
            caller = 'setstate'         # TmpStore.load of an object the savepoints do not hold
        if run.tracer and caller == 'setstate':
            # (Connection.get loads the pickle only to find the class; the state is set by setstate)
            run.tracer.enter_load(t, self, oid)
        r = None
        try:
            r = o_load(self, oid)
            return r
        finally:
            if run.tracer:
                run.tracer.leave_load(t, self, oid, r)

    ucls = M.UndoAdapterInstance
    o_ufin = ucls.tpc_finish

    def undo_tpc_finish(self, transaction, func=lambda tid: None):
        got = []

        def f(tid):
            got.append(tid)
            func(tid)
        r = o_ufin(self, transaction, f)
        if got:
            run.commits.append(dict(tid=u64(got[0]), thread=tname(), ret=run.tick(), undo=True, off=0,
                                    oids=sorted(u64(o) for o in self._undone)))
        return r

    cls.poll_invalidations, cls.tpc_finish, cls.load = poll_invalidations, tpc_finish, load
    ucls.tpc_finish = undo_tpc_finish
    N.poll_invalidations, N.tpc_finish, N.load = native_poll, native_finish, native_load
    try:
        yield
    finally:
        cls.poll_invalidations, cls.tpc_finish, cls.load = o_poll, o_fin, o_load
        ucls.tpc_finish = o_ufin
        N.poll_invalidations, N.tpc_finish, N.load = n_poll, n_fin, n_load


def worker(run, db, name, ops, nobj, explicit, stamps, nobj2=0):
    import transaction
    from ZODB.tests.MinPO import MinPO
    from ZODB.POSException import ConflictError
    from ZODB.utils import u64
    tm = transaction.TransactionManager(explicit=explicit)
    st = dict(conn=None, objs=None, sps=[], held=[], conn_b=None, objs_b=None, newobjs=[], newpend=[])

    def goid(obj):
        """oid made unique over the databases of the case"""
        return u64(obj._p_oid) + run.off_of(obj._p_jar._normal_storage)

    def drop_held():
        for _g, f in st['held']:
            try:
                f.close()
            except Exception:   # noqa: BLE001
                pass
        st['held'] = []

    def conns():
        cs = list(st['conn'].connections.values()) if st['conn'] is not None else []
        return cs + ([st['conn_b']] if st['conn_b'] is not None else [])

    def close_all():
        drop_held()
        if st['conn_b'] is not None and len(name) % 2:
            st['conn_b'].close()
            st['conn_b'] = None
        st['conn'].close()
        if st['conn_b'] is not None:
            st['conn_b'].close()
            st['conn_b'] = None
        st['newobjs'] = []

    def epoch_of(obj):
        return run.cur[(name, id(obj._p_jar._normal_storage))]
    run.pending[name] = {}
    tr = run.tracer

    def boundary(fn):
        """run a transaction boundary; if the code did not poll during it, the reads that follow
        still form a new epoch (whose freshness the oracle then judges from the boundary's start)"""
        idx = run.tick()
        try:
            fn()
        finally:
            run.pending[name] = {}
            st['sps'] = []
            st['newpend'] = []
            for c in conns():
                inst = c._normal_storage
                cur = run.cur.get((name, id(inst)))
                if cur is None or cur['begin'] < idx:
                    ep = dict(thread=name, begin=idx, end_poll=run.tick(), start=None, reads=[], owns=[],
                              inval=None, synthetic=True, off=run.off_of(inst))
                    run.epochs.append(ep)
                    run.cur[(name, id(inst))] = ep

    def opn():
        def f():
            st['conn'] = db.open(tm)
            if nobj2:
                st['conn'].get_connection('two')
            if explicit:
                tm.begin()
        boundary(f)
        root = st['conn'].root()
        st['objs'] = [root['k%d' % i] for i in range(nobj)]
        if nobj2:
            root2 = st['conn'].get_connection('two').root()
            st['objs'] += [root2['k%d' % i] for i in range(nobj2)]
        st['index'] = {goid(o): i for i, o in enumerate(st['objs'])}

    def boundary_b(fn):
        """open the second connection of this manager: its own first epoch"""
        idx = run.tick()
        fn()
        inst = st['conn_b']._normal_storage
        cur = run.cur.get((name, id(inst)))
        if cur is None or cur['begin'] < idx:
            ep = dict(thread=name, begin=idx, end_poll=run.tick(), start=None, reads=[], owns=[],
                      inval=None, synthetic=True, off=0)
            run.epochs.append(ep)
            run.cur[(name, id(inst))] = ep

    def do_delete_object():
        """an external garbage collector deletes an unreachable object at the storage level
        (IExternalGC.deleteObject in a transaction of its own, no invalidations)"""
        from ZODB.Connection import TransactionMetaData
        from ZODB.POSException import POSKeyError
        from ZODB.utils import p64
        g = run.garbage.pop() if run.garbage else None
        if g is None:
            return
        oid, serial = g
        t = TransactionMetaData()
        db.storage.tpc_begin(t)
        try:
            db.storage.deleteObject(p64(oid), p64(serial), t)
            db.storage.tpc_vote(t)
            db.storage.tpc_finish(t)
            run.errors.append((name, 'deleteObject', 'ok'))
        except POSKeyError:             # a concurrent pack has collected the garbage already
            db.storage.tpc_abort(t)
            run.errors.append((name, 'deleteObject', 'already-packed'))
        except Exception:
            db.storage.tpc_abort(t)
            raise

    def do_savepoint():
        sp = tm.savepoint()
        st['sps'].append((sp, dict(run.pending[name])))
        run.errors.append((name, 'savepoint', 'ok'))

    def do_rollback(k):
        """roll back to the k-th most recent savepoint: own changes made after it are gone, the ones
        made before it are back — and every object touched must read accordingly"""
        if not st['sps']:
            return
        j = max(0, len(st['sps']) - 1 - k)
        sp, saved = st['sps'][j]
        touched = set(run.pending[name]) | set(saved)
        sp.rollback()
        del st['sps'][j + 1:]
        run.pending[name] = dict(saved)
        run.errors.append((name, 'rollback', 'ok'))
        if tr:
            tr.rollback(name, st['conn'], saved)
        for oid in sorted(touched):
            read(st['index'][oid])

    def read(i, obj=None):
        obj = st['objs'][i] if obj is None else obj
        oid = goid(obj)
        before = run.loads.get(name, 0)
        ghost = obj._p_changed is None
        if tr:
            tr.pre_read(name, obj._p_jar, oid)
        v = get_value(obj)
        hit = run.loads.get(name, 0) == before
        if tr:
            tr.post_read(name, obj._p_jar, oid, hit, u64(obj._p_serial), v)
        ep = epoch_of(obj)
        if oid in run.pending[name]:
            ep['owns'].append((oid, v, run.pending[name][oid], run.tick()))
        else:
            ep['reads'].append((oid, u64(obj._p_serial), v, run.tick(), 'hit' if hit else 'load', ghost))

    def do_abort(rebegin=True):
        if tr:
            tr.abort(name, st['conn'])
        tm.abort()
        if explicit and rebegin:
            tm.begin()

    def do_commit(poison):
        if poison:
            tm.get().join(Poison(tm, poison))
        if tr:
            tr.pre_commit(name, st['conn'])
        try:
            tm.commit()
            st['newobjs'] += st['newpend']
        except (ConflictError, PoisonError) as e:
            run.errors.append((name, 'commit-failed', type(e).__name__))
            if tr:
                tr.post_commit(name, st['conn'])
                tr.abort(name, st['conn'])
            tm.abort()
        finally:
            if tr:
                tr.post_commit(name, st['conn'])
        if explicit:
            tm.begin()

    def do_undo(k, many=0):
        """undo the k-th most recent commit — or, with many >= 2, that many recent commits that wrote
        pairwise different objects (preferring different writers) in ONE transaction"""
        import base64
        from ZODB.POSException import UndoError
        from ZODB.utils import p64
        do_abort(False)
        mine = [c for c in run.commits if c['thread'] != 'setup']
        picked = []
        if many:
            seen, threads = set(), set()
            for prefer_other in (True, False):
                for c in reversed(mine):
                    if len(picked) >= many or c in picked or not c.get('oids'):
                        continue
                    if seen & set(c['oids']) or (prefer_other and c['thread'] in threads):
                        continue
                    picked.append(c)
                    seen |= set(c['oids'])
                    threads.add(c['thread'])
            if len(picked) < 2:
                picked = []
        elif len(mine) > k:
            picked = [mine[-1 - k]]
        if not picked:
            if explicit:
                tm.begin()
            return
        tids = [c['tid'] for c in picked]
        if explicit:
            tm.begin()
        if tr:
            tr.pre_undo(name, tids)
        try:
            ids = [base64.encodebytes(p64(t)).rstrip() for t in tids]
            if many:
                db.undoMultiple(ids, tm.get())
            else:
                db.undo(ids[0], tm.get())
            tm.commit()
            run.errors.append((name, 'undo%d' % len(tids), 'ok'))
        except (UndoError, ConflictError) as e:
            run.errors.append((name, 'undo-failed', type(e).__name__))
            tm.abort()
        finally:
            if tr:
                tr.post_commit(name, st['conn'])
        if explicit:
            tm.begin()

    def do_begin():
        if tr:
            tr.abort(name, st['conn'])
        if explicit:
            tm.abort()
        tm.begin()

    opn()
    try:
        for op in ops:
            k = op[0]
            try:
                if k == 'r':
                    for i in op[1]:
                        read(i)
                elif k == 'w':
                    stamps[0] += 1
                    stamp = stamps[0]
                    for i in op[1]:
                        read(i)                      # the base state is a read of this epoch too
                        obj = st['objs'][i]
                        for g, f in [h for h in st['held'] if h[0] == goid(obj)]:
                            f.close()               # (a Blob cannot be opened for writing while read)
                            st['held'].remove((g, f))
                        set_value(obj, stamp)
                        run.pending[name][goid(obj)] = stamp
                        if tr:
                            tr.write(name, st['conn'], u64(obj._p_oid), stamp)
                elif k in ('c', 'cv', 'cc', 'cb'):
                    boundary(lambda: do_commit({'cv': 'vote', 'cc': 'commit', 'cb': 'begin'}.get(k)))
                elif k == 'cm':
                    for c in conns():
                        c.cacheMinimize()
                elif k == 'rg':
                    obj = st['objs'][op[1]]
                    if obj._p_jar.get(obj._p_oid) is not obj:
                        run.errors.append((name, 'identity', 'Connection.get returned another object'))
                        raise AssertionError('Connection.get(oid) is not the cached object')
                    read(op[1])
                elif k == 'os':
                    read(op[1])
                    obj = st['objs'][op[1]]
                    if hasattr(obj, 'value') and goid(obj) not in run.pending[name] \
                            and obj._p_jar._savepoint_storage is None:
                        state = obj._p_jar.oldstate(obj, obj._p_serial)
                        if isinstance(state, dict):
                            epoch_of(obj)['reads'].append((goid(obj), u64(obj._p_serial), state['value'],
                                                           run.tick(), 'oldstate', False))
                elif k == 'rcur':
                    read(op[1])
                    obj = st['objs'][op[1]]
                    if goid(obj) not in run.pending[name]:
                        obj._p_jar.readCurrent(obj)
                elif k == 'ex':
                    obj = st['objs'][op[1]]
                    if hasattr(obj, 'value') and goid(obj) not in run.pending[name] \
                            and obj._p_jar._savepoint_storage is None:
                        import io
                        f = io.BytesIO()
                        obj._p_jar.exportFile(obj._p_oid, f)
                        raw = f.getvalue()
                        n = int.from_bytes(raw[12:20], 'big')
                        v = record_value(raw[20:20 + n])
                        if v is not None:
                            epoch_of(obj)['reads'].append((goid(obj), None, v, run.tick(), 'export', False))
                elif k == 'idle':
                    for _ in range(op[1]):
                        sched._current.yield_point('idle', name)
                elif k == 'r2':
                    if st['conn_b'] is None:
                        def f():
                            st['conn_b'] = db.open(tm)
                        boundary_b(f)
                        rootb = st['conn_b'].root()
                        st['objs_b'] = [rootb['k%d' % i] for i in range(nobj)]
                    for i in op[1]:
                        if i < nobj:
                            read(i, st['objs_b'][i])
                elif k == 'wn':
                    stamps[0] += 1
                    stamp = stamps[0]
                    cont = st['conn'].root()['c_' + name]
                    o = MinPO(stamp)
                    st['conn'].add(o)
                    cont['n%d' % stamp] = o
                    st['newpend'].append(o)
                    for obj in (o, cont):
                        run.pending[name][goid(obj)] = stamp
                        if tr:
                            tr.write(name, st['conn'], u64(obj._p_oid), stamp)
                elif k == 'rn':
                    from ZODB.POSException import POSKeyError
                    for o in st['newobjs'] + st['newpend']:
                        if o._p_jar is st['conn'] and o._p_oid is not None:
                            try:
                                read(0, o)
                            except POSKeyError:
                                # fine only if an undo may have un-created the object
                                if not any(c.get('undo') for c in run.commits):
                                    raise
                                st['newobjs'] = [x for x in st['newobjs'] if x is not o]
                elif k == 'do':
                    do_delete_object()
                elif k == 'a':
                    boundary(do_abort)
                elif k == 'b':
                    boundary(do_begin)
                elif k == 'ro':
                    read(op[1])
                    obj = st['objs'][op[1]]
                    if hasattr(obj, 'open') and len(st['held']) < 4 and goid(obj) not in run.pending[name]:
                        st['held'].append((goid(obj), obj.open('r')))       # stays open across boundaries
                        run.errors.append((name, 'blob-reader-held', 'ok'))
                elif k == 'sp':
                    do_savepoint()
                elif k == 'rb':
                    do_rollback(op[1] if len(op) > 1 else 0)
                elif k == 'u':
                    boundary(lambda: do_undo(op[1]))
                elif k == 'um':
                    boundary(lambda: do_undo(0, op[1]))
                elif k == 'rc':
                    import ZODB.Connection
                    boundary(lambda: do_abort(False))
                    ZODB.Connection.resetCaches()
                    close_all()
                    opn()
                elif k == 'ic':
                    if hasattr(db.storage, 'invalidateCache'):
                        db.storage.invalidateCache()         # the storage-side route (HexStorage wrapper)
                    elif hasattr(db._mvcc_storage, 'invalidateCache'):
                        db._mvcc_storage.invalidateCache()   # what a storage does after a reconnect
                elif k == 'x':
                    boundary(lambda: do_abort(False))
                    close_all()
                    opn()
            except ConflictError as e:          # ReadConflictError of a load (simultaneous pack)
                run.errors.append((name, 'conflict-on-read', type(e).__name__))
                boundary(do_abort)
    finally:
        try:
            if tr:
                tr.abort(name, st['conn'])
            tm.abort()
            close_all()
        except Exception as e:      # noqa: BLE001
            run.errors.append((name, 'close', repr(e)))


def packer(run, db, ops, t_pack):
    for _ in ops:
        try:
            db.pack(t_pack)
        except Exception as e:      # noqa: BLE001
            run.errors.append(('pk', 'pack', type(e).__name__ + ':' + str(e)[:80]))


def storage_revisions(st, off=0, revs=None):
    from ZODB.tests.StorageTestBase import zodb_unpickle
    from ZODB.utils import u64
    revs = {} if revs is None else revs
    for txn in st.iterator():
        for r in txn:
            v = record_value(r.data) if r.data is not None else None
            revs.setdefault(u64(r.oid) + off, []).append((u64(r.tid), v))
    for l in revs.values():
        l.sort(key=lambda r: r[0])
    return revs


_ADAPTER_ROLE = []


def adapter_role():
    """creation site of MVCCAdapter._lock (needed before the DB exists)"""
    if not _ADAPTER_ROLE:
        from ZODB.mvccadapter import MVCCAdapter
        from ZODB.MappingStorage import MappingStorage
        _ADAPTER_ROLE.append(MVCCAdapter(MappingStorage())._lock.role)
    return _ADAPTER_ROLE[0]


def run_case(case, tmp, with_trace=False, schedule=None):
    """execute one case on the real code; returns the observation dict"""
    import transaction
    import ZODB
    from ZODB.FileStorage import FileStorage
    from ZODB.MappingStorage import MappingStorage
    from ZODB.blob import Blob
    from ZODB.tests.MinPO import MinPO
    from ZODB.utils import u64
    run = Run()
    d = os.path.join(tmp, 'case')
    shutil.rmtree(d, ignore_errors=True)
    os.makedirs(d)
    obs = dict(deadlock=False)
    with contextlib.ExitStack() as es:
        clk = es.enter_context(clock.scripted())
        es.enter_context(sched.installed())
        rec = None
        kind = case['kind']
        ctor = case.get('ctor', 'direct')
        if kind in FILE_KINDS:
            rec = vfs.Recorder(d)
            es.enter_context(vfs.install(rec))
            rec.record = lambda ev: None        # the byte trace is not needed here
        fspath, blobdir = os.path.join(d, 'Data.fs'), os.path.join(d, 'blobs')

        import ZODB.config as zconfig

        def from_config(text):
            return zconfig.storageFromString(text)

        if kind == 'file':
            if ctor == 'storage-config':
                st = from_config('<filestorage>\n path %s\n create true\n read-only false\n%s</filestorage>\n'
                                 % (fspath, ' blob-dir %s\n' % blobdir if case.get('blobs') else ''))
            elif ctor == 'db-config':
                st = None
            else:
                st = FileStorage(fspath, create=True, blob_dir=blobdir if case.get('blobs') else None)
        elif kind == 'map':
            st = None if ctor == 'db-config' else \
                from_config('<mappingstorage>\n name m\n</mappingstorage>\n') if ctor == 'storage-config' \
                else MappingStorage()
        elif kind == 'mvccmap':
            from ZODB.tests.MVCCMappingStorage import MVCCMappingStorage
            st = MVCCMappingStorage()
        elif kind in ('hexfile', 'hexmap'):
            from ZODB.tests.hexstorage import HexStorage
            st = HexStorage(FileStorage(fspath) if kind == 'hexfile' else MappingStorage())
        elif kind in ('bwfile', 'bwmap'):
            from ZODB.blob import BlobStorage
            st = BlobStorage(blobdir, FileStorage(fspath) if kind == 'bwfile' else MappingStorage(),
                             layout=case.get('layout', 'bushy'))
        elif kind in ('demo', 'demofile', 'demobase'):
            from ZODB.DemoStorage import DemoStorage
            if ctor == 'storage-config':
                st = from_config('<demostorage>\n</demostorage>\n')
            elif ctor == 'db-config':
                st = None
            else:
                st = DemoStorage(base=MappingStorage('base'),
                                 changes=FileStorage(fspath) if kind == 'demofile' else MappingStorage('changes'))
        else:
            raise InfraError('unknown storage kind %r' % kind)
        nobj2 = case.get('nobj2', 0)
        st2 = None
        if nobj2:
            st2 = FileStorage(os.path.join(d, 'two.fs')) if kind == 'file' else MappingStorage('two')
            run.st_off[id(st2)] = 1 << 40
        if st is not None:
            run.st_off[id(st)] = 0
        if kind == 'mvccmap':
            run.st_off[id(st._data)] = 0
        nthreads = len([n for n in case['progs'] if n != 'pk'])
        pool, cache_size = case.get('pool', 7), case.get('cache_size', 400)
        # the Lean model covers one database behind the MVCC adapter whose storage holds the whole
        # history and whose pool never discards a connection
        has_do = any(op[0] == 'do' for ops in case['progs'].values() for op in ops)
        with_trace = with_trace and not nobj2 and kind not in ('mvccmap', 'demobase') and ctor != 'db-config' \
            and pool >= 2 * nthreads + 2 and not has_do and not case.get('pclass')
        hooks = []
        if with_trace:
            import c02_trace
            core = st.changes if kind.startswith('demo') else st     # the storage whose locks order things
            run.tracer = c02_trace.Tracer(run)
            run.tracer.roles['adapter'] = adapter_role()
            run.tracer.roles['storage'] = core._lock.role
            run.tracer.roles['commit'] = core._commit_lock.role
            run.tracer.roles['pool'] = core._files._cond.role if hasattr(core, '_files') else None
            run.tracer.st = core
            es.enter_context(c02_trace.installed(run.tracer))
            hooks.append(run.tracer.hook)
        es.enter_context(instrumented(run))
        box = dict(st=st)

        def new_object(i):
            if i in case.get('pclass', ()):
                from ZODB.persistentclass import PersistentMetaClass
                return PersistentMetaClass('PC%d' % i, (object,), {'value': 0, '__module__': '__zodb__'})
            return Blob(b'0') if i in case.get('blobs', ()) else MinPO(0)

        def setup():
            st = box['st']
            if kind == 'demobase':
                # the objects live in the base; everything the case commits goes to the changes
                from ZODB.DemoStorage import DemoStorage
                base = MappingStorage('base')
                bdb = ZODB.DB(base)
                btm = transaction.TransactionManager()
                bc = bdb.open(btm)
                for i in range(case['nobj']):
                    bc.root()['k%d' % i] = new_object(i)
                btm.commit()
                bc.close()
                box['keep'] = bdb               # (not closed: closing it would close the base)
                st = box['st'] = DemoStorage(base=base, changes=MappingStorage('changes'))
            if ctor == 'db-config':
                inner = {'file': '<filestorage>\n path %s\n%s</filestorage>'
                                 % (fspath, ' blob-dir %s\n' % blobdir if case.get('blobs') else ''),
                         'map': '<mappingstorage>\n</mappingstorage>',
                         'demo': '<demostorage>\n</demostorage>'}[kind]
                db = box['db'] = zconfig.databaseFromString(
                    '<zodb>\n pool-size %d\n cache-size %d\n historical-pool-size 1\n %s\n</zodb>\n'
                    % (pool, cache_size, inner))
                st = box['st'] = db.storage
            elif nobj2:
                dbs = {}
                db = box['db'] = ZODB.DB(st, pool_size=pool, cache_size=cache_size, databases=dbs,
                                         database_name='one')
                box['db2'] = ZODB.DB(st2, pool_size=pool, databases=dbs, database_name='two')
            else:
                db = box['db'] = ZODB.DB(st, pool_size=pool, cache_size=cache_size,
                                         large_record_size=1 << 20)
            tm0 = transaction.TransactionManager()
            c = db.open(tm0)
            root = c.root()
            if nobj2:
                c2 = c.get_connection('two')
                for i in range(nobj2):
                    o = MinPO(0)
                    c2.add(o)
                    c2.root()['k%d' % i] = o
            if run.tracer:
                run.tracer.write('setup', c, 0, 0)
            from persistent.mapping import PersistentMapping
            for tn in sorted(case['progs']):
                if tn != 'pk':
                    cont = PersistentMapping()
                    c.add(cont)
                    root['c_' + tn] = cont          # this thread's container for the objects it creates
                    if run.tracer:
                        run.tracer.write('setup', c, u64(cont._p_oid), 0)
            if has_do:
                junk = MinPO(7)
                c.add(junk)
                root['junk'] = junk
                tm0.commit()
                del root['junk']
                box['junk'] = junk
            if kind != 'demobase':
                for i in range(case['nobj']):
                    o = new_object(i)
                    if i not in case.get('pclass', ()):
                        c.add(o)                    # (a persistent class is added by reachability only)
                    root['k%d' % i] = o
                    if run.tracer:
                        run.tracer.write('setup', c, u64(o._p_oid), 0)
                if run.tracer:
                    run.tracer.pre_commit('setup', c)
                tm0.commit()
            for g in range(case.get('garbage', 0) + (1 if kind == 'demobase' else 0)):
                for i in range(case['nobj']):
                    set_value(root['k%d' % i], 1000000 + g)
                    if run.tracer:
                        run.tracer.write('setup', c, u64(root['k%d' % i]._p_oid), 1000000 + g)
                if run.tracer:
                    run.tracer.pre_commit('setup', c)
                tm0.commit()
            if run.tracer:
                run.tracer.post_commit('setup', c)
            if kind == 'demobase':
                tm0.commit()                        # (the containers)
            if box.get('junk') is not None:
                run.garbage.append((u64(box['junk']._p_oid), u64(box['junk']._p_serial)))
            c.close()

        s0 = sched.Scheduler(seed=0)
        s0.hooks = list(hooks)
        s0.spawn('setup', setup)
        r0 = s0.run(timeout=60)
        def setup_verdict(msg):
            # the implementation failed during the set-up commits: a verdict with this case as failing
            # input (an InfraError / exit 2 on a changed tree would be neither caught nor clean)
            shutil.rmtree(d, ignore_errors=True)
            return dict(deadlock=False, kind=case['kind'], thread_errors={'setup': msg}, epochs=[], commits=[],
                        revs={}, errors=[], pool_bad=[], values={}, trace=None, trace_expect=None,
                        decisions=[], steps=0, setup_tid=0)
        if r0['deadlock'] or r0['errors']:
            return setup_verdict('set-up %s: %s' % ('deadlocked' if r0['deadlock'] else 'failed',
                                 {k: (v if isinstance(v, str) else type(v).__name__ + ':' + str(v)[:200])
                                  for k, v in r0['errors'].items()}))
        db, st = box['db'], box['st']
        setup_tid = u64(st.lastTransaction())
        t_pack = clk.now + 0.5
        clk.now += 1.0
        clk.step = case.get('clock_step', 1.0)
        for cm in run.commits:
            cm['ret'] = 0
            cm['thread'] = 'setup'
        if nobj2 and not any(cm.get('off') for cm in run.commits):
            return setup_verdict('set-up: no commit reached the second database')
        run.ev = 1
        if case.get('pct') and schedule is None:
            s = PCTScheduler(case['seed'], case['pct'][0], case['pct'][1], max_steps=400000)
        else:
            s = sched.Scheduler(seed=case['seed'], stickiness=case.get('stick', 0.0), schedule=schedule,
                                max_steps=400000)
        s.hooks = list(hooks)
        if rec is not None:
            sched.vfs_hook(rec)
        fp = getattr(st.changes if kind.startswith('demo') else st, '_files', None)
        if fp is not None:

            def pool_hook(t, kind, label):      # [I] FilePool: no reader file out while `writing`
                if fp.writing and fp._out and not run.pool_bad:
                    run.pool_bad.append('%s %s %s' % (t, kind, label))
            s.hooks.append(pool_hook)
        stamps = [0]
        for name in sorted(case['progs']):
            if name == 'pk':
                s.spawn(name, packer, run, db, case['progs'][name], t_pack)
            else:
                s.spawn(name, worker, run, db, name, case['progs'][name], case['nobj'],
                        case.get('explicit', False), stamps, nobj2)
        res = s.run(timeout=60)
        obs['deadlock'] = bool(res['deadlock'])
        obs['decisions'] = res['decisions']
        obs['steps'] = res['steps']
        obs['thread_errors'] = {k: (v if isinstance(v, str) else type(v).__name__ + ':' + str(v)[:200])
                                for k, v in res['errors'].items()}
        if rec is not None:
            rec.on_event = None
        if not obs['deadlock']:
            obs['revs'] = storage_revisions(st)
            if st2 is not None:
                storage_revisions(st2, 1 << 40, obs['revs'])
            for dbx in (db, box.get('db2')):
                try:
                    if dbx is not None:
                        dbx.close()
                except Exception:   # noqa: BLE001
                    pass
    obs['kind'] = case['kind']
    obs['epochs'] = [e for e in run.epochs if e['thread'] != 'setup']
    obs['commits'] = run.commits
    obs['errors'] = run.errors
    obs['pool_bad'] = run.pool_bad
    obs['values'] = run.values
    obs['trace'] = run.tracer.lines() if run.tracer else None
    obs['trace_expect'] = run.tracer.expect if run.tracer else None
    obs['setup_tid'] = setup_tid
    shutil.rmtree(d, ignore_errors=True)
    return obs


# Signature of a defect this check found in the unchanged tree and that was repaired in /repo
# (known_findings.json: fixed; corpus/C02/repro_blobstorage_finish_abort_race.py): BlobStorage.tpc_finish
# cleared its list of dirty blob files after the commit lock was released, so a transaction that began
# and aborted in that window deleted the blob file just committed.  A regression is a violation.
BW_RACE = 'C02:bw-committed-blob-removed-by-concurrent-abort'
CANDIDATES = ()         # signatures only counted until the coordinator has decided (none at present)


# ---------------------------------------------------------------- direct oracle (model-free)
def oracle(obs):
    """list of (signature, what) — empty when every epoch read one sufficiently fresh snapshot"""
    out = []
    if obs['deadlock']:
        return [('C02:deadlock', 'no runnable thread (schedule deadlocked)')]
    for t, e in sorted(obs['thread_errors'].items()):
        if obs.get('kind') in ('bwfile', 'bwmap') and 'No blob file' in e:
            return [(BW_RACE, 'BlobStorage wrapper: thread %s: %s' % (t, e))]
        out.append(('C02:thread-error', 'thread %s died: %s' % (t, e)))
    if obs.get('pool_bad'):
        out.append(('C02:pool-mutex', 'FilePool handed a reader file out while a finisher was writing (%s)'
                    % obs['pool_bad'][0]))
    revs = obs['revs']
    for oid, rl in sorted(revs.items()):
        dup = [a[0] for a, b in zip(rl, rl[1:]) if a[0] == b[0]]
        if dup:
            out.append(('C02:duplicate-revision-tid', 'the final storage holds two revisions of oid %d under the '
                        'same tid %x: two commits shared a transaction id' % (oid, dup[0])))
            return out
    commits = sorted(obs['commits'], key=lambda c: c['ret'])
    for ep in obs['epochs']:
        lo, hi = -1, INF
        who_lo = who_hi = None
        for (oid, serial, value, _idx, _kind, _g) in ep['reads']:
            rl = revs.get(oid, [])
            if serial is None:
                # a record read without its serial (exportFile): stamps are unique per transaction, so
                # the value identifies the revision — unless an undo re-instated it
                byval = [tid for tid, v in rl if v == value]
                if len(byval) != 1:
                    if not byval:
                        out.append(('C02:unknown-revision', 'thread %s exported oid %d with value %r which no '
                                    'revision of the final storage has' % (ep['thread'], oid, value)))
                    continue
                serial = byval[0]
            ks = [k for k, (tid, _) in enumerate(rl) if tid == serial]
            if not ks:
                out.append(('C02:unknown-revision', 'thread %s read oid %d serial %x which is not a '
                            'revision of the final storage' % (ep['thread'], oid, serial)))
                continue
            k = ks[0]
            known = rl[k][1] if rl[k][1] is not None else obs.get('values', {}).get((oid, serial))
            if value is not None and known is not None and known != value:
                out.append(('C02:value-serial-mismatch', 'thread %s read oid %d value %r with serial %x '
                            'whose committed value is %r' % (ep['thread'], oid, value, serial, known)))
            elif False and value is not None and rl[k][1] is not None and rl[k][1] != value:
                out.append(('C02:value-serial-mismatch', 'thread %s read oid %d value %r with serial %x '
                            'whose committed value is %r' % (ep['thread'], oid, value, serial, rl[k][1])))
            nxt = rl[k + 1][0] if k + 1 < len(rl) else INF
            if serial > lo:
                lo, who_lo = serial, oid
            if nxt < hi:
                hi, who_hi = nxt, oid
        if lo >= hi:
            out.append(('C02:mixed-snapshot', 'thread %s epoch@%d: oid %d was read at revision %x but oid %d '
                        'at a revision already superseded at %x — no single point of the commit order'
                        % (ep['thread'], ep['begin'], who_lo, lo, who_hi, hi)))
        fresh = max([c['tid'] for c in commits
                     if c['ret'] < ep['begin'] and c.get('off', 0) == ep.get('off', 0)] or [0])
        if ep['reads'] and hi <= fresh and lo < hi:
            out.append(('C02:stale-snapshot', 'thread %s epoch@%d read oid %d at a revision superseded at %x '
                        'although commit %x had returned before the boundary'
                        % (ep['thread'], ep['begin'], who_hi, hi, fresh)))
        for (oid, v, exp, _idx) in ep['owns']:
            if v != exp:
                out.append(('C02:own-write-lost', 'thread %s read %r for oid %d it had set to %r'
                            % (ep['thread'], v, oid, exp)))
    return out


def nontrivial(obs):
    """a foreign commit lands between an epoch's poll and its last read"""
    if obs['deadlock']:
        return False
    for ep in obs['epochs']:
        if not ep['reads']:
            continue
        last = max(r[3] for r in ep['reads'])
        for c in obs['commits']:
            if c['thread'] not in (ep['thread'], 'setup') and ep['end_poll'] < c['ret'] < last \
                    and c.get('off', 0) == ep.get('off', 0):
                return True
    return False


def canonical(case):
    return dict(kind=case['kind'], nobj=case['nobj'], progs=case['progs'], seed=case['seed'],
                stick=case['stick'], explicit=case['explicit'], clock_step=case.get('clock_step', 1.0),
                pct=case.get('pct'), blobs=case.get('blobs', []), nobj2=case.get('nobj2', 0),
                ctor=case.get('ctor'), cache_size=case.get('cache_size'), pool=case.get('pool'),
                pclass=case.get('pclass', []),
                layout=case.get('layout'))


# ---------------------------------------------------------------- batches (multiprocessing)
def run_batch(args):
    cases, tmp, with_trace = args
    os.makedirs(tmp, exist_ok=True)
    out = dict(evals=0, nontriv=[], hist={}, bad=[], samples=[], traces=[], candidates=[])

    def count(k, n=1):
        out['hist'][k] = out['hist'].get(k, 0) + n

    for case in cases:
        try:
            obs = run_case(case, tmp, with_trace=with_trace)
        except InfraError:
            raise
        except Exception as e:      # noqa: BLE001
            # an observation of the implementation the harness could not digest is a verdict with the
            # case as failing input, never an exit 2
            out['evals'] += 1
            out['bad'].append(('C02:error', 'unexpected %s while running / observing the case: %s'
                               % (type(e).__name__, str(e)[:200]), case))
            continue
        verdict = oracle(obs)
        nt = nontrivial(obs)
        out['evals'] += 1
        count('kind:' + case['kind'])
        if case.get('blobs'):
            count('with-blobs')
        if case.get('pclass'):
            count('with-persistent-class')
        if case.get('nobj2'):
            count('with-second-database')
        count('strategy:' + ('pct%d' % case['pct'][0] if case.get('pct') else 'random'))
        count('threads:%d' % len(case['progs']))
        if 'pk' in case['progs']:
            count('with-packer')
        for ep in obs['epochs']:
            count('epochs')
            count('reads', len(ep['reads']))
            count('reads:hit', sum(1 for r in ep['reads'] if r[4] == 'hit'))
            count('own-reads', len(ep['owns']))
            if ep['inval']:
                count('epochs-with-invalidations')
        count('commits', sum(1 for c in obs['commits'] if c['thread'] != 'setup'))
        for e in obs['errors']:
            count('err:%s:%s' % (e[1], e[2] if e[1] != 'pack' else e[2].split(':')[0]))
        if nt:
            import hashlib
            out['nontriv'].append(hashlib.sha1(json.dumps(canonical(case), sort_keys=True).encode()).hexdigest())
            if len(out['samples']) < 2:
                ep = max(obs['epochs'], key=lambda e: len(e['reads']))
                out['samples'].append(dict(kind=case['kind'], progs=case['progs'], seed=case['seed'],
                                           epoch=dict(thread=ep['thread'], start='%x' % (ep['start'] or 0),
                                                      reads=[(r[0], '%x' % (r[1] or 0), r[2]) for r in ep['reads']])))
        if verdict and verdict[0][0] in CANDIDATES:
            count('candidate:' + verdict[0][0].split(':', 1)[1])
            out['candidates'].append((verdict[0][0], verdict[0][1], case))
        elif verdict:
            out['bad'].append((verdict[0][0], verdict[0][1], case))
        elif with_trace and obs.get('trace') is not None:
            out['traces'].append((case, obs['trace'], obs['trace_expect']))
    shutil.rmtree(tmp, ignore_errors=True)
    return out


def shrink(case, tmp, sig):
    """delta-debug the flattened (thread, op) list with the same scheduler seed"""
    flat = [(t, i) for t in sorted(case['progs']) for i in range(len(case['progs'][t]))]

    def build(sub):
        keep = set(sub)
        c = dict(case)
        c['progs'] = {t: [op for i, op in enumerate(ops) if (t, i) in keep]
                      for t, ops in case['progs'].items()}
        return c

    def fails(sub):
        v = oracle(run_case(build(sub), tmp))
        return any(s == sig for s, _ in v)

    small = ddmin(flat, fails, max_tests=120)
    c = build(small)
    try:
        if not any(s == sig for s, _ in oracle(run_case(c, tmp))):
            return case
    except InfraError:
        raise
    except Exception:               # noqa: BLE001
        return case
    return c


def main(argv=None):
    ck = Check('C02', argv)
    ck.extra['modules'] = ['Props.C02', 'Drivers.Mvcc']
    ck.run_gate(ck.extra['modules'], ['Props.C02'])
    import multiprocessing as mp
    ncases = 20000 if ck.thorough else 1500
    nproc = 16 if ck.thorough else 4
    cases = []
    corpus_dir = os.path.join(os.path.dirname(os.path.dirname(os.path.abspath(__file__))), 'corpus', 'C02')
    if ck.replay_path:
        with open(ck.replay_path) as f:
            cases = [json.load(f)['case']['case']]
        ncases = 0
    else:
        if os.path.isdir(corpus_dir):
            for fn in sorted(os.listdir(corpus_dir)):
                if fn.endswith('.json'):
                    with open(os.path.join(corpus_dir, fn)) as f:
                        cases.append(json.load(f)['case'])
    for i in range(ncases):
        cases.append(gen_case(ck.rng, ck.thorough, i))
    with_trace = True
    chunks = [cases[i::nproc * 4] for i in range(nproc * 4)]
    chunks = [c for c in chunks if c]
    args = [(c, os.path.join(ck.tmp, 'w%d' % i), with_trace) for i, c in enumerate(chunks)]
    if len(cases) <= 3:
        results = [run_batch(a) for a in args]
    else:
        with mp.get_context('fork').Pool(nproc) as pool:
            results = pool.map(run_batch, args)
    traces = []
    bad = []
    for r in results:
        ck.evaluations += r['evals']
        ck.nontrivial.update(r['nontriv'])
        for k, v in r['hist'].items():
            ck.count(k, v)
        for smp in r['samples']:
            if len(ck.samples) < 3:
                ck.samples.append(smp)
        bad += r['bad']
        traces += r['traces']
        for sig, what, case in r['candidates'][:1]:
            import re
            if any(k.get('status', 'open') == 'open' and re.fullmatch(k['signature'], sig) for k in ck.known):
                ck.violation(sig, what, dict(case=case))
    # violations: shrink the first of each signature
    seen = set()
    for sig, what, case in bad:
        if sig in seen:
            continue
        seen.add(sig)
        try:
            small = shrink(case, ck.tmp, sig) if sig != 'C02:error' else case
            obs = run_case(small, ck.tmp)
        except InfraError:
            raise
        except Exception:           # noqa: BLE001  (the case itself is the failing input)
            ck.violation(sig, what, dict(case=case))
            continue
        v = [x for x in oracle(obs) if x[0] == sig] or [(sig, what)]
        ck.violation(sig, v[0][1], dict(case=small, decisions=obs.get('decisions'),
                                        commits=obs.get('commits'),
                                        epochs=[dict(e, reads=[list(r) for r in e['reads']])
                                                for e in obs.get('epochs', [])][:40]))
    # model tie: replay the mapped action traces on the Lean model and compare [I] observables
    if traces:
        import c02_trace
        c02_trace.compare(ck, traces)
    ck.finish(rule='storage kinds file / file+blob_dir / map / hex-wrapped / BlobStorage-wrapped / DemoStorage '
                   'stacks / native MVCCMappingStorage, built directly, from a storage config or a database '
                   'config with pool_size, cache_size options; steps also include reads through get / '
                   'oldstate / exportFile / readCurrent, a second connection on the same manager, new '
                   'objects, savepoints, failures in begin / commit / vote phase, cacheMinimize, resetCaches, '
                   'invalidateCache (adapter and storage side), undo, undoMultiple, deleteObject, idling; '
                   'seeded programs of 2-4 connections (one per thread, own TransactionManager; reads, '
                   'group writes with a per-transaction stamp, commit, failed vote, abort, begin, '
                   'close+reopen from the pool, optional packer on FileStorage) over FileStorage and '
                   'MappingStorage under seeded schedules at lock-operation and raw-file-operation '
                   'granularity; non-trivial = a commit of another thread returns between an epoch\'s '
                   'boundary poll and its last read; distinct by hash of (programs, seed, stickiness)',
              assumptions=['thread switches only at ZODB lock operations and raw file operations '
                           '(DESIGN 6.2: CPython code without lock/IO is atomic)',
                           'the abstract storage of the model answers loadBefore from the committed '
                           'log (that FileStorage/MappingStorage do is C04; probed here by the oracle)',
                           'scripted clock (advancing, stalled or regressing): tids strictly increase in '
                           'commit-lock order',
                           'ORACLE ONLY (no model trace): the native MVCCMappingStorage, DemoStorage over a '
                           'pre-populated base, databases built by ZODB.config.databaseFromString, cases with '
                           'a second database, with pool_size 1 or 2 (connections get discarded), with a '
                           'persistent class among the objects and with a storage-level deleteObject; all other cases are also replayed on the Lean model'])


if __name__ == '__main__':
    try:
        main()
    except InfraError as e:
        print('INFRA-ERROR', e)
        sys.exit(2)
