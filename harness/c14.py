"""C14 — object graphs round-trip and reference extraction is exact.

Real code : random programs building graphs of persistent objects in one or two databases of a
            multi-database, committed through real Connections on MappingStorages whose new_oid is a
            stub handing out chosen byte patterns; every stored record is decoded, passed to
            referencesf / get_refs, and the graph is loaded again in other connections (pooled, after
            cacheMinimize, in a fresh DB on a copy of the storage, with classes made unimportable, and
            from Python-2 style records whose all-ASCII oids arrive as str).
Model     : Drivers/Refs.lean (ZodbModel/Refs.lean) gets the in-memory graph as it is when
            Connection._commit starts and answers with the stores, records, references and loaded graph.
Oracle    : the property statement as Python over the observations of the real code only
            (`Oracle` below); it alone decides what is a violation.
"""
import binascii
import io
import json
import logging
import os
import sys

sys.path.insert(0, os.path.dirname(os.path.abspath(__file__)))
from common import Check, InfraError, run_driver, ddmin  # noqa: E402

logging.disable(logging.CRITICAL)
import warnings  # noqa: E402
warnings.simplefilter('ignore')           # (large_record_size warnings are provoked on purpose)

import transaction  # noqa: E402
import ZODB  # noqa: E402
import ZODB.broken  # noqa: E402
import ZODB.config  # noqa: E402
import ZODB.Connection  # noqa: E402
import ZODB.utils  # noqa: E402
import zodbpickle.pickle  # noqa: E402
from persistent import Persistent  # noqa: E402
from persistent.list import PersistentList  # noqa: E402
from persistent.mapping import PersistentMapping  # noqa: E402
from persistent.wref import WeakRef  # noqa: E402
from ZODB.Connection import TransactionMetaData  # noqa: E402
from ZODB.FileStorage import FileStorage  # noqa: E402
from ZODB.MappingStorage import MappingStorage  # noqa: E402
from ZODB.POSException import ConnectionStateError, InvalidObjectReference, POSKeyError  # noqa: E402
from ZODB.serialize import get_refs, referencesf  # noqa: E402

import c14_classes  # noqa: E402
from c14_classes import (Gone, GoneNA, Node, NodeInit, NodeNA, NodeNAEx, NodeNASub, NodeRes, NodeSlots,  # noqa: E402
                         NodeTupleState, Plain, PlainCopyreg, PlainGone, PlainGoneFalsy, PlainReduce, PlainSlots)
from c14_pkg.sub.mod import Deep  # noqa: E402

Z64 = b'\0' * 8
TMPBASE = [None]                          # scratch directory of the run (ck.tmp)
LEGACY_LOAD = [True]                      # load Python-2-format records in this process (see legacy_canary)
DBNAMES = ['d0', 'd1', 'd2', 'dx']      # d0..d2: members of the multi-database; dx: a stranger
KINDS = {'N': Node, 'A': NodeNA, 'B': NodeNASub, 'M': PersistentMapping, 'L': PersistentList, 'G': Gone, 'H': GoneNA,
         'I': lambda: NodeInit('required'), 'U': NodeTupleState, 'S': NodeSlots, 'E': NodeNAEx, 'R': NodeRes, 'P': Deep,
         'Y': PersistentMapping, 'Z': PersistentList}      # Y, Z: new and empty (falsy), no sentinel
CLSID = {('persistent.mapping', 'PersistentMapping'): 1, ('persistent.list', 'PersistentList'): 2,
         ('c14_classes', 'Node'): 3, ('c14_classes', 'NodeNA'): 4, ('c14_classes', 'NodeNASub'): 5,
         ('c14_gone', 'Gone'): 6, ('c14_gone', 'GoneNA'): 7, ('c14_classes', 'NodeInit'): 8,
         ('c14_classes', 'NodeTupleState'): 9, ('c14_classes', 'NodeSlots'): 10, ('c14_classes', 'NodeNAEx'): 11,
         ('c14_classes', 'NodeRes'): 12, ('c14_pkg.sub.mod', 'Deep'): 13}
GONE_IDS = [6, 7]
FALSY = [{}, [], 0, '', (), False]
MEMO = 'a1'                               # a plain container met a second time (pickle memo)
GHOST = 'a0'


def clsid(klass):
    key = (klass.__module__, klass.__name__)
    if key not in CLSID:
        CLSID[key] = 100 + binascii.crc32(repr(key).encode()) % 1000
    return CLSID[key]


def atom_code(v):
    if type(v) is int and 0 <= v < 10 ** 6:
        return 'a%d' % (2 * v + 2)
    return 'a%d' % (2 * binascii.crc32(repr(v).encode()) + 3)


def tr_value(v, leaf, memo):
    """value -> prefix token list; `leaf(obj)` gives the tokens for a persistent leaf"""
    if isinstance(v, (Persistent, WeakRef, Ref)):
        return leaf(v)
    if type(v).__name__ == 'PlainGoneFalsy':
        # its (falsy) state, and whether __setstate__ has been given it: always, except for the instances the
        # program itself made; the placeholder of the missing class holds the state it was given
        if id(v) in memo:
            return [MEMO]
        memo[id(v)] = v
        d = v.__dict__
        if isinstance(v, ZODB.broken.Broken):
            st, got = d.get('__Broken_state__', '<no state>'), '__Broken_state__' in d
        else:
            st, got = d.get('st', '<no state>'), bool(d.get('got') or d.get('made'))
        return ['n10:1', atom_code('falsy:%r:%s' % (st, got))]
    if type(v).__name__ == 'PlainGone' or isinstance(v, ZODB.broken.Broken):
        # a plain (non-persistent) instance pickled by value — the real class, or its placeholder
        if id(v) in memo:
            return [MEMO]
        memo[id(v)] = v
        st = v.__dict__.get('__Broken_state__') if isinstance(v, ZODB.broken.Broken) else v.__dict__
        return ['n3:1'] + tr_value(st, leaf, memo)
    if isinstance(v, (Plain, PlainSlots, PlainReduce, PlainCopyreg)):
        if id(v) in memo:
            return [MEMO]
        memo[id(v)] = v
        if isinstance(v, Plain):
            return ['n6:1'] + tr_value(v.__dict__, leaf, memo)
        a, b = (('a', 'b') if isinstance(v, PlainSlots) else ('x', 'y'))
        return (['n%d:2' % (7 if isinstance(v, PlainSlots) else 8 if isinstance(v, PlainReduce) else 9)]
                + tr_value(getattr(v, a, None), leaf, memo) + tr_value(getattr(v, b, None), leaf, memo))
    if isinstance(v, (set, frozenset)):
        # iteration order depends on the addresses of the members: canonical order (the generator puts at
        # most one persistent object into a set, so the order of the references of the record is not touched)
        if id(v) in memo:
            return [MEMO]
        memo[id(v)] = v
        kids = sorted((tr_value(x, leaf, memo) for x in v), key=lambda k: ' '.join(tree_skel(k)))
        return ['n%d:%d' % (4 if isinstance(v, set) else 5, len(kids))] + [t for k in kids for t in k]
    if isinstance(v, (list, tuple, dict)):
        if v == () and isinstance(v, tuple):
            return ['n1:0']
        if id(v) in memo:
            return [MEMO]
        memo[id(v)] = v
        if isinstance(v, dict):
            out = ['n2:%d' % (2 * len(v))]
            for k, x in v.items():
                out += tr_value(k, leaf, memo)
                out += tr_value(x, leaf, memo)
            return out
        out = ['n%d:%d' % (0 if isinstance(v, list) else 1, len(v))]
        for x in v:
            out += tr_value(x, leaf, memo)
        return out
    return [atom_code(v)]


def tree_leaves(toks):
    return [t for t in toks if t[0] not in 'an']


def tree_skel(toks):
    return [t if t[0] in 'an' else '*' for t in toks]


# ---------------------------------------------------------------- decoding real records
class Ref:
    """what the decoding unpickler puts in place of a persistent reference"""

    def __init__(self, tok):
        self.tok = tok


def oidtok(o, dbg=None):
    if isinstance(o, bytes):
        return 'b' + o.hex()
    if isinstance(o, str):
        return 'u' + o.encode('latin-1').hex()
    raise ValueError('oid in token is %r' % (o,))


def dbidx(name):
    return DBNAMES.index(name) if name in DBNAMES else 9


def tok_text(tok):
    if isinstance(tok, tuple):
        oid, klass = tok
        return 'T%s:%d' % (oidtok(oid), clsid(klass))
    if isinstance(tok, (bytes, str)):
        return 'O' + oidtok(tok)
    if isinstance(tok, list):
        if len(tok) == 1:
            return 'L' + oidtok(tok[0])
        kind, args = tok
        if kind == 'w':
            return 'W' + oidtok(args[0]) + (':%d' % dbidx(args[1]) if len(args) > 1 else '')
        if kind == 'm':
            return 'M%d:%s:%d' % (dbidx(args[0]), oidtok(args[1]), clsid(args[2]))
        if kind == 'n':
            return 'N%d:%s' % (dbidx(args[0]), oidtok(args[1]))
    raise ValueError('unknown reference %r' % (tok,))


def decode_record(data):
    """-> (class id, args tokens or None, state tokens, raw python (meta, state))"""
    c14_classes.show_gone()
    u = zodbpickle.pickle.Unpickler(io.BytesIO(data))
    u.persistent_load = Ref
    meta = u.load()
    state = u.load()
    memo = {}

    def leaf(x):
        if isinstance(x, Ref):
            return [tok_text(x.tok)]
        # a persistent object (or WeakRef) pickled *by value* inside another object's record
        st = x.__getstate__() if isinstance(x, Persistent) else None
        return ['n9:1'] + tr_value(st, leaf, memo)

    if isinstance(meta, tuple):
        klass, args = meta
        atoks = tr_value(args, leaf, memo)
    else:
        klass, atoks = meta, None
    stoks = tr_value(state, leaf, memo)
    return clsid(klass), atoks, stoks, (meta, state)


def rec_text(c, atoks, stoks):
    return '%d %s ; %s' % (c, ' '.join(atoks) if atoks is not None else '-', ' '.join(stoks))


def sentinels(x, acc, seen):
    """all sentinel strings inside a decoded record, descending into embedded instances"""
    if id(x) in seen:
        return
    seen.add(id(x))
    if isinstance(x, str):
        if x.startswith('S#'):
            acc.append(x)
    elif isinstance(x, dict):
        for k, v in x.items():
            sentinels(k, acc, seen)
            sentinels(v, acc, seen)
    elif isinstance(x, (list, tuple)):
        for v in x:
            sentinels(v, acc, seen)
    elif isinstance(x, Persistent):
        acc.append('EMBEDDED:' + type(x).__name__)
        sentinels(x.__getstate__(), acc, seen)
    elif isinstance(x, WeakRef):
        acc.append('EMBEDDED:WeakRef')
    elif type(x).__name__ in ('PlainGone', 'Plain'):
        sentinels(x.__dict__, acc, seen)
    elif isinstance(x, (PlainSlots, PlainReduce, PlainCopyreg)):
        for a in ('a', 'b', 'x', 'y'):
            sentinels(getattr(x, a, None), acc, seen)
    elif isinstance(x, (set, frozenset)):
        for v in x:
            sentinels(v, acc, seen)


def legacy_weak(data):
    """The same record with every same-database weak reference `['w', (oid,)]` in the legacy format
    `[oid]` (re-pickled through a pickler whose persistent_id hands the changed references back)."""
    c14_classes.show_gone()
    u = zodbpickle.pickle.Unpickler(io.BytesIO(data))
    u.persistent_load = Ref
    meta, state = u.load(), u.load()
    changed = []

    def pid(o):
        if isinstance(o, Ref):
            t = o.tok
            if isinstance(t, list) and len(t) == 2 and t[0] == 'w' and len(t[1]) == 1:
                changed.append(1)
                return [t[1][0]]
            return t
        if isinstance(o, (Persistent, WeakRef)):
            raise ValueError('embedded persistent object')
        return None
    f = io.BytesIO()
    p = zodbpickle.pickle.Pickler(f, 3)
    p.persistent_id = pid
    p.dump(meta)
    p.dump(state)
    return f.getvalue() if changed else None


def two_pickles(data):
    """the record is exactly two pickles: nothing follows the second STOP"""
    import pickletools
    try:
        pos = 0
        for _ in range(2):
            last = None
            for op_, arg_, p_ in pickletools.genops(data[pos:]):
                last = p_
            pos += last + 1
        return pos == len(data)
    except Exception:
        return False


def py2_patch(data):
    """Rewrite a protocol-3 record the way Python 2 wrote it: every SHORT_BINBYTES (the oids) becomes
    SHORT_BINSTRING, so the unpickler hands all-ASCII oids over as str.  None if an oid is not ASCII
    (such a record cannot be read without conversion; not a property of this check)."""
    import pickletools
    out = bytearray(data)
    pos = 0
    changed = False
    for _ in range(2):
        ops = list(pickletools.genops(data[pos:]))
        for op, arg, p in ops:
            if op.name == 'SHORT_BINBYTES':
                if any(b >= 0x80 for b in arg):
                    return None
                out[pos + p] = ord('U')
                changed = True
            elif op.name == 'PROTO':
                out[pos + p + 1] = 2
        last_op, _, last_p = ops[-1]
        pos += last_p + 1
    return bytes(out) if changed else None


# ---------------------------------------------------------------- hook into Connection._commit
CURRENT = None
_ORIG_COMMIT = ZODB.Connection.Connection._commit


def _commit_hook(conn, txn):
    s = CURRENT
    if s is None or id(conn) not in s.connid:
        return _ORIG_COMMIT(conn, txn)
    ev = s.before_commit(conn)
    try:
        r = _ORIG_COMMIT(conn, txn)
    except BaseException as e:
        s.after_commit(ev, e)
        raise
    s.after_commit(ev, None)
    return r


ZODB.Connection.Connection._commit = _commit_hook
_ORIG_TMP_STORE = ZODB.Connection.TmpStore.store


def _tmp_store_hook(self, oid, serial, data, version, txn):
    r = _ORIG_TMP_STORE(self, oid, serial, data, version, txn)
    s = CURRENT
    if s is not None:
        base = getattr(self._storage, '_storage', None)
        for i, st in enumerate(s.storages):
            if st is base:
                s.tmp_log[i].append((oid, data))
    return r


ZODB.Connection.TmpStore.store = _tmp_store_hook


class Snap:
    pass


INVALID_WHY = [("doesn't allow implicit cross-database", 0), ('foreign database connection', 1),
               ('separate connection to the same database', 2), ('reachable from multiple databases', 3)]


def invalid_why(e):
    msg = str(e.args[0]) if e.args else ''
    for text, n in INVALID_WHY:
        if text in msg:
            return n
    return 4


class Session:
    """one case on the real code; collects driver lines with the real observations, and the
    oracle's verdicts"""

    def __init__(self, case):
        global CURRENT
        self.case = case
        self.lines = []          # (driver line, real observation or None)
        self.viol = []           # (signature, what)
        self.names = {}
        self.sent = {}           # id(obj) -> sentinel
        self.keep = []           # keep python objects alive (ids are used as keys)
        self.issued = {}         # db index -> oids handed out by the stub new_oid
        self.store_log = {}      # db index -> [(oid, data)] of the running transaction
        self.expect = {}         # (db, oid) -> (clsid, tokens with leaves as keys): oracle's graph
        self.stale = set()       # (db, oid) given out during a failed commit and never stored
        self.formats = set()
        self.edges = {}
        self.ncommits = 0
        self.failed = False
        self.txn_open = False
        self.txn_events, self.sps, self.txn_implicit = [], [], set()
        self.history = []        # per successful transaction: (last tid of every storage, oracle's graph)
        self.rewritten = set()   # records re-written by a connection that could not import c14_gone
        self.init_expected = c14_classes.INIT_CALLS[0]
        self.tmp_log = {}
        self.before = None
        self.events = []
        self.counts = {}
        c14_classes.show_gone()
        self.dir = None
        ndb = case.get('ndb', 1)
        self.ndb = ndb
        plans = case.get('oids', [[], [], []])
        self.storages = []
        self.dbs = []
        databases = {}
        for i in range(ndb):
            if case.get('storage') == 'config' and ndb == 1:
                # the same DB through ZODB.config (options given explicitly)
                o = self.db_options()
                db = ZODB.config.databaseFromString(
                    '<zodb>\n database-name d0\n cache-size %d\n pool-size %d\n large-record-size %d\n'
                    ' allow-implicit-cross-references %s\n <mappingstorage>\n name d0\n </mappingstorage>\n</zodb>\n'
                    % (o['cache_size'], o['pool_size'], o['large_record_size'],
                       'true' if case.get('xrefs', [1])[0] else 'false'))
                self._stub(db.storage, i, plans[i] if i < len(plans) else [])
                self.storages.append(db.storage)
                self.dbs.append(db)
                continue
            if case.get('storage') == 'file':
                import tempfile
                self.dir = self.dir or tempfile.mkdtemp(prefix='c14-', dir=TMPBASE[0])
                st = FileStorage(os.path.join(self.dir, DBNAMES[i] + '.fs'))
            elif case.get('storage') == 'hex':
                from ZODB.tests.hexstorage import HexStorage
                st = HexStorage(MappingStorage(DBNAMES[i]))      # records are transformed below the DB
            else:
                st = MappingStorage(DBNAMES[i])
            self._stub(st, i, plans[i] if i < len(plans) else [])
            self.storages.append(st)
            xr = case.get('xrefs', [1, 1, 1])
            self.dbs.append(ZODB.DB(st, databases=databases, database_name=DBNAMES[i],
                                    xrefs=bool(xr[i] if i < len(xr) else 1), **self.db_options()))
        self.tm = transaction.TransactionManager()
        self.conns = {}          # role -> connection; roles 0,1 main session; 'A2' other conn of d0; 'X' of dx
        self.connid = {}         # id(conn) -> (db index, model connection number)
        self.conns[0] = self.dbs[0].open(transaction_manager=self.tm)
        self.connid[id(self.conns[0])] = (0, 1)
        self.ltm = transaction.TransactionManager()
        CURRENT = self
        self.emit('reset', 'ok')
        for i in range(ndb):
            for oid, data in self._all_records(self.storages[i]).items():
                c, a, s, _ = decode_record(data)
                self.emit('put %d:%s %s' % (i, oid.hex(), rec_text(c, a, s)), 'ok')

    # -- plumbing ---------------------------------------------------------------------------
    def count(self, k):
        self.counts[k] = self.counts.get(k, 0) + 1

    def emit(self, line, real=None):
        self.lines.append((line, real))

    def violation(self, sig, what):
        self.viol.append((sig, what))

    def _stub(self, st, i, plan):
        plan = [bytes.fromhex(x) for x in plan]
        self.issued[i] = []
        self.store_log[i] = []
        self.tmp_log[i] = []
        counter = [0]

        def new_oid():
            used = set(self.issued[i]) | {Z64}
            while plan:
                o = plan.pop(0)
                if o not in used and not self._exists(st, o):
                    break
            else:
                while True:
                    counter[0] += 1
                    o = b'\x00\x00\x01' + counter[0].to_bytes(5, 'big')
                    if o not in used:
                        break
            self.issued[i].append(o)
            return o

        orig_store = st.store

        def store(oid, serial, data, version, txn):
            r = orig_store(oid, serial, data, version, txn)
            self.store_log[i].append((oid, data))
            return r

        st.new_oid = new_oid
        st.store = store

    @staticmethod
    def _exists(st, oid):
        try:
            ZODB.utils.load_current(st, oid)
            return True
        except POSKeyError:
            return False

    @staticmethod
    def _all_records(st):
        cur = {}
        for t in st.iterator():
            for r in t:
                cur[r.oid] = r.data
        return cur

    def db_options(self):
        c = self.case
        return dict(cache_size=c.get('cache_size', 400), pool_size=c.get('pool_size', 7),
                    large_record_size=c.get('large_record_size', 1 << 24))

    def conn(self, role):
        if role in self.conns:
            return self.conns[role]
        if role in (1, 2):
            if self.ndb <= role:
                return None
            c = self.conns[0].get_connection(DBNAMES[role])
            self.connid[id(c)] = (role, 2 if role == 1 else 6)
        elif role == 'A2':
            c = self.dbs[0].open(transaction_manager=transaction.TransactionManager())
            self.connid[id(c)] = (0, 3)
        elif role == 'B2':
            if self.ndb < 2:
                return None
            c = self.dbs[1].open(transaction_manager=transaction.TransactionManager())
            self.connid[id(c)] = (1, 5)
        elif role == 'X':
            st = MappingStorage('dx')
            self._stub(st, 3, [])
            self.xdb = ZODB.DB(st, database_name='dx')
            c = self.xdb.open(transaction_manager=transaction.TransactionManager())
            self.connid[id(c)] = (3, 4)
        else:
            return None
        self.conns[role] = c
        return c

    def jar_text(self, jar):
        if jar is None:
            return '-'
        d, c = self.connid.get(id(jar), (9, 99))
        return '%d:%d' % (d, c)

    def close(self):
        global CURRENT
        CURRENT = None
        try:
            transaction.abort()          # nothing of this session may have joined the thread's default transaction
        except Exception:
            pass
        for tm in [self.tm, self.ltm]:
            try:
                tm.abort()
            except Exception:
                pass
        for role, c in list(self.conns.items()):
            try:
                c.transaction_manager.abort()
            except Exception:
                pass
        for db in self.dbs + ([self.xdb] if hasattr(self, 'xdb') else []):
            try:
                db.close()
            except Exception:
                pass
        c14_classes.show_gone()
        if self.dir:
            import shutil
            shutil.rmtree(self.dir, ignore_errors=True)

    # -- program ops ------------------------------------------------------------------------
    def build(self, spec, shared):
        k = spec[0]
        if k == 'a':
            return spec[1]
        if k == 'r':
            return self.names.get(spec[1], 0)
        if k == 'w':
            o = self.names.get(spec[1])
            if o is None:
                return 0
            w = WeakRef(o)
            self.keep.append(w)
            return w
        if k == 'l':
            return [self.build(x, shared) for x in spec[1]]
        if k == 't':
            return tuple(self.build(x, shared) for x in spec[1])
        if k == 'd':
            return {'k%d' % i: self.build(x, shared) for i, x in enumerate(spec[1])}
        if k == 'dup':
            x = self.build(spec[1], shared)
            return [x, x]
        if k == 'p':
            o = PlainGone('p')
            o.kids = [self.build(x, shared) for x in spec[1]]
            return o
        if k == 'pf':
            return PlainGoneFalsy(type(FALSY[spec[1] % 6])(FALSY[spec[1] % 6]))
        if k == 'pl':
            o = Plain()
            o.kids = [self.build(x, shared) for x in spec[1]]
            return o
        if k in ('ps', 'pr', 'pc'):
            a = self.build(spec[1][0], shared) if spec[1] else 0
            b = [self.build(x, shared) for x in spec[1][1:]]
            if k == 'ps':
                o = PlainSlots()
                o.a, o.b = a, b
                return o
            return (PlainReduce if k == 'pr' else PlainCopyreg)(a, b)
        if k == 'dk':                 # persistent objects as dictionary keys
            d = {}
            for i, x in enumerate(spec[1]):
                key = self.build(x, shared)
                try:
                    d[key if isinstance(key, Persistent) else 'k%d' % i] = i
                except TypeError:
                    d['k%d' % i] = i
            return d
        if k in ('set', 'fset'):      # one persistent object among plain values
            xs = [self.build(spec[1], shared)] + [a for a in spec[2]]
            try:
                return set(xs) if k == 'set' else frozenset(xs)
            except TypeError:
                return xs
        if k == 'deep':               # spec[1] containers deep
            v = self.build(spec[2], shared)
            for i in range(spec[1]):
                v = [v] if i % 3 else (v,)
            return v
        if k == 'many':               # spec[1] references to the same object in one record
            return [self.build(spec[2], shared)] * spec[1]
        if k == 'big':
            return 'B' * spec[1]
        return 0

    def run(self):
        try:
            for op in self.case['ops']:
                self.count('op:' + op[0])
                self.do(op)
                if self.failed and not self.case.get('goon'):
                    break       # what a program does after a failed commit belongs to C11
            self.final_phase()
        finally:
            self.close()

    def do(self, op):
        k = op[0]
        if k == 'new':
            name, kind = op[1], op[2]
            if name in self.names or kind not in KINDS:
                return
            o = KINDS[kind]()
            if kind == 'I':
                self.init_expected += 1
            s = 'S#' + name
            if kind in 'YZ':
                s = None
            elif kind == 'M':
                o['s'] = s
            elif kind == 'L':
                o.append(s)
            else:
                o.s = s
            self.names[name] = o
            self.sent[id(o)] = s
            self.keep.append(o)
        elif k == 'set':
            o = self.names.get(op[1])
            if o is None or (o._p_jar is not None and o._p_jar.opened is None):
                return              # (an object of a connection that has been closed)
            v = self.build(op[3], {})
            try:
                if isinstance(o, PersistentMapping):
                    o[op[2]] = v
                elif isinstance(o, PersistentList):
                    o.append(v)
                else:
                    setattr(o, op[2], v)
            except (POSKeyError, AttributeError, ConnectionStateError):
                pass       # (AttributeError: a class with __slots__; ConnectionStateError: its connection is closed)
        elif k == 'args':
            o = self.names.get(op[1])
            if isinstance(o, (NodeNA, GoneNA)) and o._p_jar is None:
                o.__dict__['_v_na'] = tuple(self.build(x, {}) for x in op[2])
        elif k == 'add':
            c, o = self.conn(op[1]), self.names.get(op[2])
            if c is None or o is None:
                return
            try:
                c.add(o)
            except InvalidObjectReference:
                pass
        elif k == 'root':
            c, o = self.conn(op[1]), self.names.get(op[3])
            if c is None or o is None:
                return
            c.root()[op[2]] = o
        elif k == 'touch':
            o = self.names.get(op[1])
            if o is not None and o._p_jar is not None and id(o._p_jar) in self.connid \
                    and self.connid[id(o._p_jar)][1] in (1, 2):
                try:
                    o._p_changed = True
                except (POSKeyError, ConnectionStateError):
                    pass
        elif k == 'foreign' and op[2] == 'A2c':
            # an object of a connection of the same database that has been closed meanwhile
            o = self.names.get(op[1])
            if o is None or o._p_jar is not None:
                return
            seen, todo = set(), [o]
            while todo:                       # only if it refers to nothing that belongs to a connection already
                x = todo.pop()                # (a refused commit of an added object is C11's subject)
                if id(x) in seen:
                    continue
                seen.add(id(x))
                if x is not o and (isinstance(x, WeakRef) or x._p_jar is not None):
                    return

                def leaf(y):
                    todo.append(y)
                    return ['*']
                tr_value(x.__getstate__(), leaf, {})
                if hasattr(type(x), '__getnewargs__'):
                    tr_value(x.__getnewargs__(), leaf, {})
            tm2 = transaction.TransactionManager()
            c = self.dbs[0].open(transaction_manager=tm2)
            try:
                c.add(o)
                tm2.commit()
            except InvalidObjectReference:        # it refers to objects of the main connection: leave it alone
                tm2.abort()
                c.close()
                return
            c.close()
            self.connid[id(c)] = (0, 7)
            self.keep.append(c)
        elif k == 'foreign':
            o = self.names.get(op[1])
            c = self.conn(op[2])
            if o is None or c is None or o._p_jar is not None:
                return
            c.add(o)
        elif k == 'rewrite-missing':
            # while the classes of c14_gone cannot be imported, another connection loads the (committed)
            # object — plain instances of such classes inside it are placeholders — and stores it again
            mine = self.names.get(op[1])
            if mine is None or mine._p_oid is None or isinstance(mine, (Gone, GoneNA, NodeNA)) \
                    or self.connid.get(id(mine._p_jar), (9,))[0] != 0 or not self._exists(self.storages[0], mine._p_oid):
                return
            tm2 = transaction.TransactionManager()
            c14_classes.hide_gone()
            c = self.dbs[0].open(transaction_manager=tm2)
            try:
                c.cacheMinimize()
                o = c.get(mine._p_oid)
                o._p_activate()
                o._p_changed = True
                tm2.commit()
                self.count('rewrite-missing')
                self.rewritten.add((0, mine._p_oid))
            except Exception as e:
                self.violation('C14:missing-class-rewrite', 'loading the record of %s while classes are missing and '
                               'storing it again unchanged raised %r' % (mine._p_oid.hex(), e))
            finally:
                tm2.abort()
                c14_classes.show_gone()
                c.close()
                # the ghosts this connection made are placeholders for good: pooled connections start
                # with new caches when they are opened next
                ZODB.Connection.resetCaches()
        elif k == 'conflict':
            # another connection re-stores the (committed) object unchanged: if this session has modified
            # it too, its commit fails with ConflictError while storing
            tm2 = transaction.TransactionManager()
            c = self.dbs[0].open(transaction_manager=tm2)
            try:
                if op[1] == '@root':
                    o = c.get(Z64)
                else:
                    mine = self.names.get(op[1])
                    if mine is None or mine._p_oid is None or self.connid.get(id(mine._p_jar), (9,))[0] != 0:
                        return
                    o = c.get(mine._p_oid)
                o._p_activate()
                o._p_changed = True
                tm2.commit()
                self.count('foreign-commit')
            except POSKeyError:
                tm2.abort()
            finally:
                c.close()
        elif k == 'poison':
            o = self.names.get(op[1])
            if isinstance(o, (Node, NodeNA)):
                o.poison = lambda: 0
        elif k == 'unpoison':
            o = self.names.get(op[1])
            if isinstance(o, (Node, NodeNA)) and 'poison' in o.__dict__:
                del o.poison
        elif k == 'reopen':
            # between two transactions: the primary connection (with its attached secondaries) goes back to
            # the pool and is taken out again with the session's explicit transaction manager
            c = self.conns[0]
            if self.txn_open or self.failed or not all(x._needs_to_join for x in c.connections.values()) \
                    or c._reset_counter != ZODB.Connection.global_reset_counter:
                return      # (only between transactions: nothing of the group has joined; and not after a
                #              resetCaches(): the reopened connection would start with an empty cache while the
                #              program still holds its objects)
            try:
                c.close()
            except ConnectionStateError:
                return
            c2 = self.dbs[0].open(transaction_manager=self.tm)
            self.count('reopen' + ('' if c2 is c else ':other-connection'))
            if c2 is not c:                      # the pool handed out another connection: the program ends here
                c2.close()
                self.failed = True
        elif k == 'commit':
            self.do_commit()
        elif k == 'savepoint':
            self.do_savepoint()
        elif k == 'rollback':
            self.do_rollback(op[1])

    # -- the commit, observed ---------------------------------------------------------------
    def leaf_handle(self, snap, o):
        if id(o) in snap.idx:
            return snap.idx[id(o)]
        h = len(snap.objs)
        snap.idx[id(o)] = h
        snap.objs.append(o)
        snap.todo.append(h)
        return h

    def before_commit(self, conn):
        snap = Snap()
        snap.conn = conn
        snap.db, snap.cid = self.connid[id(conn)]
        snap.objs, snap.idx, snap.todo = [], {}, []
        snap.registered = [self.leaf_handle(snap, o) for o in conn._registered_objects]
        snap.added = [self.leaf_handle(snap, o) for o in conn._added.values()]
        snap.cls, snap.args, snap.state, snap.oid, snap.jar, snap.changed = [], [], [], [], [], []
        snap.pseudo = {}

        def leaf(x):
            if isinstance(x, WeakRef):
                t = x.__dict__.get('_v_ob') if hasattr(x, '__dict__') else None
                if t is None:
                    t = getattr(x, '_v_ob', None)
                if t is None:
                    try:
                        t = x()
                    except Exception:
                        t = None
                if t is None:
                    key = (x.oid, id(x.dm))
                    if key not in snap.pseudo:
                        p = Snap()
                        p.pseudo_oid, p.pseudo_jar = x.oid, x.dm
                        snap.pseudo[key] = p
                        self.keep.append(p)
                    t = snap.pseudo[key]
                return ['w%d' % self.leaf_handle(snap, t)]
            return ['s%d' % self.leaf_handle(snap, x)]

        while snap.todo:
            h = snap.todo.pop(0)
            o = snap.objs[h]
            while len(snap.cls) <= h:
                for l in (snap.cls, snap.args, snap.state, snap.oid, snap.jar, snap.changed):
                    l.append(None)
            if isinstance(o, Snap):                  # target of a weak reference that is not in memory
                snap.cls[h], snap.args[h], snap.state[h] = 0, None, [GHOST]
                snap.oid[h], snap.jar[h], snap.changed[h] = o.pseudo_oid, o.pseudo_jar, False
                continue
            snap.cls[h] = clsid(type(o))
            snap.oid[h], snap.jar[h] = o._p_oid, o._p_jar
            snap.changed[h] = bool(o._p_changed)
            has_na = hasattr(type(o), '__getnewargs__')
            if o._p_changed is None or isinstance(o, ZODB.broken.Broken):
                snap.args[h] = [GHOST] if has_na else None
                snap.state[h] = [GHOST]
            else:
                memo = {}
                snap.args[h] = tr_value(o.__getnewargs__(), leaf, memo) if has_na else None
                snap.state[h] = tr_value(o.__getstate__(), leaf, memo)
        snap.issued_from = len(self.issued[snap.db])
        snap.log_from = len(self.store_log[snap.db])
        snap.tmp_from = len(self.tmp_log[snap.db])
        snap.conns = {}
        for name in conn.db().databases:
            c = conn.connections.get(name)
            snap.conns[dbidx(name)] = self.connid.get(id(c), (9, 98))[1] if c is not None else 97
        snap.xrefs = bool(conn.db().xrefs)
        self.events.append(snap)
        return snap

    def after_commit(self, snap, exc):
        snap.exc = exc
        snap.fresh = self.issued[snap.db][snap.issued_from:]
        if snap.conn._savepoint_storage is not None:       # _commit(None) of a savepoint: into the TmpStore
            snap.stored = self.tmp_log[snap.db][snap.tmp_from:]
        else:
            snap.stored = self.store_log[snap.db][snap.log_from:]
        snap.post_oid = [getattr(o, 'pseudo_oid', None) if isinstance(o, Snap) else o._p_oid for o in snap.objs]
        snap.post_jar = [getattr(o, 'pseudo_jar', None) if isinstance(o, Snap) else o._p_jar for o in snap.objs]

    def process_events(self):
        """driver lines, real observations and the oracle's verdict for the _commit calls just made"""
        orc = Oracle(self)
        for snap in self.events:
            self.txn_events.append(snap)
            modelled = snap.exc is None or isinstance(snap.exc, InvalidObjectReference)
            if not modelled:
                self.count('commit:unmodelled-failure')
                break
            self.emit('heap', 'ok')
            for h in range(len(snap.objs)):
                self.emit('obj %d %s %s %s ; %s' % (
                    snap.cls[h], snap.oid[h].hex() if snap.oid[h] is not None else '-',
                    self.jar_text(snap.jar[h]),
                    ' '.join(snap.args[h]) if snap.args[h] is not None else '-',
                    ' '.join(snap.state[h])), 'h=%d' % h)
            self.emit('env %d %d %d %s %s' % (
                snap.db, snap.cid, int(snap.xrefs),
                ','.join('%d:%d' % kv for kv in sorted(snap.conns.items())) or '-',
                ','.join(o.hex() for o in snap.fresh) or '-'), 'ok')
            self.emit('pending %s %s %s' % (
                ','.join(map(str, snap.registered)) or '-', ','.join(map(str, snap.added)) or '-',
                ','.join(str(h) for h in range(len(snap.objs)) if snap.changed[h]) or '-'), 'ok')
            if snap.exc is not None:
                self.emit('commit', 'err:InvalidRef%d' % invalid_why(snap.exc))
                self.count('commit:InvalidRef%d' % invalid_why(snap.exc))
                orc.commit_outcome(snap, self.txn_implicit, failed=True)
                break
            self.count('commit:ok')
            self.emit('commit', 'ok stored=' + ','.join(sorted(o.hex() for o, _ in snap.stored)))
            self.emit('final', ' '.join('%d=%s@%s' % (
                h, snap.post_oid[h].hex() if snap.post_oid[h] is not None else '-',
                self.jar_text(snap.post_jar[h])) for h in range(len(snap.objs))))
            orc.commit_outcome(snap, self.txn_implicit, failed=False)
            for oid, data in snap.stored:
                key = '%d:%s' % (snap.db, oid.hex())
                try:
                    c, a, s, raw = decode_record(data)
                    self.emit('rec ' + key, rec_text(c, a, s))
                    for t in tree_leaves((a or []) + s):
                        self.formats.add(t[0])
                except Exception as e:
                    self.emit('rec ' + key, 'undecodable:%s' % type(e).__name__)
                self.emit('refs ' + key, self.refs_text(data))
                self.emit('getrefs ' + key, self.getrefs_text(data))
            orc.records(snap)
            for h in range(len(snap.objs)):
                if snap.oid[h] is None and snap.post_oid[h] is not None:
                    self.txn_implicit.add((snap.db, snap.post_oid[h]))
        self.events = []

    def begin_txn(self):
        if not self.txn_open:
            self.txn_open = True
            self.txn_events, self.sps, self.txn_implicit = [], [], set()
            self.emit('txnbegin', 'ok')

    def do_savepoint(self):
        """transaction.savepoint(): every joined connection runs _commit(None) into its TmpStore"""
        self.events = []
        try:
            sp = self.tm.savepoint()
        except Exception as e:
            self.finish_txn(e)
            return
        self.begin_txn()
        self.process_events()
        self.emit('spmark', 'ok')
        self.sps.append((sp, len(self.txn_events)))
        self.count('savepoint')

    def do_rollback(self, j):
        if not self.txn_open or not 0 <= j < len(self.sps):
            return
        sp, mark = self.sps[j]
        sp.rollback()
        self.txn_events = self.txn_events[:mark]      # what later savepoints wrote is discarded
        self.sps = self.sps[:j + 1]
        self.emit('sprollback %d' % j, 'ok')
        self.count('rollback')

    def do_commit(self):
        self.events = []
        for i in self.store_log:
            self.store_log[i] = []
        self.before = [st.lastTransaction() for st in self.storages]
        try:
            self.tm.commit()
            exc = None
        except Exception as e:
            exc = e
        self.finish_txn(exc)

    def finish_txn(self, exc):
        if exc is not None:
            self.failed = True
            self.tm.abort()
        before = getattr(self, 'before', None) or [st.lastTransaction() for st in self.storages]
        self.before = None
        self.ncommits += 1
        orc = Oracle(self)
        txn_ok = exc is None
        self.begin_txn()
        self.process_events()
        self.txn_open = False
        events = self.txn_events
        stored_keys = [(snap.db, oid) for snap in events if snap.exc is None for oid, _ in snap.stored]
        self.emit('txnend' if txn_ok else 'txnabort', 'ok')
        if txn_ok:
            for i, st in enumerate(self.storages):
                if st.lastTransaction() != before[i]:
                    it = []
                    for t in st.iterator():
                        it = sorted(r.oid for r in t)       # of the last transaction
                    lg = sorted(o for o, _ in self.store_log[i])
                    if it != lg:
                        self.violation('C14:stored-set', 'storage.iterator() of the transaction lists %r, '
                                       'store() was called for %r' % (it, lg))
                    sv = sorted({o for d, o in stored_keys if d == i})
                    if it != sv and all(snap.exc is None for snap in events):
                        self.violation('C14:stored-set', 'the transaction holds records for %s; its savepoints and '
                                       'commit (minus what was rolled back) stored %s'
                                       % ([o.hex() for o in it], [o.hex() for o in sv]))
            if all(snap.exc is None for snap in events):
                orc.remember(events)
                self.emit('histmark', 'ok')           # the database as of this transaction
                self.history.append(([st.lastTransaction() for st in self.storages], dict(self.expect)))
                keys = sorted(set(stored_keys) | {(i, Z64) for i in range(self.ndb)})
                self.load_phase(keys, 'pool')
                if self.case.get('fresh_each', True):
                    self.load_phase(keys, 'fresh')
        else:
            # a failed commit must leave every object that had no oid without one: nothing stored it
            for snap in events:
                for h, o in enumerate(snap.objs):
                    if not isinstance(o, Snap) and snap.oid[h] is None and o._p_oid is not None:
                        self.stale.add((snap.db, o._p_oid))
                        self.violation('C14:stale-oid-after-failed-commit', 'the commit failed (%s) and was '
                                       'aborted, but new object %d (%s) keeps oid %s of the aborted commit: a '
                                       'later commit will refer to it without storing it'
                                       % (type(exc).__name__, h, type(o).__name__, o._p_oid.hex()))
            orc.txn_failed(events, before)

    @staticmethod
    def refs_text(data):
        try:
            return '[' + ','.join(o.hex() if isinstance(o, bytes) else repr(o) for o in referencesf(data)) + ']'
        except UnicodeError:
            return 'err:Unicode'

    @staticmethod
    def getrefs_text(data):
        try:
            return '[' + ','.join(o.hex() if isinstance(o, bytes) else repr(o) for o, _ in decode_getrefs(data)) + ']'
        except UnicodeError:
            return 'err:Unicode'

    # -- loading ----------------------------------------------------------------------------
    def real_walk(self, home_conn, keys):
        out, seen, registry = [], set(), {}
        self.args_seen = {}
        dup = [0]
        todo = list(keys)

        def conn_of(d):
            return home_conn if d == 0 else home_conn.get_connection(DBNAMES[d])

        def leaf(x):
            if isinstance(x, WeakRef):
                d = getattr(x, 'database_name', None)
                if not isinstance(x.oid, bytes):
                    self.violation('C14:ascii-oid', 'a loaded weak reference carries the oid %r' % (x.oid,))
                    return ['r?:' + x.oid.encode('latin-1').hex()]
                return ['r%s:%s' % ('-' if d is None else dbidx(d), x.oid.hex())]
            if x._p_jar is None or x._p_oid is None:
                self.violation('C14:identity', 'a reference loads as an object (oid %r) that is not the '
                               'connection\'s object for that oid: it has no jar' % (x._p_oid,))
                return ['o?:?']
            if not isinstance(x._p_oid, bytes):
                self.violation('C14:ascii-oid', 'a reference loads as an object whose oid is %r' % (x._p_oid,))
                return ['o?:' + x._p_oid.encode('latin-1').hex()]
            k = (dbidx(x._p_jar.db().database_name), x._p_oid)
            if registry.setdefault(k, x) is not x:
                dup[0] += 1
            todo.append(k)
            return ['o%d:%s' % (k[0], k[1].hex())]

        while todo:
            k = todo.pop(0)
            if k in seen:
                continue
            seen.add(k)
            key = '%d:%s' % (k[0], k[1].hex())
            try:
                obj = conn_of(k[0]).get(k[1])
                if not isinstance(obj, Persistent):
                    raise TypeError('get() returned a %s that is not persistent' % type(obj).__name__)
                if registry.setdefault(k, obj) is not obj:
                    dup[0] += 1
                obj._p_activate()
                st = obj.__getstate__()
            except POSKeyError:
                out.append(key + '=err:POSKey')
                continue
            except KeyError:
                out.append(key + '=err:KeyError')
                continue
            except UnicodeError:
                out.append(key + '=err:Unicode')
                continue
            except Exception as e:
                out.append(key + '=err:Load:%s' % type(e).__name__)
                continue
            if isinstance(obj, ZODB.broken.Broken):
                try:                                   # a placeholder refuses to be changed
                    obj.c14_changed = 1
                    self.violation('C14:roundtrip', 'the placeholder for %s (class missing) accepted a change' % key)
                except ZODB.broken.BrokenModified:
                    self.count('broken-modified-refused')
            toks = tr_value(st, leaf, {})
            out.append('%s=%d/%d/%s' % (key, clsid(type(obj)), int(isinstance(obj, ZODB.broken.Broken)),
                                       ' '.join(toks)))
            if isinstance(obj, (NodeNA, GoneNA)) and obj in c14_classes.NEW_ARGS:
                def aleaf(x):
                    if isinstance(x, WeakRef):
                        return ['r?']
                    return ['o%d:%s' % (dbidx(x._p_jar.db().database_name), x._p_oid.hex())]
                self.args_seen[k] = tr_value(c14_classes.NEW_ARGS[obj], aleaf, {})
        for k, obj in registry.items():
            try:
                if conn_of(k[0]).get(k[1]) is not obj or getattr(obj, '_p_oid', None) != k[1]:
                    dup[0] += 1
            except Exception:
                dup[0] += 1
        return dup[0], out

    def weak_deref(self, dbs, keys):
        """Every stored weak reference, called in a connection that has loaded nothing but the
        referring object (in particular has not yet opened the target's database), yields the
        object with the reference's oid in the reference's database — or None iff no such record."""
        have = {(i, oid) for i, st in enumerate(self.storages) for oid in self._all_records(st)}

        def scan(v, acc, seen):
            if isinstance(v, WeakRef):
                acc.append(v)
            elif isinstance(v, (list, tuple)) and id(v) not in seen:
                seen.add(id(v))
                for x in v:
                    scan(x, acc, seen)
            elif isinstance(v, dict) and id(v) not in seen:
                seen.add(id(v))
                for k, x in v.items():
                    scan(k, acc, seen)
                    scan(x, acc, seen)
        for d, oid in keys:
            if (d, oid) not in have:
                continue
            tm = transaction.TransactionManager()
            c = dbs[d].open(transaction_manager=tm)
            try:
                c.cacheMinimize()
                obj = c.get(oid)
                obj._p_activate()
                refs = []
                scan(obj.__getstate__(), refs, set())
                for w in refs:
                    name = getattr(w, 'database_name', None)
                    td = d if name is None else dbidx(name)
                    self.count('weakref-deref' + ('' if name is None else ':cross-db'))
                    t = w()
                    got = None if t is None else (dbidx(t._p_jar.db().database_name), t._p_oid)
                    want = (td, w.oid) if (td, w.oid) in have else None
                    if got != want:
                        self.violation('C14:weakref-target', 'weak reference %s:%s in record %d:%s, called in a '
                                       'fresh connection, yields %s; expected %s' % (
                                           td, w.oid.hex(), d, oid.hex(),
                                           None if got is None else '%d:%s' % (got[0], got[1].hex()),
                                           None if want is None else '%d:%s' % (want[0], want[1].hex())))
            except Exception:
                pass          # reported by the walk
            finally:
                tm.abort()
                c.cacheMinimize()     # leave only ghosts behind: pooled connections get paired anew
                c.close()

    def route_prepass(self, dbs, keys):
        """Three databases: a connection whose primary is d1 follows references into d2 (the targets stay in
        its cache) and goes back to the pool.  The walk that follows starts from d0 and reaches d1 and d2 both
        directly and through that pooled pair: one in-memory object per (database, oid) in the whole group."""
        recs = self._all_records(self.storages[1])
        for oid in sorted(recs):
            try:
                c_, a_, s_, _ = decode_record(recs[oid])
            except Exception:
                continue
            cross = [t for t in tree_leaves((a_ or []) + s_) if t[0] in 'MNW' and (t[0] != 'W' or ':' in t)]
            tdb = {int(t[1:].split(':')[0]) if t[0] in 'MN' else int(t.rsplit(':', 1)[1]) for t in cross}
            if tdb != {2}:
                continue                          # (touching d0 here would pair a second d0 connection)
            recs2 = self._all_records(self.storages[2])
            clean = True
            for t in cross:                       # ... and the targets activated here must not lead out of d2
                toid = bytes.fromhex((t[1:].split(':')[1] if t[0] in 'MN' else t[1:].split(':')[0])[1:])
                try:
                    c2_, a2_, s2_, _ = decode_record(recs2[toid])
                    if any(u[0] in 'MN' or (u[0] == 'W' and ':' in u) for u in tree_leaves((a2_ or []) + s2_)):
                        clean = False
                except Exception:
                    clean = False
            if not clean:
                continue
            tm = transaction.TransactionManager()
            c = dbs[1].open(transaction_manager=tm)
            try:
                o = c.get(oid)
                o._p_activate()

                def leaf(x):
                    if isinstance(x, Persistent) and x._p_jar is not c:
                        try:
                            x._p_activate()
                        except POSKeyError:
                            pass
                    return ['*']
                tr_value(o.__getstate__(), leaf, {})
                self.count('route-prepass')
            except Exception:
                pass
            finally:
                tm.abort()
                c.close()
            if DBNAMES[0] in c.connections:
                # it reached d0 after all (through constructor arguments of a ghost it made): attaching this
                # group to a d0 primary would let its d0 connection replace the primary's own (the update() in
                # get_connection lets the newcomer's entries win — known, not recorded): drop it
                for db in dbs:
                    db.pool.clear()
                return False
            return True
        return False

    def load_phase(self, keys, variant, missing=False, reimport=False, factory=False):
        ktxt = ','.join('%d:%s' % (d, o.hex()) for d, o in keys)
        lenv = 'lenv %s %s' % (','.join(map(str, range(self.ndb))),
                               ','.join(map(str, GONE_IDS)) if missing else '-')
        self.count('load:' + variant)
        if variant == 'pool':
            c = self.dbs[0].open(transaction_manager=self.ltm)
            try:
                res = [self.real_walk(c, keys) + (None,)]
                c.cacheMinimize()
                res.append(self.real_walk(c, keys) + (None,))
            finally:
                self.ltm.abort()
                c.close()
            if self.case.get('reset', True):
                # the same Connection object again, after ZODB.Connection.resetCaches(): references inside
                # records and get(oid) must still meet in one cache (and, at the next commit of the main
                # session, both views must follow the invalidations)
                ZODB.Connection.resetCaches()
                c2 = self.dbs[0].open(transaction_manager=self.ltm)
                self.count('load:reset' + ('' if c2 is c else '-other-connection'))
                try:
                    res.append(self.real_walk(c2, keys) + (None,))
                finally:
                    self.ltm.abort()
                    c2.close()
        else:
            dbs = self.fresh_dbs(class_factory=gone_factory if factory else None)
            try:
                if missing or factory:
                    c14_classes.hide_gone()
                elif reimport:
                    c14_classes.importable_gone()     # back on the path, not (yet) in sys.modules
                if factory:
                    pass        # the walk must go through the first connection the new DB hands out
                elif self.ndb > 1:
                    # own DB objects: a connection of d1 opened as primary keeps its d0 partner for ever
                    # (Connection.connections), and would bring it along when it is later handed out as
                    # the secondary of another d0 connection
                    dbs2 = self.fresh_dbs()
                    try:
                        self.weak_deref(dbs2, keys)
                    finally:
                        for db in dbs2:
                            close_db(db)
                else:
                    self.weak_deref(dbs, keys)
                routed = self.ndb == 3 and not (factory or missing or reimport) and self.route_prepass(dbs, keys)
                c = dbs[0].open(transaction_manager=transaction.TransactionManager())
                if routed:
                    # attach the pooled pair first (attaching it AFTER the group has its own d2 connection replaces
                    # that one: the update() in get_connection lets the newcomer's map win)
                    c.get_connection(DBNAMES[1])
                    c.get_connection(DBNAMES[2])
                res = [self.real_walk(c, keys) + (None if missing or reimport or factory else self.args_seen,)]
                c.transaction_manager.abort()
                c.close()
            finally:
                c14_classes.show_gone()
                for db in dbs:
                    close_db(db)
        if variant == 'fresh' and locals().get('routed'):
            variant = 'fresh-routes'
        for dup, out, args_seen in res:
            self.emit(lenv, 'ok')
            self.emit('lwalk ' + ktxt, canon_walk('dup=%d | %s' % (dup, ' | '.join(out))))
            Oracle(self).loaded(dup, out, variant, missing, args_seen)

    def fresh_dbs(self, patched=None, class_factory=None):
        """new DBs on copies of the storages; `patched` replaces the current record of some oids"""
        databases = {}
        dbs = []
        for i, st in enumerate(self.storages):
            if self.dir and not patched:
                import shutil
                self.ncopy = getattr(self, 'ncopy', 0) + 1
                path = os.path.join(self.dir, '%s-copy%d.fs' % (DBNAMES[i], self.ncopy))
                shutil.copyfile(st.getName(), path)          # the same storage, opened afresh
                dbs.append(ZODB.DB(FileStorage(path, read_only=True), databases=databases, class_factory=class_factory,
                                   database_name=DBNAMES[i]))
                continue
            new = MappingStorage(DBNAMES[i])
            cur = self._all_records(st)
            last = {}
            for t in st.iterator():
                meta = TransactionMetaData(t.user, t.description, t.extension)
                new.tpc_begin(meta, t.tid)
                for r in t:
                    data = r.data
                    if patched and (i, r.oid) in patched and data == cur.get(r.oid):
                        data = patched[(i, r.oid)]
                    new.store(r.oid, last.get(r.oid, Z64), data, '', meta)
                    last[r.oid] = t.tid
                new.tpc_vote(meta)
                new.tpc_finish(meta)
            dbs.append(ZODB.DB(new, databases=databases, database_name=DBNAMES[i], class_factory=class_factory))
        return dbs

    def records_check(self, allrecs):
        """Whatever path wrote it (commit, the copy of savepoint data, conflict resolution, a foreign writer):
        the current record of every object is exactly two pickles, it is the model's record, and referencesf /
        get_refs see its references."""
        for k, data in sorted(allrecs.items()):
            if not two_pickles(data):
                self.violation('C14:embedded', 'the current record of %d:%s is not exactly a class pickle and a state '
                               'pickle (%d bytes)' % (k[0], k[1].hex(), len(data)))
            if k not in self.expect or k in self.rewritten:
                continue
            key = '%d:%s' % (k[0], k[1].hex())
            try:
                c_, a_, s_, _ = decode_record(data)
                self.emit('rec ' + key, rec_text(c_, a_, s_))
            except Exception as e:
                self.violation('C14:embedded', 'the current record of %s cannot be decoded: %r' % (key, e))
                continue
            want = [o for d, o in self.edges.get(k, ()) if d == k[0]]
            try:
                got = referencesf(data)
                got2 = [o for o, _ in decode_getrefs(data)]
            except Exception as e:
                got = got2 = 'raised %r' % (e,)
            if got != want or got2 != want:
                self.violation('C14:refs', 'referencesf / get_refs of the current record of %s give %s / %s; its strong '
                               'same-database references are %s' % (key, got, got2, [o.hex() for o in want]))
        self.count('records-check')

    def fsrefs_check(self):
        """the view of ZODB.scripts.fsrefs (get_refs over every current record of a FileStorage): no reference
        to a missing object"""
        import contextlib
        import ZODB.scripts.fsrefs
        for i, st in enumerate(self.storages):
            buf = io.StringIO()
            try:
                with contextlib.redirect_stdout(buf):
                    ZODB.scripts.fsrefs.main(st.getName())
            except Exception as e:
                buf.write('fsrefs raised %r' % (e,))
            self.count('fsrefs')
            if buf.getvalue().strip():
                self.violation('C14:fsrefs', 'fsrefs on %s reports: %s'
                               % (DBNAMES[i], ' / '.join(buf.getvalue().split('\n'))[:500]))

    def pack_check(self):
        """the packer's view (DB.pack -> storage.pack(t, referencesf), through the record transformation of a
        wrapper if there is one): everything reachable from the root through strong same-database references
        survives a garbage-collecting pack"""
        for i, db in enumerate(self.dbs):
            want, todo = set(), [(i, Z64)]
            while todo:
                k = todo.pop()
                if k in want or k[0] != i:
                    continue
                want.add(k)
                todo += list(self.edges.get(k, ()))
            try:
                db.pack()
            except Exception as e:
                self.violation('C14:pack', 'DB.pack() of %s raised %r' % (DBNAMES[i], e))
                continue
            have = set(self._all_records(self.storages[i]))
            missing = sorted(o.hex() for d, o in want if o not in have)
            self.count('pack')
            if missing:
                self.violation('C14:pack', 'after DB.pack() of %s the objects %s, reachable from the root through strong '
                               'same-database references, are gone' % (DBNAMES[i], missing))

    def export_check(self):
        """Connection.exportFile walks the database with referencesf: the export holds exactly the
        objects reachable from the root through strong same-database references"""
        import tempfile
        from ZODB.utils import u64
        c = self.dbs[0].open(transaction_manager=self.ltm)
        try:
            with tempfile.TemporaryFile() as f:
                c.exportFile(Z64, f)
                f.seek(4)
                got = []
                while True:
                    h = f.read(16)
                    if h == b'\377' * 16 or len(h) < 16:
                        break
                    got.append(h[:8])
                    f.seek(u64(h[8:16]), 1)
        finally:
            self.ltm.abort()
            c.close()
        want, todo = set(), [(0, Z64)]
        while todo:
            k = todo.pop()
            if k in want or k[0] != 0:
                continue
            want.add(k)
            todo += list(self.edges.get(k, ()))
        self.count('export')
        if sorted(got) != sorted(o for _, o in want):
            self.violation('C14:export-set', 'exportFile(root) holds %s; reachable through strong same-database '
                           'references are %s' % (sorted(o.hex() for o in got), sorted(o.hex() for _, o in want)))

    def import_check(self):
        """exportFile + importFile into another database is a graph round trip up to the oids: cycles and
        references back to the exported object included.  (importFile documents that it handles neither
        weak nor cross-database references: only sub-graphs without them are taken.)"""
        import tempfile
        recs = self._all_records(self.storages[0])
        plain = {}
        for oid, data in recs.items():
            try:
                c_, a_, s_, _ = decode_record(data)
                plain[oid] = all(t[0] in 'TO' for t in tree_leaves((a_ or []) + s_))
            except Exception:
                plain[oid] = False

        def closure(k):
            seen, todo = [], [k]
            while todo:
                x = todo.pop(0)
                if x in seen:
                    continue
                seen.append(x)
                todo += [t for t in self.edges.get(x, ())]
            return seen
        best = None
        for k in sorted(self.expect):
            if k[0] != 0 or k[1] not in recs:
                continue
            cl = closure(k)
            if len(cl) > 40 or not all(x[0] == 0 and x in self.expect and plain.get(x[1]) for x in cl):
                continue
            back = any(k in self.edges.get(x, ()) for x in cl)       # something refers back to the exported object
            if best is None or (back and not best[1]) or (back == best[1] and len(cl) > len(best[2])):
                best = (k, back, cl)
        if best is None:
            return
        root_key, back, cl = best
        self.count('import' + (':back-reference' if back else ''))

        def canon_expected():
            num, order, out = {root_key: 0}, [root_key], []
            i = 0
            while i < len(order):
                k = order[i]
                i += 1
                cls_, toks, _ = self.expect[k]
                line = []
                for t in toks:
                    if t[0] == 'o':
                        d, _, oh = t[1:].partition(':')
                        kk = (int(d), bytes.fromhex(oh))
                        if kk not in num:
                            num[kk] = len(order)
                            order.append(kk)
                        line.append('o#%d' % num[kk])
                    else:
                        line.append(t)
                out.append('%d=%d/%s' % (num[k], cls_, ' '.join(line)))
            return out

        def canon_loaded(db, start):
            tm3 = transaction.TransactionManager()
            c3 = db.open(transaction_manager=tm3)
            c3.cacheMinimize()
            num, order, out = {start: 0}, [start], []
            i = 0
            try:
                while i < len(order):
                    oid = order[i]
                    i += 1
                    o = c3.get(oid)
                    o._p_activate()

                    def leaf(x):
                        if isinstance(x, WeakRef):
                            return ['r?']
                        if x._p_oid not in num:
                            num[x._p_oid] = len(order)
                            order.append(x._p_oid)
                        return ['o#%d' % num[x._p_oid]]
                    out.append('%d=%d/%s' % (num[oid], clsid(type(o)), ' '.join(tr_value(o.__getstate__(), leaf, {}))))
            except POSKeyError as e:
                out.append('POSKeyError %s' % (e,))
            finally:
                tm3.abort()
                c3.close()
            return out

        src = self.dbs[0].open(transaction_manager=self.ltm)
        db2 = ZODB.DB(MappingStorage('import'))
        db3 = ZODB.DB(MappingStorage('import2'))
        try:
            want = canon_expected()
            with tempfile.TemporaryFile() as f, tempfile.TemporaryFile() as f2:
                src.exportFile(root_key[1], f)
                f.seek(0)
                tm2 = transaction.TransactionManager()
                c2 = db2.open(transaction_manager=tm2)
                obj = c2.importFile(f)
                c2.root()['imported'] = obj
                # the imported objects exist only in this transaction's savepoint so far: exporting them
                # now must give the same graph
                c2.exportFile(obj._p_oid, f2)
                try:
                    tm2.commit()
                except POSKeyError as e:
                    tm2.abort()
                    c2.close()
                    import traceback
                    frames = [fr.name for fr in traceback.extract_tb(e.__traceback__)]
                    argref = '_commit_savepoint' in frames and 'getGhost' in frames
                    self.violation('C14:import-constructor-arg-reference' if argref else 'C14:import',
                                   'the graph exported from %s was imported with importFile, but the commit failed with '
                                   'POSKeyError %s%s' % (root_key[1].hex(), e, ' (a constructor argument is referenced by '
                                                         'bare oid: _commit_savepoint resolves it in the storage before the '
                                                         'imported records are copied there)' if argref else ''))
                    return
                start = obj._p_oid
                c2.close()
                f2.seek(0)
                tm4 = transaction.TransactionManager()
                c4 = db3.open(transaction_manager=tm4)
                obj4 = c4.importFile(f2)
                if obj4 is None:
                    out4 = ['nothing imported']
                else:
                    c4.root()['imported'] = obj4
                    tm4.commit()
                    start4 = obj4._p_oid
                tm4.abort()
                c4.close()
                if obj4 is not None:
                    out4 = canon_loaded(db3, start4)
            out = canon_loaded(db2, start)
            if out != want:
                self.violation('C14:import', 'the graph exported from %s and imported into another database is %s; '
                               'the stored graph is %s' % (root_key[1].hex(), ' | '.join(out)[:600],
                                                           ' | '.join(want)[:600]))
            elif out4 != want:
                self.violation('C14:export-in-transaction', 'objects imported (written by a savepoint, not yet '
                               'committed) and exported again in the same transaction give %s; the graph is %s'
                               % (' | '.join(out4)[:600], ' | '.join(want)[:600]))
        finally:
            self.ltm.abort()
            src.close()
            db2.close()
            db3.close()

    def historical_phase(self):
        """The graph as of an earlier transaction T, loaded through a historical connection
        (DB.open(before=...)): every reference — also one into the other database, resolved through the
        sibling connection get_connection() opens — leads to the object as it was at T."""
        from ZODB.POSException import ReadOnlyHistoryError
        from ZODB.utils import p64, u64
        if len(self.history) < 2 or not self.case.get('hist', True):
            return
        marks = list(dict.fromkeys([0, len(self.history) - 2]))
        for n, k in enumerate(marks):
            tids, expect = self.history[k]
            before = p64(u64(max(tids)) + 1)
            if any(b != a and b < before for a, b in zip(tids, self.history[k + 1][0])):
                self.count('hist:skipped-clock')      # the storages' clocks do not separate T from T+1
                continue
            if any(before > p64(u64(st.lastTransaction()) + 1) for st in self.storages):
                self.count('hist:skipped-future')     # DB.open refuses a bound beyond a database's last tid + 1
                continue
            keys = sorted(set(expect) | {(i, Z64) for i in range(self.ndb)})
            tm = transaction.TransactionManager()
            c = self.dbs[0].open(transaction_manager=tm, before=before)
            try:
                dup, out = self.real_walk(c, keys)
                self.count('load:historical')
                self.emit('lenv %s -' % ','.join(map(str, range(self.ndb))), 'ok')
                self.emit('lwalkat %d %s' % (k, ','.join('%d:%s' % (d, o.hex()) for d, o in keys)),
                          canon_walk('dup=%d | %s' % (dup, ' | '.join(out))))
                Oracle(self).loaded(dup, out, 'historical(%d)' % k, False, None, expect=expect)
                for name, sib in sorted(c.connections.items()):
                    if sib.before != c.before:
                        self.violation('C14:historical-sibling', 'the connection of %s opened for the references '
                                       'of a historical connection (before=%s) has before=%r'
                                       % (name, before.hex(), sib.before))
                if self.ndb > 1 and n == len(marks) - 1:
                    # and nothing reached through it can be changed
                    sib = c.get_connection(DBNAMES[1])
                    sib.root()['c14-historical'] = 1
                    try:
                        tm.commit()
                        self.violation('C14:historical-sibling', 'a change to an object of %s reached through a '
                                       'historical connection was committed' % DBNAMES[1])
                    except ReadOnlyHistoryError:
                        self.count('hist:readonly')
            finally:
                tm.abort()
                c.close()

    def final_phase(self):
        if not self.ncommits or not self.expect:
            return
        try:
            self.final_phases()
        finally:
            if not self.viol:
                self.pack_check()           # last: it changes the storages

    def final_phases(self):
        self.historical_phase()
        keys = sorted(set(self.expect) | {(i, Z64) for i in range(self.ndb)})
        allrecs = {(i, oid): data for i, st in enumerate(self.storages)
                   for oid, data in self._all_records(st).items()}
        if any(v[0] in GONE_IDS for v in self.expect.values()):
            # classes gone: placeholders keep the state; reference extraction needs no class
            self.load_phase(keys, 'fresh-missing', missing=True)
            # ... and once the classes can be imported again (nobody has imported them yet), a new
            # connection loads the real classes with the stored state
            self.load_phase(keys, 'fresh-reimport', reimport=True)
            # ... and a DB configured with a class factory that still knows the classes (DB(class_factory=...))
            # loads the real classes through every connection, the first one it hands out included
            self.load_phase(keys, 'fresh-factory', factory=True)
            c14_classes.hide_gone()
            try:
                for k, data in sorted(allrecs.items()):
                    try:
                        r = self.refs_text(data)
                    except Exception as e:
                        r = 'raised:%s' % type(e).__name__
                    c14_classes.show_gone()
                    if r != self.refs_text(data):
                        self.violation('C14:refs-need-class', 'referencesf on record %d:%s gives %s when its '
                                       'class cannot be imported' % (k[0], k[1].hex(), r))
                    c14_classes.hide_gone()
            finally:
                c14_classes.show_gone()
        self.records_check(allrecs)
        if self.case.get('storage') == 'file':
            self.fsrefs_check()
        self.export_check()
        self.import_check()
        if c14_classes.INIT_CALLS[0] != self.init_expected:
            self.violation('C14:roundtrip', 'storing and loading ran NodeInit.__init__ %d times (objects are made '
                           'with __new__ and __setstate__ only)' % (c14_classes.INIT_CALLS[0] - self.init_expected))
            self.init_expected = c14_classes.INIT_CALLS[0]
        if self.case.get('legacy', True):
            patched = {}
            for k, data in allrecs.items():
                try:
                    p = legacy_weak(data) if self.case.get('legacy_weak') else None
                except Exception:
                    p = None
                p2 = py2_patch(p or data)
                if p2 is not None or p is not None:
                    patched[k] = p2 or p
            if patched:
                self.count('load:legacy')
                self.emit('clearstore', 'ok')
                for k, data in sorted(allrecs.items()):
                    d2 = patched.get(k, data)
                    c, a, s, _ = decode_record(d2)
                    key = '%d:%s' % (k[0], k[1].hex())
                    self.emit('put %s %s' % (key, rec_text(c, a, s)), 'ok')
                    self.emit('refs ' + key, self.refs_text(d2))
                    self.emit('getrefs ' + key, self.getrefs_text(d2))
                    if self.refs_text(d2) != self.refs_text(data):
                        self.violation('C14:ascii-oid', 'referencesf of record %s written the Python 2 way '
                                       '(oids as str) is %s, of the same record with bytes oids %s'
                                       % (key, self.refs_text(d2), self.refs_text(data)))
                    for t in tree_leaves((a or []) + s):
                        if ('u' in t[:3]):
                            self.formats.add('u')
                        if t[0] == 'L':
                            self.formats.add('L')
                def legacy_walk():
                    n0 = len(self.viol)
                    dbs = self.fresh_dbs(patched)
                    try:
                        c = dbs[0].open(transaction_manager=transaction.TransactionManager())
                        dup, out = self.real_walk(c, keys)
                        c.transaction_manager.abort()
                        c.close()
                    finally:
                        for db in dbs:
                            close_db(db)
                    del c, dbs
                    return dup, out, self.viol[n0:]
                if not LEGACY_LOAD[0]:
                    return            # the canary of this run (see legacy_canary) failed: reported there
                dup, out, _ = legacy_walk()
                self.emit('lenv %s -' % ','.join(map(str, range(self.ndb))), 'ok')
                self.emit('lwalk ' + ','.join('%d:%s' % (d, o.hex()) for d, o in keys),
                          canon_walk('dup=%d | %s' % (dup, ' | '.join(out))))
                Oracle(self).loaded(dup, out, 'legacy', False)


def close_db(db):
    """close a scratch DB; closing the members of a multi-database one after the other can trip over the
    connections they share (a sibling's storage is already closed) — of no interest here"""
    try:
        db.close()
    except Exception:
        pass


def gone_factory(conn, modulename, globalname):
    """a DB class factory that knows the classes of c14_gone although the module cannot be imported"""
    if modulename == 'c14_gone':
        return getattr(c14_classes._gone, globalname)
    return ZODB.broken.find_global(modulename, globalname)


def in_child(fn):
    """run fn() in a forked child; ('ok', result) | ('exc', repr) | ('signal', n) if the child died"""
    import gc
    import pickle
    sys.stdout.flush()
    r, w = os.pipe()
    pid = os.fork()
    if pid == 0:
        code = 0
        try:
            os.close(r)
            try:
                res = ('ok', fn())
                gc.collect()          # a corrupted object cache shows when the garbage is collected
            except BaseException as e:
                res = ('exc', repr(e))
            with os.fdopen(w, 'wb') as f:
                f.write(pickle.dumps(res))
        except BaseException:
            code = 3
        finally:
            os._exit(code)
    os.close(w)
    with os.fdopen(r, 'rb') as f:
        data = f.read()
    _, status = os.waitpid(pid, 0)
    if os.WIFSIGNALED(status):
        return ('signal', os.WTERMSIG(status))
    try:
        return pickle.loads(data)
    except Exception:
        return ('exc', 'child exited with status %d without a result' % status)


CANARY = dict(ndb=1, xrefs=[1, 1], legacy=True, legacy_weak=False, fresh_each=False, reset=False, hist=False,
              oids=[['6162636465666768', '3030303030303031', '4142434445464748', '2e2e2e2e2e2e2e2e'], [], []], ops=[
    ['new', 'a', 'N'], ['new', 'b', 'N'], ['new', 's', 'N'], ['new', 'k', 'A'],
    ['set', 'a', 'f', ['l', [['r', 's'], ['r', 'k'], ['w', 's']]]], ['set', 'b', 'f', ['t', [['r', 's'], ['r', 'k'], ['r', 'a']]]],
    ['set', 's', 'f', ['r', 'a']], ['root', 0, 'a', 'a'], ['root', 0, 'b', 'b'], ['commit']])


def legacy_canary():
    """Before anything else, in a forked child: load a graph with shared objects from records written the
    Python 2 way (all-ASCII oids arrive as str).  A reader that ends up with two objects for one oid can
    corrupt the C object cache and take the interpreter down, at once or when the garbage is collected;
    then that is the observation, and the phase is not run in this process.
    -> (signature, what) or None"""
    kind, res = in_child(lambda: run_case(CANARY).viol[:3])
    if kind == 'signal':
        return ('C14:ascii-oid', 'loading a graph with shared objects from records written the Python 2 way '
                '(all-ASCII oids arrive as str) killed the interpreter with signal %d' % res)
    if kind != 'ok':
        return ('C14:ascii-oid', 'loading a graph from records written the Python 2 way raised %s' % res)
    return tuple(res[0]) if res else None


def decode_getrefs(data):
    c14_classes.show_gone()
    return get_refs(data)


def canon_walk(s):
    parts = s.split(' | ')
    return ' | '.join([parts[0]] + sorted(p for p in parts[1:] if p))


# ---------------------------------------------------------------- the direct oracle
class Oracle:
    """The property statement over the in-memory graph seen when the commit started (`snap`), the
    oids the objects have afterwards, and what the real code stored / extracted / loaded.
    Independent of the Lean model."""

    def __init__(self, session):
        self.s = session

    def sig(self, base, keys):
        if keys and all(k in self.s.stale for k in keys):
            return 'C14:stale-oid-after-failed-commit'
        return base

    # which objects have to be stored: the registered ones that were added or changed, and every
    # object without an oid that a stored object refers to.  `weak=True` also follows weak references
    # (serialize.py stores the new target of a weak reference, "optimistically"; the property neither
    # demands nor forbids that), so: closure(strong) <= stored <= closure(strong + weak).
    def closure(self, snap, weak=True):
        roots = [h for h in snap.registered if h in snap.added or snap.changed[h]]
        stored, todo = [], list(roots)
        while todo:
            h = todo.pop()
            if h in stored:
                continue
            stored.append(h)
            for t in tree_leaves((snap.args[h] or []) + snap.state[h]):
                th = int(t[1:])
                if (weak or t[0] == 's') and snap.oid[th] is None and th not in stored:
                    todo.append(th)
        return stored

    def invalid_refs(self, snap, stored, implicit):
        """strong references from stored objects to objects owned by somebody else that the
        multi-database rules do not allow"""
        bad = []
        s = self.s
        for h in stored:
            for t in tree_leaves((snap.args[h] or []) + snap.state[h]):
                th = int(t[1:])
                if t[0] != 's' or snap.oid[th] is None or snap.jar[th] is snap.conn:
                    continue
                jar = snap.jar[th]
                ok = (snap.xrefs and jar is not None and id(jar) in s.connid
                      and snap.conn.connections.get(jar.db().database_name) is jar
                      and (s.connid[id(jar)][0], snap.oid[th]) not in implicit)
                if not ok:
                    bad.append((h, th))
        for h in snap.registered:
            if snap.jar[h] is not snap.conn:
                bad.append((h, h))
        return bad

    def commit_outcome(self, snap, implicit, failed):
        stored = self.closure(snap)
        bad = self.invalid_refs(snap, stored, implicit)
        if bad and not failed:
            self.s.violation('C14:commit-outcome', 'commit succeeded although object %d refers to object %d '
                             'of a foreign connection/database' % bad[0])
        if failed and not bad:
            self.s.violation('C14:commit-outcome', 'commit raised %r but every reference is storable'
                             % (snap.exc,))
        if failed:
            return
        got = sorted(o for o, _ in snap.stored)
        must = self.closure(snap, weak=False)
        noid = [h for h in must if snap.post_oid[h] is None]
        may = set(snap.post_oid[h] for h in stored)
        missing = [snap.post_oid[h] for h in must if snap.post_oid[h] is not None and snap.post_oid[h] not in got]
        extra = [o for o in got if o not in may]
        # and whatever is stored must have its own new strong targets stored as well
        by_oid = {snap.post_oid[h]: h for h in stored if snap.post_oid[h] is not None}
        for o in got:
            h = by_oid.get(o)
            if h is None:
                continue
            for t in tree_leaves((snap.args[h] or []) + snap.state[h]):
                th = int(t[1:])
                if t[0] == 's' and snap.oid[th] is None:
                    if snap.post_oid[th] is None:
                        noid.append(th)
                    elif snap.post_oid[th] not in got:
                        missing.append(snap.post_oid[th])
        if missing or extra or noid or len(set(got)) != len(got):
            self.s.violation(self.sig('C14:stored-set', [(snap.db, o) for o in missing] if not (extra or noid) else []),
                             'commit stored oids %s; not stored although new and reachable from stored objects: %s; '
                             'stored although neither changed, added nor reachable: %s%s'
                             % ([o.hex() for o in got], [o.hex() for o in missing], [o.hex() for o in extra],
                                ''.join('; object %d (%s) is reachable and new but got no oid' % (
                                    h, type(snap.objs[h]).__name__) for h in sorted(set(noid)))))
        # every object referred to by a stored record must exist in its database afterwards
        # (checked when loading: a reference leads to the object with the same id)

    def records(self, snap):
        s = self.s
        stored = self.closure(snap)
        by_oid = {snap.post_oid[h]: h for h in stored}
        for oid, data in snap.stored:
            h = by_oid.get(oid)
            if h is None:
                continue
            leaves = tree_leaves((snap.args[h] or []) + snap.state[h])
            want = [snap.post_oid[int(t[1:])] for t in leaves
                    if t[0] == 's' and snap.post_jar[int(t[1:])] is snap.conn]
            try:
                got = referencesf(data)
            except Exception as e:
                got = 'raised %r' % (e,)
            if got != want:
                s.violation('C14:refs', 'referencesf(record of %s) = %s, its strong same-database references '
                            'are %s' % (oid.hex(), [o.hex() for o in got] if isinstance(got, list) else got,
                                        [o.hex() for o in want]))
            # get_refs: same oids (under noload the class information of a reference is not resolved)
            try:
                got_gr = [o for o, _ in decode_getrefs(data)]
                if got_gr != want:
                    s.violation('C14:get_refs', 'get_refs(record of %s) lists %r, expected %r'
                                % (oid.hex(), got_gr, want))
            except Exception as e:
                s.violation('C14:get_refs', 'get_refs(record of %s) raised %r' % (oid.hex(), e))
            # a record is exactly two pickles (class meta, state): nothing may follow
            try:
                import pickletools
                pos = 0
                for _ in range(2):
                    for op_, arg_, p_ in pickletools.genops(data[pos:]):
                        last = p_
                    pos += last + 1
                if pos != len(data):
                    tail = data[pos:]
                    s.violation('C14:embedded', 'the record of %s is %d bytes: class and state pickles end at %d, '
                                'followed by %r%s' % (oid.hex(), len(data), pos, tail[:60],
                                                       ' (holds another object\'s sentinel)' if b'S#' in tail else ''))
            except Exception as e:
                s.violation('C14:embedded', 'record of %s is not two pickles: %r' % (oid.hex(), e))
            # a record contains no other persistent object's state
            try:
                raw = decode_record(data)[3]
                acc = []
                sentinels(raw, acc, set())
                own = s.sent.get(id(snap.objs[h]))
                if acc != ([own] if own else []):
                    s.violation('C14:embedded', 'record of %s (%s) contains %r' % (oid.hex(), own, acc))
            except Exception as e:
                s.violation('C14:embedded', 'record of %s cannot be decoded: %r' % (oid.hex(), e))

    def remember(self, events):
        """the graph the database must now hold: per stored object its class and its state with
        every persistent leaf replaced by (database, oid) of the object it referred to"""
        s = self.s
        for snap in events:
            stored = self.closure(snap)
            got = {o for o, _ in snap.stored}
            for h in stored:
                if snap.post_oid[h] not in got:
                    continue
                toks = []
                me = (snap.db, snap.post_oid[h])
                s.edges[me] = []              # strong references of the current revision, with repetitions

                def key_of(th):
                    return (s.connid.get(id(snap.post_jar[th]), (9, 99))[0], snap.post_oid[th])
                for t in (snap.args[h] or []):
                    if t[0] == 's':           # a reference inside the constructor arguments
                        s.edges[me].append(key_of(int(t[1:])))
                for t in snap.state[h]:
                    if t[0] in 'sw':
                        th = int(t[1:])
                        d, o = key_of(th)
                        toks.append('%s%d:%s' % ('o' if t[0] == 's' else 'r', d, o.hex() if o else '-'))
                        if t[0] == 's':
                            s.edges[me].append((d, o))
                    else:
                        toks.append(t)
                wargs = None
                if snap.args[h] is not None:
                    wargs = [('o%d:%s' % (key_of(int(t[1:]))[0], key_of(int(t[1:]))[1].hex())
                              if t[0] == 's' else ('r?' if t[0] == 'w' else t)) for t in snap.args[h]]
                s.expect[me] = (snap.cls[h], toks, wargs)

    def txn_failed(self, events, before):
        s = self.s
        for i, st in enumerate(s.storages):
            if st.lastTransaction() != before[i]:
                s.violation('C14:failed-commit-stored', 'the transaction failed but storage %s changed'
                            % DBNAMES[i])

    def loaded(self, dup, out, variant, missing, args_seen=None, expect=None):
        s = self.s
        if dup:
            s.violation('C14:group-sibling-map' if variant == 'fresh-routes' else 'C14:identity',
                        '%s: %d references or get() calls yielded a second in-memory '
                        'object for an oid' % (variant, dup))
        for entry in out:
            key, _, val = entry.partition('=')
            d, _, oh = key.partition(':')
            k = (int(d), bytes.fromhex(oh))
            if val.startswith('err:Load'):
                s.violation('C14:ascii-oid' if variant == 'legacy' else 'C14:roundtrip',
                            '%s: the stored object %s cannot be loaded: %s' % (variant, key, val))
                continue
            if val.startswith('err:'):
                s.violation(self.sig('C14:dangling-reference', [k]),
                            '%s: reference to %s leads to %s' % (variant, key, val))
                continue
            if k not in (s.expect if expect is None else expect):
                continue
            c, _, rest = val.partition('/')
            b, _, tree = rest.partition('/')
            wc, wtoks, wargs = (s.expect if expect is None else expect)[k]
            if args_seen is not None and wargs is not None and k in args_seen and args_seen[k] != wargs:
                s.violation('C14:roundtrip', '%s: object %s was created with constructor arguments %s, stored '
                            'were %s' % (variant, key, ' '.join(args_seen[k]), ' '.join(wargs)))
            toks = ['r%d:%s' % (k[0], t[3:]) if t.startswith('r-:') else t for t in tree.split(' ')]
            wbroken = int(missing and wc in GONE_IDS)
            if int(c) != wc or int(b) != wbroken or toks != wtoks:
                s.violation('C14:roundtrip', '%s: object %s loads as class %s broken=%s state %s; stored was '
                            'class %d state %s' % (variant, key, c, b, ' '.join(toks), wc, ' '.join(wtoks)))


# ---------------------------------------------------------------- generator
OID_POOL = [b'abcdefgh', b'00000001', b'ABCDEFGH', b"a\nb'c\\d\"", b'\x80\xff\x00\x01abcd', b'\xff' * 8,
            b'........', b'Q.Q.Q.Q.', b'\x00' * 7 + b'.', b'\x7f' * 8, b'\x00\x00\x00\x00\x00\x00\x01\x00',
            b'(tRq\x00U\x08.', b'\x00\x01\x02\x03\x04\x05\x06\x07', b'cposix\nx', b'12345678', b'\r\n\r\n\t\t  ']


def gen_oids(rng, n):
    out = []
    for _ in range(n):
        r = rng.random()
        if r < 0.35:
            o = rng.choice(OID_POOL)
        elif r < 0.55:
            o = bytes(rng.randrange(0x20, 0x7f) for _ in range(8))        # printable ASCII
        elif r < 0.70:
            o = bytes(rng.randrange(0, 0x80) for _ in range(8))           # any ASCII
        elif r < 0.85:
            o = bytes(rng.randrange(256) for _ in range(8))
        else:
            o = (rng.randrange(1, 40)).to_bytes(8, 'big')
        out.append(o.hex())
    return out


def gen_value(rng, names, depth, weak_p):
    def ref():
        n = rng.choice(names)
        return ['w', n] if rng.random() < weak_p else ['r', n]
    r = rng.random()
    if depth <= 0 or r < 0.45:
        return ref()
    kids = []
    for _ in range(rng.choice([1, 2, 2, 3])):
        q = rng.random()
        if q < 0.5:
            kids.append(ref())
        elif q < 0.75:
            kids.append(['a', rng.choice([0, 1, 7, 'x', 'text', None, 2.5])] if rng.random() < 0.95
                        else ['pf', rng.randrange(6)] if rng.random() < 0.6
                        else ['big', rng.choice([70000, 140000])])
        else:
            kids.append(gen_value(rng, names, depth - 1, weak_p))
    if rng.random() < 0.07:
        return ['p', kids]          # inside a plain instance of a class that will go missing
    if rng.random() < 0.16:         # other shapes of plain containers
        q = rng.random()
        if q < 0.2:
            return ['pl', kids]
        if q < 0.5:
            return [rng.choice(['ps', 'pr', 'pc']), kids]
        if q < 0.7:
            return ['dk', kids]
        if q < 0.9:
            return [rng.choice(['set', 'fset']), ref() if weak_p == 0 else ['r', rng.choice(names)],
                    rng.sample([0, 1, 7, 'x', 'text', None, 2.5], rng.randrange(0, 3))]
        if q < 0.95:
            return ['deep', rng.choice([30, 120, 250]), ref()]
        return ['many', rng.choice([50, 1000]), ['r', rng.choice(names)]]
    if r < 0.62:
        return ['l', kids]
    if r < 0.78:
        return ['t', kids]
    if r < 0.94:
        return ['d', kids]
    return ['dup', ['l', kids]]


def gen_case(rng, thorough=False):
    ndb = 2 if rng.random() < (0.45 if thorough else 0.35) else 1
    if ndb == 2 and rng.random() < 0.25:
        ndb = 3
    case = dict(ndb=ndb, xrefs=[1 if rng.random() < 0.93 else 0, 1, 1],
                oids=[gen_oids(rng, 12), gen_oids(rng, 8), gen_oids(rng, 6), []], ops=[],
                legacy=rng.random() < 0.5, legacy_weak=rng.random() < 0.5, fresh_each=rng.random() < 0.5,
                storage='file' if rng.random() < 0.12 else 'mapping', reset=rng.random() < 0.6,
                cache_size=rng.choice([1, 3, 400, 400]), pool_size=rng.choice([1, 7]),
                large_record_size=rng.choice([200, 1 << 24]))
    if ndb == 1 and case['storage'] == 'mapping' and rng.random() < 0.25:
        case['storage'] = 'config'
    elif case['storage'] == 'mapping' and rng.random() < 0.1:
        case['storage'] = 'hex'
    ops = case['ops']
    weak_p = rng.choice([0.0, 0.1, 0.1, 0.25])
    counter = [0]
    home = {}
    kinds = {}

    def new_objs(k):
        names = []
        for _ in range(k):
            name = 'n%d' % counter[0]
            counter[0] += 1
            kind = rng.choice('NNNNAABMMLGHIUSERPYZNAML')
            ops.append(['new', name, kind])
            names.append(name)
            kinds[name] = kind
            home[name] = 0 if ndb == 1 or rng.random() < 0.6 else rng.randrange(1, ndb)
        return names

    allnames = []
    big = thorough and rng.random() < 0.15
    for txn in range(rng.choice([1, 1, 2, 2, 3]) + (2 if big else 0)):
        fresh = new_objs(rng.choice([1, 2, 3, 4, 5, 6]) + (rng.randrange(4, 12) if big else 0))
        allnames += fresh
        # constructor arguments that contain references
        for n in fresh:
            # (only to objects referenced with their class: a constructor argument that needs its own
            # object to exist first cannot be loaded by any implementation)
            plain = [m for m in allnames if kinds[m] in 'NMLG']
            if kinds[n] in 'ABH' and plain and rng.random() < 0.25:
                ops.append(['args', n, [gen_value(rng, plain, 1, 0.0) for _ in range(rng.choice([1, 2]))]])
        # links
        for _ in range(rng.choice([1, 2, 3, 4, 6, 8]) + (rng.randrange(5, 20) if big else 0)):
            holder = rng.choice(allnames)
            pool = allnames
            if ndb >= 2 and rng.random() < 0.7:
                same = [n for n in allnames if home[n] == home[holder]]
                pool = same or allnames
            ops.append(['set', holder, 'f%d' % rng.randrange(4), gen_value(rng, pool, rng.choice([0, 0, 1, 2, 3]), weak_p)])
        # attach: to a root, by explicit add, or not at all
        for n in fresh:
            r = rng.random()
            if r < 0.35:
                ops.append(['root', home[n], n, n])
            elif r < 0.50:
                ops.append(['add', home[n], n])
        if ndb >= 2:
            for n in fresh:
                if home[n] != 0 and rng.random() < 0.8:
                    ops.append(['add', home[n], n])
        if rng.random() < 0.04:
            victim = rng.choice(fresh)
            ops.append(['foreign', victim, rng.choice(['A2', 'X', 'B2', 'A2c'])])
            ops.append(['set', rng.choice(allnames), 'g', ['r', victim]])
            ops.append(['commit'])
            return case
        if txn and rng.random() < 0.5:
            ops.append(['touch', rng.choice(allnames)])
        if rng.random() < 0.04:                 # a commit that fails while pickling (the case ends there)
            victim = rng.choice(allnames)
            ops += [['poison', victim], ['touch', victim], ['commit']]
            return case
        ops.append(['commit'])
        if ndb >= 2 and rng.random() < 0.35:
            ops.append(['reopen'])
        res = [n for n in allnames if kinds[n] == 'R' and home[n] == 0]
        if case['storage'] == 'file' and res and rng.random() < 0.6:
            # a write conflict the class resolves: the storage re-pickles the resolved state (ours)
            r = rng.choice(res)
            ops += [['set', r, 'v', ['a', rng.randrange(9)]], ['conflict', r], ['commit']]
        if rng.random() < 0.12:
            # a record re-written by somebody who cannot import c14_gone
            ops.append(['rewrite-missing', rng.choice(allnames)])
    if ndb == 1 and weak_p == 0.0 and rng.random() < 0.5:
        # one more transaction with savepoints: objects are created and written by savepoints, the
        # transaction is rolled back to an earlier savepoint, and the same in-memory objects are attached
        # again.  (Only in programs without weak references — a WeakRef object caches the oid it was pickled
        # with, also across a rollback — and with nothing between the last savepoint and the rollback: what
        # happens to objects modified in between is C11/C12's subject.)
        ops.append(['root', 0, 'spj', rng.choice(allnames)])        # the connection joins the transaction
        # (with a tiny cache the cacheGC() of a savepoint turns the new objects it has just stored into ghosts; a
        # rollback then disowns them as ghosts and their state is gone — C12's subject, not generated here)
        case['cache_size'] = 400
        ops.append(['savepoint'])
        batches = []
        k = rng.choice([1, 2, 2, 3])
        for i in range(k):
            before = list(allnames)
            fresh = new_objs(rng.choice([1, 2, 3]))
            allnames += fresh
            for n in fresh:
                if rng.random() < 0.7:
                    ops.append(['set', n, 'f%d' % rng.randrange(3), gen_value(rng, allnames, rng.choice([0, 1, 2]), 0.0)])
            for j, n in enumerate(fresh):
                if j == 0 or rng.random() < 0.6:
                    if rng.random() < 0.5:
                        ops.append(['root', 0, n, n])
                    else:
                        ops.append(['set', rng.choice(before), 'c%d' % i, ['l', [['r', n], ['a', i]]]])
            ops.append(['savepoint'])
            batches.append(fresh)
        target = rng.randrange(0, k) if rng.random() < 0.85 else k
        ops.append(['rollback', target])
        kept = [n for n in allnames if not any(n in b for b in batches[target:])]
        for n in [n for b in batches[target:] for n in b]:
            r = rng.random()
            if r < 0.45:
                ops.append(['root', 0, n, n])
            elif r < 0.8:
                ops.append(['set', rng.choice(kept), 'again', ['t', [['r', n]]]])
        if rng.random() < 0.3:
            ops.append(['savepoint'])
        if rng.random() < 0.3:
            # somebody else re-stores the root mapping this transaction has changed: the copy of the
            # savepoint data into the storage fails with ConflictError (the case ends there: after the
            # abort no new object may keep the oid a savepoint gave it)
            ops.append(['conflict', '@root'])
        ops.append(['commit'])
    return case


# the reproduced defect: a new object that was given an oid during a commit that failed keeps it,
# and the retry stores a reference to it without storing the object
CORPUS = [
    dict(ndb=1, xrefs=[1, 1], oids=[[], [], []], legacy=False, fresh_each=True, goon=True, ops=[
        ['new', 'p', 'N'], ['new', 'c1', 'N'], ['new', 'c2', 'N'],
        ['set', 'p', 'a', ['r', 'c1']], ['set', 'p', 'b', ['r', 'c2']],
        ['root', 0, 'p', 'p'], ['poison', 'c2'], ['commit'], ['unpoison', 'c2'],
        ['root', 0, 'p', 'p'], ['commit']]),
    # rollback to an earlier savepoint, then the SAME in-memory object (created after that savepoint and
    # written by a later one) is attached again: it must be stored by the commit
    dict(ndb=1, xrefs=[1, 1], oids=[[], [], []], legacy=False, fresh_each=True, reset=False, ops=[
        ['new', 'h', 'N'], ['root', 0, 'h', 'h'], ['commit'],
        ['set', 'h', 'v', ['a', 1]], ['savepoint'],
        ['new', 'x', 'N'], ['new', 'y', 'A'], ['set', 'x', 'f', ['l', [['r', 'y'], ['r', 'x']]]],
        ['set', 'h', 'child', ['r', 'x']], ['savepoint'],
        ['rollback', 0],
        ['set', 'h', 'child', ['t', [['r', 'x'], ['a', 5]]]], ['commit']]),
    # the final commit of a transaction with savepoints fails while copying the savepoint data (conflict on h);
    # after the abort the object a savepoint created must be un-owned again, and the retry stores it
    dict(ndb=1, xrefs=[1, 1], oids=[[], [], []], legacy=False, fresh_each=True, reset=False, goon=True, ops=[
        ['new', 'h', 'N'], ['root', 0, 'h', 'h'], ['commit'],
        ['set', 'h', 'v', ['a', 1]], ['savepoint'], ['new', 'x', 'N'], ['new', 'y', 'A'],
        ['set', 'x', 'f', ['l', [['r', 'y'], ['r', 'x']]]], ['set', 'h', 'child', ['r', 'x']], ['savepoint'],
        ['conflict', 'h'], ['commit'],
        ['set', 'h', 'child', ['r', 'x']], ['commit']]),
    # a plain instance of a class with __new__ arguments inside a record that is re-written while the class is
    # missing (placeholder pickled through ZODB.broken.rebuild), then loaded with the class back
    dict(ndb=1, xrefs=[1, 1], oids=[[], [], []], legacy=True, fresh_each=True, reset=False, ops=[
        ['new', 'h', 'N'], ['new', 'k', 'A'], ['new', 'g', 'G'],
        ['set', 'h', 'f', ['l', [['p', [['r', 'k'], ['a', 7], ['r', 'h']]], ['r', 'g']]]], ['root', 0, 'h', 'h'],
        ['commit'], ['rewrite-missing', 'h'], ['set', 'k', 'v', ['a', 1]], ['commit']]),
    # a pooled connection reopened after ZODB.Connection.resetCaches(): one cache for references and get()
    dict(ndb=1, xrefs=[1, 1], oids=[[], [], []], legacy=False, fresh_each=False, reset=True, storage='file', ops=[
        ['new', 'a', 'N'], ['new', 'b', 'N'], ['new', 'shared', 'N'],
        ['set', 'a', 'kids', ['l', [['r', 'shared']]]], ['set', 'b', 'kids', ['l', [['r', 'shared']]]],
        ['set', 'shared', 'kids', ['l', [['r', 'a']]]], ['root', 0, 'a', 'a'], ['root', 0, 'b', 'b'], ['commit'],
        ['set', 'a', 'value', ['a', 2]], ['set', 'shared', 'value', ['a', 2]], ['commit'],
        ['set', 'shared', 'value', ['a', 3]], ['commit']]),
    dict(ndb=2, xrefs=[1, 1], oids=[['6162636465666768', '3030303030303031'], ['6162636465666768'], []],
         legacy=True, fresh_each=True, ops=[
        ['new', 'a', 'N'], ['new', 'b', 'A'], ['new', 'c', 'M'], ['new', 'x', 'N'], ['new', 'y', 'A'],
        ['root', 1, 'x', 'x'], ['set', 'x', 'f', ['r', 'y']], ['commit'],
        ['set', 'a', 'f', ['l', [['r', 'b'], ['r', 'x'], ['w', 'b'], ['t', [['r', 'y'], ['r', 'a']]]]]],
        ['set', 'b', 'f', ['d', [['r', 'a'], ['r', 'c'], ['w', 'x']]]],
        ['set', 'c', 'k', ['dup', ['l', [['r', 'a']]]]],
        ['root', 0, 'a', 'a'], ['commit'], ['touch', 'b'], ['commit']]),
]


class CaseTimeout(Exception):
    pass


def _alarm(signum, frame):
    raise CaseTimeout('the case did not finish within %d s' % CASE_TIMEOUT)


CASE_TIMEOUT = 120


def run_case(case):
    import signal
    s = Session(case)
    old_handler = signal.signal(signal.SIGALRM, _alarm)
    signal.alarm(CASE_TIMEOUT)              # a blocked step becomes a verdict with its input, not a hang
    try:
        s.run()
    except InfraError:
        raise
    except Exception as e:       # the real code raised where no program of this kind may fail
        import traceback
        tb = traceback.extract_tb(e.__traceback__)
        where = '%s:%d' % (os.path.basename(tb[-1].filename), tb[-1].lineno) if tb else '?'
        s.violation('C14:crash:%s' % type(e).__name__, 'unexpected %r at %s' % (e, where))
    finally:
        signal.alarm(0)
        signal.signal(signal.SIGALRM, old_handler)
    return s


def nontrivial(s):
    indeg = {}
    for k, targets in s.edges.items():
        for t in targets:
            indeg[t] = indeg.get(t, 0) + 1
    sharing = any(v >= 2 for v in indeg.values())
    cyc = False
    color = {}
    for start in list(s.edges):          # iterative DFS: is there a cycle of strong references
        if start in color:
            continue
        stack = [(start, iter(s.edges.get(start, ())))]
        color[start] = 1
        while stack:
            k, it = stack[-1]
            for n in it:
                if color.get(n) == 1:
                    cyc = True
                elif n not in color:
                    color[n] = 1
                    stack.append((n, iter(s.edges.get(n, ()))))
                    break
            else:
                color[k] = 2
                stack.pop()
    return (sharing or cyc) and len(s.formats & set('TOWMNL')) >= 2


class Ran:
    """what is kept of an executed case (the session's objects, storages and DBs are dropped at once)"""

    def __init__(self, s):
        self.lines, self.viol, self.counts = s.lines, s.viol, s.counts
        self.formats, self.nontrivial = s.formats, nontrivial(s)


def light(case, s, mo):
    """what the verdict needs from one executed case (picklable)"""
    res = dict(counts=dict(s.counts), formats=sorted(s.formats), nontrivial=s.nontrivial,
               viol=list(s.viol[:3]), mismatch=None,
               sample=dict(ops=case['ops'][:14], lines=[l for l, _ in s.lines][:10]))
    if not s.viol:
        for (line, real), m in zip(s.lines, mo):
            if real is None:
                continue
            if line.startswith('commit') and m.startswith('ok stored='):
                m = 'ok stored=' + ','.join(sorted(x for x in m[len('ok stored='):].split(',') if x))
            if line.startswith('lwalk'):
                m = canon_walk(m)
            if m != real:
                res['mismatch'] = ('model/impl differ at %r: impl %s | model %s' % (line[:80], real[:300], m[:300]),
                                   dict(line=line, impl=real, model=m))
                break
    return res


def work(arg):
    """run a chunk of cases on the real code and on the model (one driver process per chunk)"""
    tmp, legacy_load, cases = arg
    TMPBASE[0] = tmp
    LEGACY_LOAD[0] = legacy_load
    sessions = [Ran(run_case(case)) for case in cases]
    alllines = [l for s in sessions for l, _ in s.lines]
    model = run_driver('Refs', alllines) if alllines else []
    out, pos = [], 0
    for case, s in zip(cases, sessions):
        out.append(light(case, s, model[pos: pos + len(s.lines)]))
        pos += len(s.lines)
    return out


def main(argv=None):
    ck = Check('C14', argv)
    ck.extra['modules'] = ['Props.C14', 'Drivers.Refs']
    ck.run_gate(ck.extra['modules'], ['Props.C14'])
    ncases = 500 if not ck.thorough else 20000
    cases = list(CORPUS)
    cdir = os.path.join(os.path.dirname(os.path.dirname(os.path.abspath(__file__))), 'corpus', 'C14')
    if os.path.isdir(cdir):
        for f in sorted(os.listdir(cdir)):
            if f.endswith('.json'):
                with open(os.path.join(cdir, f)) as fh:
                    cases.append(json.load(fh)['case'])
    if ck.replay_path:
        with open(ck.replay_path) as f:
            cases = [json.load(f)['case']]
        ncases = 0
    for _ in range(ncases):
        cases.append(gen_case(ck.rng, ck.thorough))
    TMPBASE[0] = ck.tmp
    bad = legacy_canary()
    if bad:
        LEGACY_LOAD[0] = False
        ck.violation(bad[0], bad[1], CANARY)
    if ck.thorough and len(cases) > 2000:
        import multiprocessing
        chunks = [cases[i:i + 500] for i in range(0, len(cases), 500)]
        with multiprocessing.Pool(min(16, os.cpu_count() or 4)) as pool:
            results = [r for chunk in pool.map(work, [(ck.tmp, LEGACY_LOAD[0], c) for c in chunks]) for r in chunk]
    else:
        results = work((ck.tmp, LEGACY_LOAD[0], cases))
    TMPBASE[0] = ck.tmp
    shrunk = set()
    for case, res in zip(cases, results):
        for k, v in res['counts'].items():
            ck.count(k, v)
        for f in res['formats']:
            ck.count('format:' + f)
        ck.case(case, res['nontrivial'], sample=res['sample'] if res['nontrivial'] else None)
        if res['viol']:
            sig, what = res['viol'][0]
            if sig in shrunk or len(shrunk) >= 4:        # shrink each kind of failure once
                ck.violation(sig, what, case)
                continue
            shrunk.add(sig)

            def fails(sub, sig=sig, case=case):
                c2 = dict(case, ops=sub)
                return any(v[0] == sig for v in run_case(c2).viol)
            small = ddmin(case['ops'], fails, max_tests=150)
            c2 = dict(case, ops=small)
            w2 = [v for v in run_case(c2).viol if v[0] == sig]
            ck.violation(sig, w2[0][1] if w2 else what, c2 if w2 else case)
        elif res['mismatch']:
            ck.mismatch(res['mismatch'][0], dict(case, differ=res['mismatch'][1]))
    ck.finish(rule='seeded random programs building graphs of persistent objects (PersistentMapping, '
                   'PersistentList, plain class, class with __getnewargs__, classes later unimportable) with '
                   'references nested in lists/tuples/dicts, weak references, a second database, explicit add, '
                   'several transactions, oids forced through new_oid (all-ASCII, control/quote/high bytes); '
                   'non-trivial = the stored graph has an object referenced twice or a cycle, and at least 2 '
                   'reference formats occur in the stored records; distinct by hash of the case',
              assumptions=['zodbpickle (pickle byte format, noload calling persistent_load once per persistent id '
                           'in pickling order, memo of plain containers) is trusted: the model works on the token '
                           'trees the records decode to, and the harness decodes every real record to compare',
                           'reachability follows every reference the writer emits for an object without oid, '
                           'including a weak reference to a new object (serialize.py stores its target, by design)',
                           'getGhost passes constructor arguments to __new__; the model does not load references '
                           'inside constructor arguments on the reading side (they are checked on the writing '
                           'side and by referencesf)'])


if __name__ == '__main__':
    try:
        main()
    except InfraError as e:
        print('INFRA-ERROR', e)
        sys.exit(2)
