"""C13 — Blob data commits, aborts, undoes and packs together with its object record.

Correspondence: blob histories on the REAL FileStorage(blob_dir) and BlobStorage(blob_dir,
MappingStorage()), at the storage level (c13_st.py) and through DB/Connection (c13_db.py), under the
recording VFS.  Every call that crosses the storage boundary becomes one op line of the Lean model
(Drivers/Blob.lean) and is compared with the real observation after that call.
Direct oracle: the harness's own ledger (oid, tid) -> bytes and the property statement."""
import json
import os
import sys

sys.path.insert(0, os.path.dirname(os.path.abspath(__file__)))
from common import Check, InfraError, run_driver, ddmin  # noqa: E402
import c13_st  # noqa: E402
import c13_db  # noqa: E402

RULE = ('seeded blob histories at the storage level and through DB/Connection on FileStorage+blob_dir and '
        'BlobStorage over MappingStorage; non-trivial = a blob is rewritten, undone or packed, or the '
        'transaction fails/aborts after storeBlob; distinct by hash of the case')


CASE_TIMEOUT = 90          # seconds of wall time for one case (a blocked step becomes a verdict with its input)


class CaseTimeout(BaseException):
    pass


def run_guarded(case, root):
    """run one case; a case that blocks (lock never released, endless loop) is cut off and reported"""
    import shutil
    import signal
    mod = c13_st if case['level'] == 'st' else c13_db

    def on_alarm(signum, frame):
        raise CaseTimeout()
    old = signal.signal(signal.SIGALRM, on_alarm)
    signal.setitimer(signal.ITIMER_REAL, CASE_TIMEOUT, 20)      # again every 20 s while cleaning up
    try:
        try:
            return mod.run_case(case, root)
        except CaseTimeout:
            return dict(lines=[], real=[], nontrivial=False, stats={'case-timeout': 1}, tie=[],
                        problems=[('C13:blocked', 'the case did not finish within %d s (a step blocks or loops)'
                                   % CASE_TIMEOUT)])
    finally:
        signal.setitimer(signal.ITIMER_REAL, 0)
        signal.signal(signal.SIGALRM, old)
        shutil.rmtree(root, ignore_errors=True)


def run_real(case, ck, n=[0]):
    n[0] += 1
    root = os.path.join(ck.tmp, 'case%d' % n[0])
    os.makedirs(root)
    return run_guarded(case, root)


def _worker(arg):
    i, case, tmp = arg
    root = os.path.join(tmp, 'w%d' % i)
    os.makedirs(root)
    return run_guarded(case, root)


def run_all(cases, ck):
    if not ck.thorough or len(cases) < 50:
        return [run_real(c, ck) for c in cases]
    import multiprocessing
    nproc = min(12, max(2, (os.cpu_count() or 4) - 2))
    with multiprocessing.get_context('fork').Pool(nproc) as pool:
        return pool.map(_worker, [(i, c, ck.tmp) for i, c in enumerate(cases)], chunksize=8)


def shrink(case, ck, sig):
    def fails(ops):
        sub = dict(case, ops=ops)
        try:
            return any(s == sig for s, _ in run_real(sub, ck)['problems'])
        except Exception:
            return False
    ops = ddmin(case['ops'], fails, max_tests=150)
    return dict(case, ops=ops)


def first_diff(real, mo):
    for i in range(min(len(real), len(mo))):
        if real[i] != mo[i]:
            return i
    return None if len(real) == len(mo) else min(len(real), len(mo))


def shrink_mismatch(case, res, mo, j, ck):
    """minimise the first model/impl disagreement of the run (one driver process per candidate)"""
    orig = case
    case = dict(case, copy=False)

    def differs(ops):
        r = run_real(dict(case, ops=ops), ck)
        if any(not is_known_open(ck, sg) for sg, _ in r['problems']):
            return False
        return first_diff(r['real'], run_driver('Blob', r['lines'])) is not None
    try:
        if not differs(case['ops']):
            return orig, res, mo, j
        ops = ddmin(case['ops'], differs, max_tests=60)
        small = dict(case, ops=ops)
        r = run_real(small, ck)
        m = run_driver('Blob', r['lines'])
        jj = first_diff(r['real'], m)
        if jj is not None and all(is_known_open(ck, sg) for sg, _ in r['problems']):
            return small, r, m, jj
    except Exception:
        pass
    return orig, res, mo, j


def is_known_open(ck, sig):
    import re
    return any(k.get('status', 'open') == 'open' and re.fullmatch(k['signature'], sig) for k in ck.known)


def corpus_cases():
    d = os.path.join(os.path.dirname(os.path.dirname(os.path.abspath(__file__))), 'corpus', 'C13')
    out = []
    if os.path.isdir(d):
        for f in sorted(os.listdir(d)):
            if f.endswith('.json'):
                with open(os.path.join(d, f)) as fh:
                    c = json.load(fh)
                out.append(c.get('case', c))
    return out


def main(argv=None):
    ck = Check('C13', argv)
    ck.extra['modules'] = ['Props.C13', 'Drivers.Blob']
    ck.run_gate(ck.extra['modules'], ['Props.C13'])
    n_st, n_db = (140, 200) if not ck.thorough else (6000, 8000)
    if ck.replay_path:
        with open(ck.replay_path) as f:
            cases = [json.load(f)['case']]
    else:
        cases = corpus_cases()
        for _ in range(n_st):
            cases.append(c13_st.gen_case(ck.rng))
        for _ in range(n_db):
            cases.append(c13_db.gen_case(ck.rng))
    results = run_all(cases, ck)
    # model: one driver process for everything
    all_lines = []
    for res in results:
        all_lines += res['lines']
    model = run_driver('Blob', all_lines) if all_lines else []
    pos = 0
    shrunk = set()
    for case, res in zip(cases, results):
        mo = model[pos: pos + len(res['lines'])]
        pos += len(res['lines'])
        for k, v in res['stats'].items():
            ck.count(k, v)
        for ln in res['lines']:
            ck.count('line:' + ln.split()[0])
        ck.count('cases:%s:%s' % (case['level'], case['flavor']))
        for dim in ('layout', 'cfg', 'hex', 'demo', 'copy', 'mdb'):
            if case.get(dim):
                ck.count('dim:%s:%s' % (dim, case[dim]))
        if case.get('oid_base'):
            ck.count('dim:oid_base:%s' % ('>=2^32' if case['oid_base'] >= 2 ** 32 else '<2^32'))
        if case.get('dbo'):
            ck.count('dim:db-options')
        sample = None
        if res['nontrivial']:
            sample = dict(case=dict(case, ops=case['ops'][:10]), lines=res['lines'][:14], real=res['real'][:14])
        ck.case(case, res['nontrivial'], sample=sample)
        for tb in res.get('tie', []):
            if not any(tb in m['what'] for m in ck.mismatches):
                ck.mismatch('a fact the model relies on no longer holds in the code: ' + tb,
                            dict(case, note='probed on every tpc_finish, see c13_lib.Env._probe_finish'))
        seen, unknown = set(), 0
        for sig, what in res['problems']:
            if sig in seen:
                continue
            seen.add(sig)
            if is_known_open(ck, sig):
                ck.violation(sig, what, dict(case, lines=res['lines'], real=res['real']))
                continue
            unknown += 1
            if sig in shrunk or len(shrunk) >= 3:
                # enough minimised examples; record the rest as they are
                ck.violation(sig, what, dict(case, problems=res['problems']))
                continue
            shrunk.add(sig)
            small = shrink(case, ck, sig)
            r2 = run_real(small, ck)
            w2 = [w for s2, w in r2['problems'] if s2 == sig]
            ck.violation(sig, w2[0] if w2 else what,
                         dict(small, problems=r2['problems'], lines=r2['lines'], real=r2['real']))
        if not unknown and res['real'] != mo:
            j = [i for i in range(len(mo)) if res['real'][i] != mo[i]][0]
            if not ck.mismatches:
                case, res, mo, j = shrink_mismatch(case, res, mo, j, ck)
            ck.mismatch('model/impl differ at line %d %r: impl %s model %s'
                        % (j, res['lines'][j], res['real'][j], mo[j]),
                        dict(case, lines=res['lines'][:j + 1], real=res['real'][:j + 1], model=mo[:j + 1]))
    ck.extra['coverage'] = dict(
        excluded_points=[
            'BlobStorage wrapper: a pack run between tpc_begin and tpc_finish/tpc_abort of a transaction '
            'deletes the blob files that transaction has already renamed into place (the base storage cannot '
            'load them yet); C13 quantifies over histories and fault sequences, not over a pack interleaved '
            'with a transaction in progress: such histories are not generated; Lean: '
            'Props.C13.wrapper_pack_in_txn_loses_blob is the witness, all wrapper theorems assume Admissible',
            'informational, not judged: a ConflictError raised by store() inside storeBlob leaves the '
            "transaction's uncommitted file tmp/BUC* behind (tmp/ is outside the committed area)",
            'informational, outside the quantifier: BlobStorage.undo over an undo-capable base storage leaves '
            'a stray <oid>/<undo-tid>.blob for an un-creation record',
            'excluded, not generated (observation): DB.undoMultiple of a rewrite AND of the creation of the same blob '
            'in one transaction leaves <oid>/<undo tid>.blob although the object\'s last record in that transaction is an '
            'un-creation (a superseded duplicate blob record of that (oid, tid) exists in the transaction)',
            'observation, record-only (out of contract: the 2PC finish callback must not fail; not a failure kind of '
            'C13): a raising callback in FileStorage.tpc_finish leaves the uncommitted transaction\'s blob file '
            'because the following tpc_abort is ignored; corpus/C13/observation_finish_callback_blob.py',
        ])
    ck.finish(rule=RULE, assumptions=[
        'which records a pack drops is taken from storage.iterator() before/after the real pack (C07 decides '
        'that); the blob side is checked against it',
        'protocol discipline of Connection/transaction: an oid is stored at most once per transaction, nothing is '
        'stored after the vote, a transaction in which a call raised is aborted',
        'os.rename atomic; BlobFile opens observed by wrapping BlobFile.__init__, other raw I/O by harness/vfs.py',
        'ORACLE ONLY (no model counterpart; judged by the ledger / API expectations alone): raw-fault commits, commits '
        'with EXDEV renames (copy fall-back of rename_or_copy_blob), the second database of a multi-database group, '
        'the second blob storage of the process, DemoStorage layers over the storage (first read, push/pop), '
        'copy into a storage with the other blob-directory layout, Blob API refusals (several readers / one writer, '
        "committed(), open('c'), subclassing), exportFile/importFile (the imported blob's bytes), consumeFile across "
        'file systems; construction variants (layout marker, ZODB.config text, DB options, oid base, hexstorage, '
        'close + reopen) run the SAME model lines as the plain FileStorage / wrapper',
        'per-case wall-clock limit %d s: a blocked case is reported as C13:blocked with its input' % CASE_TIMEOUT])


if __name__ == '__main__':
    try:
        main()
    except InfraError as e:
        print('INFRA-ERROR', e)
        sys.exit(2)
