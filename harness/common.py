"""Shared machinery of every check: Lean gate (build + axiom audit), model drivers,
verdict logic, known findings, replay and evidence files.  See DESIGN.md 1.3 / 2."""
import fcntl
import hashlib
import json
import os
import random
import re
import shutil
import subprocess
import sys
import tempfile
import time

HARNESS = os.path.dirname(os.path.abspath(__file__))
VERIF = os.path.dirname(HARNESS)
# where evidence/ and replay/ go: /verif itself, except for runs against a scratch tree (seeded.py)
OUT = os.environ.get('VERIF_OUT') or VERIF
LEAN = os.path.join(VERIF, 'lean')
REPO = os.environ.get('ZODB_REPO', '/repo')
GUARD = 'ZODB_VERIF'
os.environ.setdefault(GUARD, '1')

ALLOWED_AXIOMS = {'propext', 'Classical.choice', 'Quot.sound'}
FORBIDDEN = re.compile(
    r'\b(sorry|admit|native_decide|bv_decide|implemented_by|unsafe)\b|^\s*axiom\s|maxHeartbeats\s+0\b')

TRUSTED_BASE = [
    "Lean 4.33.0 kernel (thorough tier: re-checked by leanchecker)",
    "axioms allowed in property theorems: propext, Classical.choice, Quot.sound only "
    "(audited with collectAxioms on every run); no native_decide/bv_decide, no axioms of our own",
    "hand-written executable Lean model, tied to /repo by the correspondence check of this run "
    "(differential execution of model and implementation on the same seeded inputs)",
    "harness/extract.py constants translated from /repo source into lean/ZodbModel/Generated.lean "
    "and checked by Props/Tie.lean",
    "CPython, persistent/BTrees/zodbpickle C extensions, OS file semantics (modelled, not verified)",
]


class InfraError(Exception):
    pass


def strip_comments(src):
    # remove /- ... -/ (nested) and -- ... comments, and string literals
    out = []
    i, n, depth = 0, len(src), 0
    while i < n:
        if src.startswith('/-', i):
            depth += 1
            i += 2
        elif depth and src.startswith('-/', i):
            depth -= 1
            i += 2
        elif depth:
            if src[i] == '\n':
                out.append('\n')
            i += 1
        elif src.startswith('--', i):
            while i < n and src[i] != '\n':
                i += 1
        elif src[i] == '"':
            i += 1
            while i < n and src[i] != '"':
                i += 2 if src[i] == '\\' else 1
            i += 1
        else:
            out.append(src[i])
            i += 1
    return ''.join(out)


def module_path(mod):
    return os.path.join(LEAN, *mod.split('.')) + '.lean'


def lean_sources(modules=None):
    """Project-local source files: all of them, or the import closure of `modules`."""
    if modules is None:
        res = []
        for d in ('ZodbModel', 'Proofs', 'Props', 'Drivers'):
            for root, _, files in os.walk(os.path.join(LEAN, d)):
                res += [os.path.join(root, f) for f in files if f.endswith('.lean')]
        return sorted(res)
    seen, todo = set(), list(modules)
    while todo:
        m = todo.pop()
        p = module_path(m)
        if m in seen or not os.path.exists(p):
            continue
        seen.add(m)
        with open(p) as f:
            for line in f:
                mm = re.match(r'\s*(?:public\s+)?import\s+([A-Za-z0-9_.]+)', line)
                if mm:
                    todo.append(mm.group(1))
    return sorted(module_path(m) for m in seen)


def sources_hash(modules=None):
    h = hashlib.sha256()
    for p in lean_sources(modules):
        h.update(p.encode())
        with open(p, 'rb') as f:
            h.update(f.read())
    return h.hexdigest()


class LakeLock:
    def __enter__(self):
        os.makedirs(os.path.join(LEAN, '.lake'), exist_ok=True)
        self.f = open(os.path.join(LEAN, '.lake', 'verif.lock'), 'w')
        fcntl.flock(self.f, fcntl.LOCK_EX)
        return self

    def __exit__(self, *a):
        fcntl.flock(self.f, fcntl.LOCK_UN)
        self.f.close()


def run_extractor():
    """Regenerate lean/ZodbModel/Generated.lean from /repo's current source (only rewritten when
    the content changes, so the Lake cache stays valid)."""
    import extract
    text, info = extract.generate(REPO)
    path = os.path.join(LEAN, 'ZodbModel', 'Generated.lean')
    old = None
    if os.path.exists(path):
        with open(path) as f:
            old = f.read()
    if old != text:
        with open(path, 'w') as f:
            f.write(text)
    return info


def lean_gate(pid, modules, namespaces, thorough=False):
    """Build `modules`, grep sources, audit axioms of every theorem whose name starts with one of
    `namespaces`.  Returns a dict: ok, obligations, discharged, theorems, failures, build_log."""
    t0 = time.time()
    res = dict(ok=True, obligations=0, discharged=0, theorems=[], failures=[], build_s=0.0,
               extract={}, leanchecker=None)
    with LakeLock():
        try:
            res['extract'] = run_extractor()
        except Exception as e:  # extractor could not parse the source: a tie obligation broke
            res['ok'] = False
            res['failures'].append('extract: %r' % (e,))
        p = subprocess.run(['lake', 'build'] + modules, cwd=LEAN, capture_output=True, text=True)
        res['build_s'] = round(time.time() - t0, 2)
        if p.returncode != 0:
            res['ok'] = False
            log = (p.stdout + p.stderr)
            errs = [l for l in log.splitlines() if 'error' in l][:10]
            res['failures'].append('lake build failed: ' + ' | '.join(errs))
            res['build_log'] = log[-4000:]
        # source grep
        for src in lean_sources(modules):
            with open(src) as f:
                body = strip_comments(f.read())
            for ln, line in enumerate(body.splitlines(), 1):
                m = FORBIDDEN.search(line)
                if m:
                    res['ok'] = False
                    res['failures'].append('forbidden token %r in %s:%d' % (
                        m.group(0).strip(), os.path.relpath(src, LEAN), ln))
        if p.returncode == 0:
            audit = axiom_audit(pid, [m for m in modules if m.startswith('Props.')], namespaces)
            res['theorems'] = audit
            res['obligations'] = len(audit)
            for name, axs in audit.items():
                bad = [a for a in axs if a not in ALLOWED_AXIOMS]
                if bad:
                    res['ok'] = False
                    res['failures'].append('theorem %s depends on %s' % (name, bad))
                else:
                    res['discharged'] += 1
            if not audit:
                res['ok'] = False
                res['failures'].append('no property theorem found for %s' % pid)
            if thorough:
                q = subprocess.run(['lake', 'env', 'leanchecker'] + modules, cwd=LEAN,
                                   capture_output=True, text=True)
                res['leanchecker'] = 'ok' if q.returncode == 0 else (q.stdout + q.stderr)[-1500:]
                if q.returncode != 0:
                    res['ok'] = False
                    res['failures'].append('leanchecker rejected ' + ' '.join(modules))
    res['gate_s'] = round(time.time() - t0, 2)
    return res


def axiom_audit(pid, prop_modules, namespaces):
    """name -> list of axioms, for every theorem in the given namespaces (cached on source hash)."""
    adir = os.path.join(LEAN, '.lake', 'audit')
    os.makedirs(adir, exist_ok=True)
    key = sources_hash(prop_modules)
    cache = os.path.join(adir, pid + '.json')
    if os.path.exists(cache):
        try:
            with open(cache) as f:
                c = json.load(f)
            if c.get('key') == key and c.get('ns') == namespaces:
                return c['audit']
        except Exception:
            pass
    src = os.path.join(adir, 'Audit_%s.lean' % pid)
    with open(src, 'w') as f:
        f.write('import Lean\n')
        for m in prop_modules:
            f.write('import %s\n' % m)
        f.write('open Lean Elab Command in\nrun_cmd do\n  let env ← getEnv\n')
        f.write('  let nss : List Name := [%s]\n' % ', '.join('`' + n for n in namespaces))
        f.write('  for (n, ci) in env.constants.toList do\n'
                '    if nss.any (fun ns => ns.isPrefixOf n) && !n.isInternalDetail then\n'
                '      match ci with\n'
                '      | .thmInfo _ =>\n'
                '        let ax ← Lean.collectAxioms n\n'
                '        IO.println s!"AXIOMS {n} {ax.toList}"\n'
                '      | _ => pure ()\n')
    p = subprocess.run(['lake', 'env', 'lean', src], cwd=LEAN, capture_output=True, text=True)
    if p.returncode != 0:
        raise InfraError('axiom audit failed: ' + (p.stdout + p.stderr)[-2000:])
    audit = {}
    for line in p.stdout.splitlines():
        m = re.match(r'AXIOMS (\S+) \[(.*)\]', line)
        if m:
            audit[m.group(1)] = [a.strip() for a in m.group(2).split(',') if a.strip()]
    with open(cache, 'w') as f:
        json.dump(dict(key=key, ns=namespaces, audit=audit), f)
    return audit


def run_driver(name, lines, timeout=600):
    """Feed `lines` (list of str) to Drivers/<name>.lean; return list of output lines."""
    inp = '\n'.join(lines) + '\n'
    p = subprocess.run(['lake', 'env', 'lean', '--run', 'Drivers/%s.lean' % name], cwd=LEAN,
                       input=inp, capture_output=True, text=True, timeout=timeout)
    if p.returncode != 0:
        raise InfraError('driver %s failed: %s' % (name, (p.stdout + p.stderr)[-2000:]))
    out = p.stdout.splitlines()
    if len(out) != len([l for l in lines if l.strip()]):
        raise InfraError('driver %s: %d ops but %d observations' % (name, len(lines), len(out)))
    return out


def load_known_findings():
    p = os.path.join(VERIF, 'known_findings.json')
    if not os.path.exists(p):
        return []
    with open(p) as f:
        return json.load(f)['findings']


class Check:
    """One run of one property's check."""

    def __init__(self, pid, argv=None):
        import argparse
        ap = argparse.ArgumentParser()
        ap.add_argument('--tier', default=os.environ.get('VERIF_TIER', 'quick'),
                        choices=['quick', 'thorough'])
        ap.add_argument('--replay', default=None)
        ap.add_argument('--seed', type=int, default=int(os.environ.get('VERIF_SEED', '0') or 0))
        a = ap.parse_args(argv)
        self.pid, self.tier, self.seed, self.replay_path = pid, a.tier, a.seed, a.replay
        self.thorough = self.tier == 'thorough'
        self.rng = random.Random('%s-%d' % (pid, self.seed))
        self.t0 = time.time()
        self.violations = []      # dicts: signature, what, case  (oracle rejected the real code)
        self.mismatches = []      # model/impl differences the direct oracle accepts, tie breaks
        self.known_hit = {}       # signature -> what
        self.evaluations = 0
        self.nontrivial = set()
        self.samples = []
        self.hist = {}
        self.gate = None
        self.extra = {}
        self.known = [k for k in load_known_findings() if k['property'] == pid]
        self.tmp = tempfile.mkdtemp(prefix='zv-%s-' % pid)

    # ---- bookkeeping --------------------------------------------------------------------
    def count(self, key, n=1):
        self.hist[key] = self.hist.get(key, 0) + n

    def case(self, canonical, nontrivial, sample=None):
        """Register one executed case; `canonical` any json-able value used for distinctness."""
        self.evaluations += 1
        if nontrivial:
            self.nontrivial.add(hashlib.sha1(json.dumps(canonical, sort_keys=True,
                                                        default=str).encode()).hexdigest())
        if sample is not None and len(self.samples) < 3:
            self.samples.append(sample)

    def violation(self, signature, what, case):
        for k in self.known:
            if k.get('status', 'open') == 'open' and re.fullmatch(k['signature'], signature):
                self.known_hit.setdefault(k['signature'], k['what'])
                return
        if len(self.violations) < 20:
            self.violations.append(dict(signature=signature, what=what, case=case))

    def mismatch(self, what, case):
        if len(self.mismatches) < 20:
            self.mismatches.append(dict(what=what, case=case))

    def run_gate(self, modules, namespaces):
        self.gate = lean_gate(self.pid, modules, namespaces, thorough=self.thorough)
        return self.gate

    # ---- verdict ------------------------------------------------------------------------
    def finish(self, rule, level='proof', assumptions=None, checker_cmd=None):
        wall = time.time() - self.t0
        g = self.gate or dict(ok=False, obligations=0, discharged=0, failures=['gate not run'],
                              theorems={})
        exit_code = 0
        lines = []
        os.makedirs(os.path.join(OUT, 'replay'), exist_ok=True)
        for sig, what in sorted(self.known_hit.items()):
            lines.append('KNOWN-FINDING: property=%s %s' % (self.pid, what))
        if self.violations:
            v = self.violations[0]
            path = self._write_replay('violation', v, g)
            lines.append('VIOLATION property=%s replay=%s' % (self.pid, path))
            exit_code = 1
        elif (not g['ok']) or self.mismatches:
            # a proof / tie obligation or the correspondence broke and the failing-input search
            # (the direct oracle over everything this run generated) found nothing
            v = dict(signature='obligation-broken',
                     what='; '.join(g.get('failures', []) + [m['what'] for m in self.mismatches])[:2000],
                     case=(self.mismatches[0]['case'] if self.mismatches else None))
            path = self._write_replay('no-failing-input-found', v, g)
            lines.append('VIOLATION property=%s replay=%s no-failing-input-found' % (self.pid, path))
            exit_code = 1
        cov = dict(
            obligations=g['obligations'], discharged=g['discharged'],
            checker_cmd=checker_cmd or ('cd lean && lake build %s  # + axiom audit via Lean.collectAxioms'
                                        % ' '.join(self.extra.get('modules', []))),
            trusted_base=TRUSTED_BASE,
            evaluations=self.evaluations, distinct_nontrivial=len(self.nontrivial), rule=rule,
            samples=self.samples or ['(no case executed)'],
            traces_validated_against_impl=self.evaluations,
            histogram=self.hist, theorems=sorted(g.get('theorems', {})),
            gate_failures=g.get('failures', []), gate_seconds=g.get('gate_s'),
            leanchecker=g.get('leanchecker'), extracted_constants=g.get('extract', {}),
            known_findings_reproduced=sorted(self.known_hit),
            model_impl_mismatches=len(self.mismatches),
        )
        cov.update(self.extra.get('coverage', {}))
        ev = dict(property_id=self.pid, tier=self.tier, seed=self.seed, level=level, coverage=cov,
                  assumptions=assumptions or [], wall_s=round(wall, 2),
                  violations=len(self.violations))
        os.makedirs(os.path.join(OUT, 'evidence'), exist_ok=True)
        with open(os.path.join(OUT, 'evidence', self.pid + '.json'), 'w') as f:
            json.dump(ev, f, indent=1, default=str)
        for l in lines:
            print(l)
        print('%s %s seed=%d: %d cases (%d distinct non-trivial), %d/%d obligations, %d violations, '
              '%d mismatches, %.1fs' % (self.pid, self.tier, self.seed, self.evaluations,
                                        len(self.nontrivial), g['discharged'], g['obligations'],
                                        len(self.violations), len(self.mismatches), wall))
        shutil.rmtree(self.tmp, ignore_errors=True)
        sys.stdout.flush()
        sys.exit(exit_code)

    def _write_replay(self, kind, v, g):
        name = '%s-%s-%d-%s.json' % (self.pid, self.tier, self.seed, kind)
        path = os.path.join(OUT, 'replay', name)
        with open(path, 'w') as f:
            json.dump(dict(property=self.pid, tier=self.tier, seed=self.seed, kind=kind,
                           signature=v['signature'], what=v['what'], case=v['case'],
                           gate_failures=g.get('failures', []),
                           all_violations=self.violations[:10],
                           mismatches=self.mismatches[:10]), f, indent=1, default=str)
        return path


def hex8(n):
    return '%016x' % n


def ddmin(items, fails, max_tests=400):
    """delta debugging: a small sublist of `items` on which `fails` still holds"""
    tests = 0
    n = 2
    items = list(items)
    while len(items) >= 2 and tests < max_tests:
        chunk = max(1, len(items) // n)
        reduced = False
        for i in range(0, len(items), chunk):
            cand = items[:i] + items[i + chunk:]
            tests += 1
            try:
                bad = bool(cand) and fails(cand)
            except Exception:
                bad = False
            if bad:
                items = cand
                n = max(n - 1, 2)
                reduced = True
                break
        if not reduced:
            if chunk == 1:
                break
            n = min(len(items), n * 2)
    return items
