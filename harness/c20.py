"""C20 — Object ids are never issued twice or for an object that already exists.

Sections
  A  counter storages: allocation histories (new_oid, store/restore of records with arbitrary ids --
     small, large, ASCII, ff..ff --, set_max_oid, abort, finish, pack with gc, close+reopen with and
     without the .index file) on FileStorage and MappingStorage vs the Lean model (Drivers/Oid.lean);
     BaseStorage.new_oid's byte-level increment on boundary counters vs `newOidBytes`.
  B  DemoStorage over populated bases (mapping/file), real (seeded) random draws plus scripted collisions,
     stores of issued ids, abort/finish, push/pop.
  C  Connection level: objects added through Connection.add / attribute reachability, during savepoints
     (TmpStore), rollbacks, aborts, export + importFile, DB close + reopen; every id the storage hands out is
     logged by wrapping storage.new_oid.
  D  concurrency: 2-4 allocator threads (+ a committer storing high oids) under harness/sched.py with
     line-granular preemption inside new_oid / set_max_oid / store, and a plain-threads stress run.
Direct oracle [P] (independent of the model): every issued id is new w.r.t. the ids issued in this open
session and the oids that have a record present (read from the real storage's iterator) or are being
written by the transaction in progress.
Probe (excluded point, open finding): C20:new-oid-uncreated-reissued.
"""
import base64
import json
import logging
import os
import random
import re
import shutil
import struct
import sys
import threading
import time

sys.path.insert(0, os.path.dirname(os.path.abspath(__file__)))
from common import Check, InfraError, run_driver, ddmin, hex8  # noqa: E402

logging.disable(logging.CRITICAL)

import transaction  # noqa: E402
import ZODB  # noqa: E402
from ZODB.Connection import TransactionMetaData  # noqa: E402
from ZODB.DemoStorage import DemoStorage  # noqa: E402
from ZODB.FileStorage import FileStorage  # noqa: E402
from ZODB.MappingStorage import MappingStorage  # noqa: E402
from ZODB import POSException  # noqa: E402
from ZODB.serialize import referencesf  # noqa: E402
from ZODB.tests.MinPO import MinPO  # noqa: E402
from ZODB.tests.StorageTestBase import zodb_pickle  # noqa: E402
from ZODB.TimeStamp import TimeStamp  # noqa: E402
from ZODB.utils import p64, u64, z64  # noqa: E402

DEMO_MODULE = sys.modules['ZODB.DemoStorage']
TOP = 2 ** 64 - 1
T0 = u64(TimeStamp(2015, 1, 1, 0, 0, 0.0).raw())


def tid_of(k):
    return p64(T0 + (k << 32))


def pickle_refs(value, refs):
    objs = []
    for r in refs:
        m = MinPO(0)
        m._p_oid = p64(r)
        objs.append(m)
    return zodb_pickle(MinPO([value] + objs))


def present_oids(st):
    return {u64(r.oid) for t in st.iterator() for r in t}


def is_overflow(e):
    # struct.error from BaseStorage's struct.pack, ValueError from utils.p64 (MappingStorage)
    return isinstance(e, (struct.error, OverflowError)) or (
        isinstance(e, ValueError) and e.args and isinstance(e.args[-1], int) and e.args[-1] > TOP)


# ================================================================ A. counter storages vs model
class RealA:
    def __init__(self, tmp):
        self.dir = tmp
        self.s = None
        self.kind = None
        self.k = 0
        self.txn = None
        self.cur = {}            # oid -> tid of its current committed record
        self.staged = {}
        self.path = None
        self.nfile = 0
        self.last_tid = None

    def close(self):
        if self.s is not None:
            try:
                self.s.close()
            except Exception:
                pass

    def open(self, create=False):
        """the storage kinds: plain, blob-capable (native and through the BlobStorage proxy), HexStorage-wrapped,
        built from a configuration section with non-default options"""
        import ZODB.blob
        import ZODB.config
        from ZODB.tests.hexstorage import HexStorage
        v, p = self.variant, self.path
        if v == 'file':
            return FileStorage(p, create=create)
        if v == 'blobfile':
            return FileStorage(p, create=create, blob_dir=p + '.blobs')
        if v == 'blobwrap':
            return ZODB.blob.BlobStorage(p + '.wblobs', FileStorage(p, create=create))
        if v == 'hexfile':
            return HexStorage(FileStorage(p, create=create, pack_keep_old=False))
        if v == 'cfgfile':
            return ZODB.config.storageFromString(
                '<filestorage>\n path %s\n create %s\n pack-keep-old false\n</filestorage>'
                % (p, 'true' if create else 'false'))
        if v == 'mapping':
            return MappingStorage()
        if v == 'hexmapping':
            return HexStorage(MappingStorage())
        if v == 'cfgmapping':
            return ZODB.config.storageFromString('<mappingstorage>\n</mappingstorage>')
        if v == 'blobwrapmapping':
            return ZODB.blob.BlobStorage(p + '.wblobs', MappingStorage())
        raise InfraError('variant %r' % v)

    def ensure_txn(self):
        if self.txn is None:
            self.k += 1
            self.txn = TransactionMetaData()
            self.tid = tid_of(self.k)
            self.s.tpc_begin(self.txn, self.tid)
            self.staged = {}

    def do(self, op):
        """-> (observation, op line for the model)"""
        t = op.split()
        c = t[0]
        s = self.s
        if c == 'reset':
            self.close()
            self.kind = t[1]
            self.variant = t[2] if len(t) > 2 else t[1]
            self.nfile += 1
            self.txn, self.cur, self.staged = None, {}, {}
            self.path = os.path.join(self.dir, 'a%d.fs' % self.nfile)
            self.s = self.open(True)
            return 'ok', 'reset ' + self.kind
        if c == 'newoid':
            try:
                return s.new_oid().hex(), op
            except Exception as e:
                return ('err:Overflow' if is_overflow(e) else 'err:Other(%s)' % type(e).__name__), op
        if c in ('store', 'storeroot', 'restore'):
            if c == 'restore' and self.kind != 'file':
                return 'err:Unsupported', op
            self.ensure_txn()
            if c == 'storeroot':
                o, refs = 0, ([] if t[1] == '-' else [int(x, 16) for x in t[1].split(',')])
                mop = 'store ' + hex8(0)
            else:
                o, refs = int(t[1], 16), []
                mop = '%s %s' % (c, t[1])           # (the model's store does not look at the serial)
            data = pickle_refs(self.k, refs)
            try:
                if c == 'restore':
                    # with and without the prev_txn hint (a transaction that holds an earlier record of the oid)
                    prev = self.cur.get(o) if (o in self.cur and (self.k + o) % 2) else None
                    s.restore(p64(o), self.tid, data, '', prev, self.txn)
                else:
                    # (a storage accepts any serial for an oid it has no record of: 'ns' passes a non-null one,
                    # as DemoStorage does when it copies a base object into its changes)
                    ser = self.cur.get(o, tid_of(1) if t[2:] == ['ns'] else z64)
                    s.store(p64(o), ser, data, '', self.txn)
                self.staged[o] = self.tid
                return 'ok', mop
            except Exception as e:
                return 'err:Other(%s)' % type(e).__name__, mop
        if c == 'delete':
            # deleteObject: an un-creation record (no pickle, zero back pointer); the oid keeps its records.
            # The counter model is not concerned (the oid is already in the index): model line = no-op
            o = int(t[1], 16)
            if self.kind != 'file' or o not in self.cur or o in self.staged:
                return 'ok', 'begin'
            self.ensure_txn()
            try:
                s.deleteObject(p64(o), self.cur[o], self.txn)
                self.staged[o] = self.tid
            except Exception:
                pass
            return 'ok', 'begin'
        if c == 'undolast':
            # undo of the newest transaction: un-creation records for the objects it created
            if self.kind != 'file' or self.last_tid is None or self.staged:
                return 'ok', 'begin'
            self.ensure_txn()
            try:
                _, oids = s.undo(base64.encodebytes(self.last_tid).rstrip(b'\n'), self.txn)
                for oid in oids:
                    self.staged[u64(oid)] = self.tid
            except Exception:
                pass
            return 'ok', 'begin'
        if c == 'emptytxn':
            # an empty transaction: nothing for the counter (model: no-op)
            if self.txn is None:
                self.ensure_txn()
                s.tpc_vote(self.txn)
                s.tpc_finish(self.txn)
                self.last_tid = self.tid
                self.txn, self.staged = None, {}
            return 'ok', 'begin'
        if c == 'copyfrom':
            # copyTransactionsFrom a source holding records with arbitrary (large, ASCII, high-bit) oids:
            # restore() on the destination.  Model: restore + finish per source transaction.
            if self.kind != 'file' or self.txn is not None:
                return 'ok', 'begin'
            src = MappingStorage('src') if t[1] == 'm' else FileStorage(os.path.join(self.dir, 'src%d.fs' % self.k),
                                                                          create=True)
            lines = []
            for grp in t[2].split(';'):
                self.k += 1
                tx = TransactionMetaData()
                src.tpc_begin(tx, tid_of(self.k))
                for h in grp.split(','):
                    src.store(p64(int(h, 16)), z64, pickle_refs(self.k, []), '', tx)
                    self.cur[int(h, 16)] = tid_of(self.k)
                    lines.append('restore ' + h)
                src.tpc_vote(tx)
                src.tpc_finish(tx)
                lines.append('finish')
                self.last_tid = tid_of(self.k)
            s.copyTransactionsFrom(src)
            src.close()
            return 'ok', '\n'.join(lines)
        if c == 'setmax':
            if self.kind != 'file':
                return 'err:Unsupported', op
            s.set_max_oid(p64(int(t[1], 16)))
            return 'ok', op
        if c == 'abort':
            if self.txn is not None:
                s.tpc_abort(self.txn)
                self.txn, self.staged = None, {}
            return 'ok', op
        if c == 'finish':
            if self.txn is not None:
                s.tpc_vote(self.txn)
                s.tpc_finish(self.txn)
                self.last_tid = self.tid
                self.cur.update(self.staged)
                self.txn, self.staged = None, {}
            return 'ok', op
        if c == 'mark':
            self.mark = self.k                    # a pack time: just after the newest transaction so far
            return 'ok', 'begin'
        if c == 'pack':
            if self.txn is not None:
                s.tpc_abort(self.txn)
                self.txn, self.staged = None, {}
                pre = ['abort']
            else:
                pre = []
            try:
                if t[1:] == ['mark'] and getattr(self, 'mark', 0):
                    # to a time in the middle of the history: what follows is copied record by record
                    s.pack(TimeStamp(tid_of(self.mark)).timeTime() + 1, referencesf)
                else:
                    s.pack(time.time(), referencesf)
            except Exception as e:
                return 'err:Other(%s)' % type(e).__name__, '\n'.join(pre + ['begin'])
            keep = sorted({u64(r.oid) for tx in s.iterator() for r in tx})
            self.cur = {o: tid for o, tid in self.cur.items() if o in keep}
            self.last_tid = None
            if self.path and os.path.exists(self.path + '.index.prev'):
                os.remove(self.path + '.index.prev')       # a pre-pack index is another story (C09)
            return 'ok', '\n'.join(pre + ['pack ' + (','.join(hex8(o) for o in keep) or '-')])
        if c == 'crash':
            # a crash image with an unfinished tail: the transaction in progress is voted (written with status
            # 'c'), the file is copied at that moment -- optionally torn inside the tail --, and the storage is
            # reopened on that image (saved / stale / no index).  Model: abort + reopen.
            if self.kind != 'file' or self.txn is None or not self.staged:
                return 'ok', 'begin'
            s.tpc_vote(self.txn)
            with open(self.path, 'rb') as f:
                image = f.read()
            s.tpc_abort(self.txn)
            good = os.path.getsize(self.path)
            self.txn, self.staged = None, {}
            s.close()
            if 'torn' in t[1:]:
                image = image[:good + max(1, (len(image) - good) * 2 // 3)]
            with open(self.path, 'wb') as f:
                f.write(image)
            ix, prev = self.path + '.index', self.path + '.index.prev'
            if 'noindex' in t[1:] and os.path.exists(ix):
                os.remove(ix)
            elif 'stale' in t[1:] and os.path.exists(prev):
                shutil.copyfile(prev, ix)
            self.s = self.open()
            return 'ok', 'abort\nreopen'
        if c == 'reopen':
            if self.kind != 'file':
                return 'err:Unsupported', op
            self.txn, self.staged = None, {}
            s.close()
            ix, prev = self.path + '.index', self.path + '.index.prev'
            newer = None
            if os.path.exists(ix):
                with open(ix, 'rb') as f:
                    newer = f.read()
            if t[1:] == ['noindex'] and os.path.exists(ix):
                os.remove(ix)                         # full scan (read_index) instead of _restore_index
            elif t[1:] == ['stale'] and os.path.exists(prev):
                shutil.copyfile(prev, ix)             # index of an earlier close: the rest is scanned
            if newer is not None:
                with open(prev, 'wb') as f:
                    f.write(newer)
            self.s = self.open()
            return 'ok', 'reopen'
        return 'bad-op', op


class RunA:
    """one allocation history on one storage, executed step by step (so that two can be interleaved)"""

    def __init__(self, ops, d):
        shutil.rmtree(d, ignore_errors=True)
        os.makedirs(d)
        self.ops, self.d, self.i = ops, d, 0
        self.r = RealA(d)
        self.obs, self.mops, self.verdicts = [], [], []
        self.issued = set()

    def done(self):
        return self.i >= len(self.ops)

    def step(self):
        r, op = self.r, self.ops[self.i]
        self.i += 1
        c = op.split()[0]
        if c == 'reset' or (c in ('reopen', 'crash') and r.kind == 'file'):
            if not (c == 'crash' and (r.txn is None or not r.staged)):
                self.issued = set()
        before = None
        if c == 'newoid':
            before = present_oids(r.s) | set(r.staged)
            newest = {}
            for tx in r.s.iterator():
                for rec in tx:
                    newest[u64(rec.oid)] = rec.data
        try:
            o, m = r.do(op)
        except InfraError:
            raise
        except Exception as e:
            o, m = 'err:Other(%s)' % type(e).__name__, 'begin'
        self.obs.append(o)
        self.mops.append(m)
        bad = None
        if c == 'newoid' and not o.startswith('err:'):
            oid = int(o, 16)
            if oid in self.issued:
                bad = 'new_oid returned %s, already issued in this open session' % o
            elif oid in before and oid in newest and newest[oid] is None:
                bad = ('new_oid returned %s, an un-created oid: its newest record is an un-creation / deletion, '
                       'its revisions are present' % o)
            elif oid in before:
                bad = 'new_oid returned %s, an oid with a record present (or being written)' % o
            self.issued.add(oid)
        elif c == 'newoid' and o != 'err:Overflow':
            bad = 'new_oid failed with %s' % o
        self.verdicts.append(bad)

    def close(self):
        self.r.close()
        shutil.rmtree(self.d, ignore_errors=True)


def run_real_a(ops, tmp):
    x = RunA(ops, os.path.join(tmp, 'a'))
    try:
        while not x.done():
            x.step()
    finally:
        x.close()
    return x.obs, x.mops, x.verdicts


def run_real_a_pair(ops1, ops2, tmp, rng):
    """two storages alive in one process, their histories interleaved step by step: neither may be
    influenced by the other (class-level or module-level state shared between instances)"""
    x, y = RunA(ops1, os.path.join(tmp, 'a1')), RunA(ops2, os.path.join(tmp, 'a2'))
    try:
        while not (x.done() and y.done()):
            z = rng.choice([q for q in (x, y) if not q.done()])
            z.step()
    finally:
        x.close()
        y.close()
    return (x.obs, x.mops, x.verdicts), (y.obs, y.mops, y.verdicts)


SPECIAL = [0, 1, 2, 3, 0xfe, 0xff, 0x100, 0x101, 0xffff, 0x10000, 0x3030303030303030, 0x4142434445464748,
           2 ** 32, 2 ** 48 - 1, 2 ** 63, TOP - 0x100, TOP - 2, TOP - 1, TOP]


FILE_VARIANTS = ['file', 'file', 'blobfile', 'blobwrap', 'hexfile', 'cfgfile']
MAPPING_VARIANTS = ['mapping', 'mapping', 'hexmapping', 'cfgmapping', 'blobwrapmapping']


def gen_a(rng, kind):
    ops = ['reset %s %s' % (kind, rng.choice(FILE_VARIANTS if kind == 'file' else MAPPING_VARIANTS))]
    known = [0]
    st = dict(committed=set(), staged=set(), deleted=set(), last=set())
    n = rng.choice([6, 12, 25, 40])
    big = rng.random() < 0.25           # this history goes up to the top of the oid space

    def finish():
        ops.append('finish')
        if st['staged']:
            st['committed'] |= st['staged']
            st['last'] = set(st['staged'])
            st['staged'] = set()

    def reopen():
        ops.append('reopen' + rng.choice([' noindex', ' noindex', ' stale', '']))
        st['staged'] = set()
    for _ in range(n):
        r = rng.random()
        if r < 0.35:
            ops.append('newoid')
        elif r < 0.60:
            pool = SPECIAL if big else SPECIAL[:14]
            o = rng.choice([rng.choice(pool), rng.choice(pool) + rng.choice([-1, 1, 2]),
                            rng.randrange(1, 600), rng.choice(known)])
            o = min(max(o, 1), TOP)
            c = 'restore' if (kind == 'file' and rng.random() < 0.4) else 'store'
            ops.append('%s %s%s' % (c, hex8(o), ' ns' if (c == 'store' and rng.random() < 0.35) else ''))
            known.append(o)
            st['staged'].add(o)
        elif r < 0.70:
            if st['staged']:
                finish()
            else:
                ops.append('newoid')
        elif r < 0.76:
            ops.append('abort')
            st['staged'] = set()
        elif r < 0.78 and kind == 'file':
            ops.append('setmax %s' % hex8(rng.choice(SPECIAL[:14] + [rng.randrange(1, 5000)])))
        elif r < 0.785:
            finish()
            ops.append('emptytxn')
        elif r < 0.80 and kind == 'file':
            # records copied in from another storage (copyTransactionsFrom -> restore), arbitrary ids
            finish()
            pool = (SPECIAL if big else SPECIAL[:14]) + [2 ** 63 + 7, 0x8000000000000001, 0x4142434445464749]
            if not big:
                pool = [x for x in pool if x < TOP - 0x200]
            picks = sorted({min(max(rng.choice(pool) + rng.choice([0, 0, 1, 3]), 1), TOP)
                            for _ in range(rng.choice([1, 2, 4]))})
            half = max(1, len(picks) // 2)
            groups = [picks[:half]] + ([picks[half:]] if picks[half:] else [])
            ops.append('copyfrom %s %s' % (rng.choice('mf'), ';'.join(','.join(hex8(x) for x in g) for g in groups)))
            st['committed'] |= set(picks)
            st['last'] = set(groups[-1])
            known.extend(picks)
        elif r < 0.83 and kind == 'file' and (st['committed'] - {0}):
            # un-create an object (preferably the one with the largest oid), or undo the newest transaction
            # (un-creation records for what it created); then often reopen (scan / stale index) and allocate
            finish()
            cand = st['committed'] - {0}
            if rng.random() < 0.75:
                o = max(cand) if rng.random() < 0.6 else rng.choice(sorted(cand))
                ops.append('delete %s' % hex8(o))
                st['deleted'].add(o)
                st['staged'].add(o)
            else:
                ops.append('undolast')
                st['deleted'] |= st['last']
                st['staged'] |= st['last']
            if rng.random() < 0.6:
                finish()
                reopen()
                ops.append('newoid')
        elif r < 0.90:
            # pack with gc: the root keeps a random subset of the committed objects
            finish()
            cand = sorted(st['committed'] - {0} - st['deleted'])
            refs = sorted(rng.sample(cand, min(len(cand), rng.choice([0, 1, 2, 4]))))
            ops.append('storeroot ' + (','.join(hex8(x) for x in refs) or '-'))
            ops.append('finish')
            ops.append('pack')
            st.update(committed={0} | set(refs), staged=set(), deleted=set(), last=set())
        elif kind == 'file' and rng.random() < 0.5:
            reopen()
        elif kind == 'file':
            # crash between vote and finish (or a torn last transaction), then allocate on the reopened file
            if not st['staged']:
                o = rng.choice([rng.randrange(1, 600), max(st['committed'] | {0}) + rng.choice([1, 2, 300])])
                o = min(o, TOP)
                ops.append('store %s' % hex8(o))
                st['staged'].add(o)
            ops.append('crash' + rng.choice(['', ' torn']) + rng.choice(['', ' noindex', ' stale']))
            st['staged'] = set()
            ops.append('newoid')
        else:
            ops.append('newoid')
    if kind == 'file' and rng.random() < 0.2:
        # an object with the largest oid is created after the pack time and its creation undone; the pack (to
        # the mark, freeing an old revision) copies the un-creation record; a later commit, close, reopen with
        # the SAVED (or a stale / no) index: the counter must still cover that oid
        finish()
        a = max(known) + 1                      # the largest oid that stays; the un-created one right above it
        hi = a + rng.choice([1, 1, 2])
        if hi <= TOP:
            ops += ['store %s' % hex8(a), 'finish', 'storeroot %s' % hex8(a), 'finish', 'store %s' % hex8(a), 'finish',
                    'mark', 'store %s' % hex8(hi), 'finish', 'undolast', 'finish', 'pack mark',
                    'store %s' % hex8(a), 'finish', 'reopen' + rng.choice(['', '', ' stale', ' noindex']), 'newoid']
    if kind == 'file' and rng.random() < 0.2:
        # a saved index that is BEHIND the file: the tail scanned on open only rewrites small oids while larger
        # ones exist
        finish()
        small = [hex8(x) for x in range(1, 7)]
        ops += ['store %s' % x for x in small] + ['finish', 'reopen', 'store %s' % small[0], 'finish',
                                                   'store %s' % small[1], 'finish', 'reopen stale', 'newoid']
    ops += ['newoid', 'newoid']
    return ops


def nontrivial_a(ops):
    """history stores/restores an oid above the counter, or reopens"""
    hi = 0
    for op in ops:
        t = op.split()
        if t[0] in ('reopen', 'crash'):
            return True
        if t[0] == 'newoid':
            hi += 1
        if t[0] in ('store', 'restore', 'setmax'):
            o = int(t[1], 16)
            if o > hi:
                if t[0] != 'setmax':
                    return True
                hi = o
    return False


def bytes_cases(rng):
    """BaseStorage.new_oid on chosen 8-byte counters (fast path / carry / overflow)"""
    vals = [0, 1, 0xfe, 0xff, 0x100, 0xffff, 0xfffe, 0xffffff, 2 ** 32 - 1, 2 ** 56 - 1, TOP - 256, TOP - 1,
            TOP, 0x00ff00ff00ff00ff] + [rng.randrange(TOP) | 0xff for _ in range(6)] + \
           [rng.randrange(TOP) for _ in range(6)]
    return vals


def real_bytes(vals):
    from ZODB.BaseStorage import BaseStorage
    out = []
    for v in vals:
        b = BaseStorage('x')
        b._oid = p64(v)
        try:
            out.append(b.new_oid().hex())
        except Exception as e:
            out.append('err:Overflow' if is_overflow(e) else 'err:Other(%s)' % type(e).__name__)
    return out


# ================================================================ B. DemoStorage
class OutOfDrawsB(Exception):
    pass


class SeededDraws:
    """stands in for `random` in ZODB.DemoStorage: scripted draws first, then a seeded generator"""

    def __init__(self, seed):
        self.rng = random.Random(seed)
        self.queue = []

    def randint(self, a, b):
        if self.queue:
            return self.queue.pop(0)
        return self.rng.randint(a, b)


def commit(s, tid, recs=(), undo=None):
    t = TransactionMetaData()
    s.tpc_begin(t, tid)
    for oid, ser, v in recs:
        s.store(p64(oid), ser, pickle_refs(v, []), '', t)
    if undo:
        s.undo(base64.encodebytes(undo).rstrip(b'\n'), t)
    s.tpc_vote(t)
    s.tpc_finish(t)


def run_demo_case(rng, tmp, idx):
    """returns (description of the first bad id or None, ops log, nontrivial)"""
    draws = SeededDraws(rng.randrange(10 ** 9))
    DEMO_MODULE.random = draws
    d = os.path.join(tmp, 'b%d' % idx)
    os.makedirs(d, exist_ok=True)
    log = []
    k = [0]

    def nexttid():
        k[0] += 1
        return tid_of(k[0])
    def mk(kind, name):
        from ZODB.tests.hexstorage import HexStorage
        p = os.path.join(d, name)
        return {'mapping': MappingStorage, 'file': lambda: FileStorage(p, create=True),
                'blobfile': lambda: FileStorage(p, create=True, blob_dir=p + '.blobs'),
                'hexfile': lambda: HexStorage(FileStorage(p, create=True)),
                'hexmapping': lambda: HexStorage(MappingStorage())}[kind]()
    bk = rng.choice(['mapping', 'file', 'blobfile', 'hexfile', 'hexmapping'])
    ck = rng.choice(['mapping', 'file', 'hexfile', None, None, 'cfg'])
    base = mk(bk, 'base.fs')
    base_oids = sorted({rng.choice([1, 2, 3, 50, 51, 52, 2 ** 40, 2 ** 62 - 1, rng.randrange(1, 2 ** 62)])
                        for _ in range(rng.choice([1, 3, 6]))})
    commit(base, nexttid(), [(o, z64, 1) for o in base_oids])
    log.append('base %s oids=%s' % (bk, base_oids))
    draws.queue = [rng.choice(base_oids + [777])]
    if ck == 'cfg' and bk in ('file', 'blobfile'):
        # the whole stack from a configuration section over the closed and reopened base file
        from ZODB.config import storageFromString
        base.close()
        demo = storageFromString(
            '<demostorage>\n <filestorage base>\n path %s\n%s </filestorage>\n <mappingstorage changes/>\n'
            '</demostorage>' % (os.path.join(d, 'base.fs'),
                                (' blob-dir %s\n' % (os.path.join(d, 'base.fs') + '.blobs')) if bk == 'blobfile' else ''))
    else:
        demo = DemoStorage(base=base, changes=(mk(ck, 'changes.fs') if ck not in (None, 'cfg') else None))
    # a second demo storage alive in the same process, over its own base, used in between
    sib_base = MappingStorage()
    commit(sib_base, tid_of(1), [(o, z64, 1) for o in base_oids[:2]])
    draws.queue = [rng.choice(base_oids + [778])]
    sibling = DemoStorage(base=sib_base)
    stack = [demo]
    issued = {id(demo): set()}
    bad = None
    txn = None
    staged = set()
    collided = False
    sib_issued = set()
    try:
        for _ in range(rng.choice([8, 16, 30])):
            top = stack[-1]
            r = rng.random()
            if rng.random() < 0.2:
                try:
                    sib_before = present_oids(sibling)
                    so = sibling.new_oid()
                    if u64(so) in sib_before or u64(so) in sib_issued:
                        bad = ('DemoStorage.new_oid (second storage of the process) returned %d, %s' % (
                            u64(so), 'already issued' if u64(so) in sib_issued else
                            'which has a record in one of its layers'))
                        break
                    sib_issued.add(u64(so))
                    if rng.random() < 0.5:
                        st_ = TransactionMetaData()
                        sibling.tpc_begin(st_)
                        sibling.store(so, z64, pickle_refs(1, []), '', st_)
                        sibling.tpc_vote(st_)
                        sibling.tpc_finish(st_)
                    log.append('sibling')
                except OutOfDrawsB:
                    pass
            if getattr(top, '_temporary_changes', False) and rng.random() < 0.25:
                # the first blob operation makes implicit changes blob-capable (_blobify): the ids handed
                # out so far must stay issued
                try:
                    if rng.random() < 0.5:
                        top.temporaryDirectory()
                    else:
                        top.loadBlob(p64(rng.choice(base_oids)), tid_of(1))
                except Exception:
                    pass              # no such blob / a layer below without blob support
                log.append('blob-op')
            if r < 0.5:
                # propose collisions: ids in either layer, ids already issued, then whatever the seeded generator says
                pres = sorted(present_oids(top))
                coll = []
                for _ in range(rng.choice([0, 0, 1, 2, 3])):
                    src = rng.random()
                    if src < 0.4 and issued[id(top)]:
                        coll.append(rng.choice(sorted(issued[id(top)])))
                    elif pres:
                        coll.append(rng.choice(pres))
                if coll and rng.random() < 0.7:
                    top._next_oid = coll[0]            # the running candidate itself collides
                draws.queue = coll
                collided = collided or bool(coll)
                before = present_oids(top) | staged
                oid = u64(top.new_oid())
                log.append('newoid draws=%s -> %d' % (coll, oid))
                if oid in issued[id(top)]:
                    bad = 'DemoStorage.new_oid returned %d, already issued by this storage' % oid
                elif oid in before:
                    bad = 'DemoStorage.new_oid returned %d, which has a record in one of the layers' % oid
                issued[id(top)].add(oid)
                if bad:
                    break
            elif r < 0.75:
                if txn is None:
                    txn = TransactionMetaData()
                    top.tpc_begin(txn, nexttid())
                    staged = set()
                if rng.random() < 0.4:
                    bo = rng.choice(base_oids)
                    if bo not in staged:
                        top.store(p64(bo), top.load(p64(bo))[1], pickle_refs(bo, []), '', txn)
                        staged.add(bo)
                        log.append('modify base object %d' % bo)
                cand = sorted(issued[id(top)] - present_oids(top) - staged)
                if cand:
                    o = rng.choice(cand)
                    top.store(p64(o), z64, pickle_refs(o, []), '', txn)
                    staged.add(o)
                    log.append('store %d' % o)
            elif r < 0.9:
                if txn is not None:
                    if rng.random() < 0.3:
                        top.tpc_abort(txn)
                        log.append('abort')
                    else:
                        top.tpc_vote(txn)
                        top.tpc_finish(txn)
                        log.append('finish')
                    txn, staged = None, set()
            elif txn is None:
                if len(stack) < 3 and rng.random() < 0.6:
                    draws.queue = [rng.choice(sorted(present_oids(top)) + [4242])]
                    new = top.push()
                    stack.append(new)
                    issued[id(new)] = set()
                    log.append('push')
                elif len(stack) > 1:
                    stack.pop().pop()
                    log.append('pop')
        if not bad and txn is None:
            # the changes storage's OWN allocator (records were stored into it under ids it never issued)
            ch = stack[0].changes
            try:
                chp = present_oids(ch)
                for _ in range(3):
                    o = u64(ch.new_oid())
                    if o in chp:
                        bad = ('the changes storage of the demo storage (%s) handed out id %d, which has a record in it '
                               '(stored through the demo storage with the base object\'s serial)' % (
                                   type(ch).__name__, o))
                        break
            except (struct.error, ValueError, OverflowError):
                pass                  # counter at the top of the oid space
    except InfraError:
        raise
    except Exception as e:
        import traceback
        bad = bad or 'the DemoStorage history raised %s: %s' % (type(e).__name__, traceback.format_exc()[-700:])
    finally:
        for s in reversed(stack + [sibling]):
            try:
                s.close()
            except Exception:
                pass
        shutil.rmtree(d, ignore_errors=True)
    return bad, log, collided


def probe_uncreated_reissue(tmp):
    draws = SeededDraws(1)
    DEMO_MODULE.random = draws
    base = MappingStorage()
    commit(base, tid_of(1), [(51, z64, 2)])
    draws.queue = [50]
    p = os.path.join(tmp, 'pn.fs')
    demo = DemoStorage(base=base, changes=FileStorage(p, create=True))
    first = u64(demo.new_oid())
    commit(demo, tid_of(2), [(first, z64, 7)])
    commit(demo, tid_of(3), undo=tid_of(2))
    draws.queue = [50, 52]
    again = u64(demo.new_oid())
    hist = len(demo.history(p64(50), 9))
    demo.close()
    if again == first:
        return ('DemoStorage.new_oid re-issued oid %d although %d records of it are present (newest is an '
                'un-creation); draw stream scripted' % (again, hist))
    return None


# ================================================================ C. Connection level
class LoggedNewOid:
    def __init__(self, storage):
        self.storage = storage
        self.log = []
        self.orig = storage.new_oid
        storage.new_oid = self

    def __call__(self):
        oid = self.orig()
        self.log.append(u64(oid))
        return oid


def run_conn_case(rng, tmp, idx):
    kind = rng.choice(['file', 'mapping', 'demo-file', 'demo-mapping', 'blobfile', 'hexfile', 'mvcc', 'demo-temp',
                       'demo-push', 'cfgfile'])
    d = os.path.join(tmp, 'c%d' % idx)
    os.makedirs(d, exist_ok=True)
    DEMO_MODULE.random = SeededDraws(rng.randrange(10 ** 9))
    path = os.path.join(d, 'c.fs')

    def make():
        if kind == 'file':
            return FileStorage(path)
        if kind == 'blobfile':
            return FileStorage(path, blob_dir=path + '.blobs')
        if kind == 'hexfile':
            from ZODB.tests.hexstorage import HexStorage
            return HexStorage(FileStorage(path))
        if kind == 'cfgfile':
            from ZODB.config import storageFromString
            return storageFromString('<filestorage>\n path %s\n blob-dir %s.blobs\n</filestorage>' % (path, path))
        if kind == 'mapping':
            return MappingStorage()
        if kind == 'mvcc':
            from ZODB.tests.MVCCMappingStorage import MVCCMappingStorage
            return MVCCMappingStorage()
        base = FileStorage(os.path.join(d, 'base.fs')) if kind == 'demo-file' else MappingStorage()
        if not len(base):
            db0 = ZODB.DB(base)
            c0 = db0.open()
            for i in range(4):
                c0.root()['b%d' % i] = MinPO(i)
            transaction.commit()
            c0.close()
            db0.close()
            base = FileStorage(os.path.join(d, 'base.fs')) if kind == 'demo-file' else base
        if kind != 'demo-file':
            base._opened = True
        if kind == 'demo-temp':
            return DemoStorage(base=base)                       # implicit changes, made blob-capable on demand
        if kind == 'demo-push':
            return DemoStorage(base=base, changes=MappingStorage()).push()
        return DemoStorage(base=base, changes=FileStorage(path))
    bad = None
    steps = []
    file_like = kind in ('file', 'blobfile', 'hexfile', 'cfgfile')
    blobs = kind in ('blobfile', 'cfgfile', 'demo-temp', 'demo-push')
    exported = [None]
    # an export file from ANOTHER database: its oids overlap with those of exports made here
    import io
    fdb = ZODB.DB(MappingStorage())
    ftm = transaction.TransactionManager()
    fconn = fdb.open(ftm)
    fconn.root()['t'] = MinPO(MinPO('foreign'))
    ftm.commit()
    fbuf = io.BytesIO()
    fconn.exportFile(fconn.root()['t']._p_oid, fbuf)
    foreign = fbuf.getvalue()
    fconn.close()
    fdb.close()
    try:
        st = make()
        lg = LoggedNewOid(st)
        db = ZODB.DB(st)
        tm = transaction.TransactionManager()
        conn = db.open(tm)
        tm2 = transaction.TransactionManager()
        conn2 = db.open(tm2)                  # a second connection on the same database
        seen = 0
        issued = set()
        present = present_oids(st)
        n = 0

        def commit1():
            try:
                tm.commit()
            except POSException.ConflictError:       # the other connection changed the root in between
                tm.abort()

        def check(where):
            nonlocal seen, bad
            for oid in lg.log[seen:]:
                if oid in issued:
                    bad = bad or '%s: storage.new_oid returned %d twice in one session (%s)' % (kind, oid, where)
                if oid in present:
                    bad = bad or '%s: storage.new_oid returned %d, an oid with a record present (%s)' % (
                        kind, oid, where)
                issued.add(oid)
            seen = len(lg.log)
        for _ in range(rng.choice([6, 12, 20])):
            r = rng.random()
            n += 1
            root = conn.root()
            try:
                if r < 0.22:
                    o = MinPO(n)
                    root['k%d' % rng.randrange(6)] = o
                    if rng.random() < 0.5:
                        conn.add(o)                     # Connection.add -> new_oid right away
                    steps.append('add')
                elif r < 0.26:
                    conn.new_oid()                      # an id taken directly (never stored)
                    steps.append('new_oid')
                elif r < 0.31:
                    # two imports in ONE transaction, the second from another database (overlapping exported oids)
                    commit1()
                    check('commit')
                    present = present_oids(st)
                    local = MinPO(MinPO('local-%d' % n))
                    root['exp'] = local
                    commit1()
                    check('commit')
                    present = present_oids(st)
                    if local._p_oid is not None:
                        lb = io.BytesIO()
                        conn.exportFile(local._p_oid, lb)
                        a = conn.importFile(io.BytesIO(lb.getvalue()))
                        b = conn.importFile(io.BytesIO(foreign))
                        root['impA'], root['impB'] = a, b
                        check('double-import')
                        commit1()
                        check('commit')
                        present = present_oids(st)
                        conn.cacheMinimize()
                        ra, rb = root.get('impA'), root.get('impB')
                        if ra is not None and rb is not None:
                            # (a mixed-up import can hand back trees of another shape: never assume it)
                            ids = [getattr(x, '_p_oid', None) for x in
                                   (ra, getattr(ra, 'value', None), rb, getattr(rb, 'value', None))]
                            if None in ids:
                                bad = bad or ('%s: after two imports in one transaction an imported tree no longer '
                                              'has the shape that was exported (%r / %r)' % (
                                                  kind, getattr(ra, 'value', None), getattr(rb, 'value', None)))
                            elif len(set(ids)) != 4:
                                bad = bad or ('%s: two imports in one transaction (exports of two databases with '
                                              'overlapping oids) gave their objects the same ids %s' % (
                                                  kind, [u64(x) for x in ids]))
                            elif getattr(ra.value, 'value', None) != 'local-%d' % n or \
                                    getattr(rb.value, 'value', None) != 'foreign':
                                bad = bad or '%s: an imported tree reads back as the other one' % kind
                    steps.append('double-import')
                elif r < 0.36:
                    # the other connection adds and commits in between
                    tm2.begin()
                    o2 = MinPO(n)
                    conn2.root()['c2-%d' % rng.randrange(4)] = o2
                    conn2.add(o2)
                    check('conn2-add')
                    try:
                        tm2.commit()
                    except POSException.ConflictError:
                        tm2.abort()
                    check('conn2-commit')
                    present = present_oids(st)
                    steps.append('conn2')
                elif r < 0.40 and blobs:
                    from ZODB.blob import Blob
                    b = Blob()
                    with b.open('w') as f:
                        f.write(b'blob %d' % n)
                    root['blob%d' % rng.randrange(3)] = b   # the storage's first blob operations happen here
                    steps.append('blob')
                elif r < 0.48:
                    root['k%d' % rng.randrange(6)] = MinPO(MinPO(n))
                    sp = tm.savepoint()                 # ids issued while a savepoint (TmpStore) is active
                    o = MinPO(n)
                    root['s%d' % rng.randrange(3)] = o
                    if rng.random() < 0.5:
                        conn.add(o)
                    if exported[0] is not None and rng.random() < 0.5:
                        import io                       # importFile inside the transaction, after a savepoint
                        root['simp%d' % rng.randrange(3)] = conn.importFile(io.BytesIO(exported[0]))
                        check('import-after-savepoint')
                    tm.savepoint()
                    if rng.random() < 0.5:
                        sp.rollback()
                    steps.append('savepoint')
                elif r < 0.65:
                    commit1()
                    check('commit')                     # ids are judged against what was present when issued
                    present = present_oids(st)
                    steps.append('commit')
                elif r < 0.75:
                    tm.abort()
                    steps.append('abort')
                elif r < 0.88:
                    commit1()
                    check('commit')
                    present = present_oids(st)
                    keys = [k for k in root.keys()]
                    if keys:
                        import io
                        f = io.BytesIO()
                        conn.exportFile(root[rng.choice(keys)]._p_oid, f)
                        exported[0] = f.getvalue()
                        f.seek(0)
                        root['imp%d' % rng.randrange(3)] = conn.importFile(f)   # import path: new ids
                        check('import')
                        commit1()
                        check('commit')
                    present = present_oids(st)
                    steps.append('export-import')
                elif file_like:
                    tm.abort()
                    tm2.abort()
                    conn.close()
                    conn2.close()
                    db.close()
                    exported[0] = None
                    st = make()
                    lg = LoggedNewOid(st)
                    seen = 0
                    issued = set()
                    present = present_oids(st)
                    db = ZODB.DB(st)
                    conn = db.open(tm)
                    conn2 = db.open(tm2)
                    steps.append('reopen')
            except POSException.ConflictError:
                # the two connections touched the same object: not this check's business
                tm.abort()
                tm2.abort()
                steps.append('conflict')
            check(steps[-1] if steps else '')
            if bad:
                break
        tm.abort()
        tm2.abort()
        conn.close()
        conn2.close()
        db.close()
    finally:
        shutil.rmtree(d, ignore_errors=True)
    return bad, dict(kind=kind, steps=steps), 'reopen' in steps or kind.startswith('demo')


# ================================================================ D. concurrency
def line_tracer(names):
    import sched

    def local(frame, event, arg):
        if event == 'line':
            s = sched._current
            if s is not None:
                s.yield_point('line', '%s:%d' % (frame.f_code.co_name, frame.f_lineno))
        return local

    def tracer(frame, event, arg):
        if event == 'call' and frame.f_code.co_name in names and '/ZODB/' in frame.f_code.co_filename:
            return local
        return None
    return tracer


def run_sched_case(rng, tmp, idx, kind, nthreads, per, seed, schedule=None):
    import sched
    d = os.path.join(tmp, 'd%d' % idx)
    os.makedirs(d, exist_ok=True)
    DEMO_MODULE.random = SeededDraws(seed)
    try:
        with sched.installed():
            if kind == 'file':
                st = FileStorage(os.path.join(d, 'd.fs'), create=True)
            elif kind == 'mapping':
                st = MappingStorage()
            else:
                base = MappingStorage()
                commit(base, tid_of(1), [(o, z64, 1) for o in (1, 2, 3)])
                st = DemoStorage(base=base, changes=MappingStorage())
                st._next_oid = 1
            s = sched.Scheduler(seed=seed, schedule=schedule)
            tracer = line_tracer(('new_oid', 'set_max_oid', 'store'))
            results = {}
            events = []                   # ('i', id) after new_oid returned, ('s', oid) after store returned
            far = seed % 2 == 0
            nstores = (2 if far else 4) if kind != 'demo' else 0
            stored = []

            def alloc(name):
                sys.settrace(tracer)
                try:
                    results[name] = []
                    for _ in range(per):
                        called_at = len(events)          # position in the log when new_oid was CALLED
                        o = u64(st.new_oid())
                        results[name].append(o)
                        events.append(('i', o, called_at))
                finally:
                    sys.settrace(None)

            def committer():
                sys.settrace(tracer)
                try:
                    for i in range(nstores):
                        # a record copied in with an id far above, or just above, what has been handed out
                        o = 1000 * (i + 1) if far else max([e[1] for e in events] + [0]) + 2
                        stored.append(o)
                        t = TransactionMetaData()
                        st.tpc_begin(t, tid_of(10 + i))
                        st.store(p64(o), z64, pickle_refs(o, []), '', t)
                        events.append(('s', o))
                        st.tpc_vote(t)
                        st.tpc_finish(t)
                finally:
                    sys.settrace(None)
            for i in range(nthreads):
                s.spawn('a%d' % i, alloc, 'a%d' % i)
            if nstores:
                s.spawn('c', committer)
            res = s.run(timeout=60)
            st.close()
    finally:
        shutil.rmtree(d, ignore_errors=True)
    if res['deadlock'] or res['errors']:
        raise InfraError('scheduler run failed: deadlock=%s errors=%r' % (res['deadlock'], res['errors']))
    ids = [o for v in results.values() for o in v]
    bad = None
    if len(set(ids)) != len(ids):
        dup = sorted({o for o in ids if ids.count(o) > 1})
        bad = '%s: concurrent new_oid callers received the same id(s) %s' % (kind, dup[:5])
    else:
        # an id is wrong only if the store of that oid had RETURNED before new_oid was CALLED (an allocation
        # whose increment happened before the store, but whose return is logged after it, issued a fresh id:
        # the committer then chose an id that was already on its way out)
        stored_at = {}
        for pos, e in enumerate(events):
            if e[0] == 's':
                stored_at.setdefault(e[1], pos)
        late = [e[1] for e in events if e[0] == 'i' and e[1] in stored_at and stored_at[e[1]] < e[2]]
        if late or (kind == 'demo' and set(ids) & {1, 2, 3}):
            bad = '%s: an id handed to a concurrent caller identifies an object stored before: %s' % (
                kind, sorted(set(late) | (set(ids) & {1, 2, 3} if kind == 'demo' else set())))
    return bad, dict(kind=kind, threads=nthreads, per=per, seed=seed, schedule=res['decisions']), len(res['decisions'])


def probe_store_race(kind, tmp, op='store', whole_commit=False):
    """directed: the committer is suspended at the n-th line (n = 1, 2, ...) of store()/restore()/set_max_oid()
    -- with whole_commit also of tpc_vote()/tpc_finish()/_finish() -- while an allocator thread makes three
    new_oid calls (if it is blocked by the storage lock the committer goes on after a short wait); the record
    has an oid two above the counter.  [P] the allocator never receives an id twice, nor -- after store() has
    returned -- the stored oid."""
    import ZODB.blob
    from ZODB.tests.hexstorage import HexStorage
    d = os.path.join(tmp, 'sr')
    bad = None
    points = 0
    names = ('store', 'restore', 'set_max_oid') + (
        ('tpc_vote', 'tpc_finish', '_finish', '_finish_finish') if whole_commit else ())
    for n in range(1, 140):
        shutil.rmtree(d, ignore_errors=True)
        os.makedirs(d)
        p = os.path.join(d, 's.fs')
        st = {'file': lambda: FileStorage(p, create=True), 'mapping': MappingStorage,
              'hexfile': lambda: HexStorage(FileStorage(p, create=True)),
              'hexmapping': lambda: HexStorage(MappingStorage()),
              'blobwrap': lambda: ZODB.blob.BlobStorage(p + '.b', FileStorage(p, create=True))}[kind]()
        got = [u64(st.new_oid()) for _ in range(5)]
        o = max(got) + 2
        go, done = threading.Event(), threading.Event()
        after = []
        hit = [0, False]

        def allocator():
            go.wait(10)
            for _ in range(3):
                after.append(u64(st.new_oid()))
            done.set()

        def local(frame, event, arg):
            if event == 'line':
                hit[0] += 1
                if hit[0] == n:
                    hit[1] = True
                    go.set()
                    done.wait(0.03)
            return local

        def tracer(frame, event, arg):
            if event == 'call' and frame.f_code.co_name in names and '/ZODB/' in frame.f_code.co_filename:
                return local
            return None
        th = threading.Thread(target=allocator)
        th.start()
        t = TransactionMetaData()
        st.tpc_begin(t, tid_of(1))
        sys.settrace(tracer)
        try:
            if op == 'restore':
                st.restore(p64(o), tid_of(1), pickle_refs(1, []), '', None, t)
            else:
                st.store(p64(o), z64, pickle_refs(1, []), '', t)
            before_return = list(after)
            st.tpc_vote(t)
            st.tpc_finish(t)
        finally:
            sys.settrace(None)
        go.set()
        th.join(10)
        later = [u64(st.new_oid()) for _ in range(3)]
        st.close()
        ids = got + after + later
        if len(set(ids)) != len(ids):
            bad = ('%s: %s(oid %d) / commit suspended at traced line %d while another thread allocated: ids %s were '
                   'handed out twice (%s)' % (kind, op, o, n, sorted({x for x in ids if ids.count(x) > 1}), ids))
        elif o in after[len(before_return):] + later:
            bad = '%s: id %d was handed out after a record with that oid had been stored' % (kind, o)
        if bad or not hit[1]:
            break
        points += 1
    shutil.rmtree(d, ignore_errors=True)
    return bad, points


def probe_demo_commit_lines(tmp):
    """directed: client A commits an object under an id X it was issued; it is suspended at every line of
    DemoStorage.store/tpc_vote/tpc_finish and of the changes storage's tpc_finish in turn while client B calls
    new_oid() and its re-draw proposes X: X is always either still issued or already loadable."""
    bad = None
    points = 0
    for n in range(1, 120):
        draws = SeededDraws(5)
        DEMO_MODULE.random = draws
        base = MappingStorage()
        commit(base, tid_of(1), [(101, z64, 1)])
        draws.queue = [100]
        demo = DemoStorage(base=base, changes=MappingStorage())
        x = u64(demo.new_oid())
        got = []
        go, done = threading.Event(), threading.Event()
        hit = [0, False]

        def client_b():
            go.wait(10)
            draws.queue = [x, 8000]
            got.append(u64(demo.new_oid()))
            done.set()

        def local(frame, event, arg):
            if event == 'line':
                hit[0] += 1
                if hit[0] == n:
                    hit[1] = True
                    go.set()
                    done.wait(0.03)
            return local

        def tracer(frame, event, arg):
            if event == 'call' and frame.f_code.co_name in ('store', 'tpc_vote', 'tpc_finish') \
                    and '/ZODB/' in frame.f_code.co_filename:
                return local
            return None
        th = threading.Thread(target=client_b)
        th.start()
        t = TransactionMetaData()
        demo.tpc_begin(t, tid_of(3))
        sys.settrace(tracer)
        try:
            demo.store(p64(x), z64, pickle_refs(1, []), '', t)
            demo.tpc_vote(t)
            demo.tpc_finish(t)
        finally:
            sys.settrace(None)
        go.set()
        th.join(10)
        demo.close()
        if got and got[0] == x:
            bad = ('DemoStorage: id %d, issued to client A and being committed (suspended at traced line %d of its '
                   'store/vote/finish), was handed to client B by new_oid()' % (x, n))
        if bad or not hit[1]:
            break
        points += 1
    return bad, points


class HookedChanges(MappingStorage):
    """a changes storage whose tpc_finish lets another client run first (as one waiting for the disk would)"""
    before_finish = None

    def tpc_finish(self, transaction, func=lambda tid: None):
        if self.before_finish is not None:
            hook, self.before_finish = self.before_finish, None
            hook()
        return MappingStorage.tpc_finish(self, transaction, func)


def probe_blobify_keeps_issued(tmp):
    """directed: an id is issued (Connection.add), then the storage's first blob operation happens, then the
    running candidate collides and the scripted re-draw proposes the issued id again"""
    draws = SeededDraws(4)
    DEMO_MODULE.random = draws
    base = MappingStorage()
    commit(base, tid_of(1), [(1, z64, 1), (201, z64, 1)])
    bad = None
    for how in ('temporaryDirectory', 'loadBlob', 'storeBlob'):
        draws.queue = [200]
        demo = DemoStorage(base=base, close_base_on_close=False)      # implicit (temporary) changes
        x = u64(demo.new_oid())                                       # 200; the next candidate 201 is in the base
        if how == 'temporaryDirectory':
            demo.temporaryDirectory()
        elif how == 'loadBlob':
            try:
                demo.loadBlob(p64(1), tid_of(1))
            except Exception:
                pass
        else:
            import ZODB.blob
            t = TransactionMetaData()
            demo.tpc_begin(t, tid_of(5))
            fn = os.path.join(tmp, 'blobify-up')
            with open(fn, 'wb') as f:
                f.write(b'x')
            try:
                demo.storeBlob(p64(300), z64, zodb_pickle(ZODB.blob.Blob()), fn, '', t)
                demo.tpc_vote(t)
                demo.tpc_finish(t)
            except Exception:
                demo.tpc_abort(t)
        draws.queue = [x, 7000]
        again = u64(demo.new_oid())
        demo.close()
        if again == x:
            bad = ('DemoStorage (implicit changes): id %d was issued, then the first blob operation (%s) made the '
                   'changes blob-capable, and new_oid() handed the same id out again' % (x, how))
            break
    return bad


def probe_mvccmapping_instance_store():
    """MVCCMappingStorage (bundled in ZODB.tests, used by DB as an IMVCCStorage): new_instance() shares
    new_oid with the main storage but store() through an instance raises the INSTANCE's counter"""
    from ZODB.tests.MVCCMappingStorage import MVCCMappingStorage
    main = MVCCMappingStorage()
    inst = main.new_instance()
    t = TransactionMetaData()
    inst.tpc_begin(t)
    inst.store(p64(3), z64, pickle_refs(1, []), '', t)
    inst.tpc_vote(t)
    inst.tpc_finish(t)
    got = [u64(inst.new_oid()) for _ in range(4)]
    if 3 in got:
        return ('MVCCMappingStorage: a record with oid 3 stored through an instance (new_instance()), then new_oid() '
                'returned %s: the instance raised its own counter, new_oid uses the main storage\'s' % got)
    return None


def probe_mvccmapping_instances_disjoint():
    """MVCCMappingStorage: the instances handed to concurrently open connections allocate from ONE sequence"""
    from ZODB.tests.MVCCMappingStorage import MVCCMappingStorage
    main = MVCCMappingStorage()
    i1, i2 = main.new_instance(), main.new_instance()
    got = [u64(x.new_oid()) for x in (i1, i2, i1, main, i2, i1)]
    i3 = main.new_instance()
    got += [u64(i3.new_oid()), u64(i2.new_oid())]
    if len(set(got)) != len(got):
        return ('MVCCMappingStorage: ids allocated through the main storage and three of its instances '
                '(new_instance()) are not disjoint: %s' % got)
    return None


def probe_double_import(tmp):
    """directed: two importFile() calls in ONE transaction -- also after a savepoint --, the second file exported
    from another database whose oids overlap with the first file's: every imported object gets an id of its own
    and each tree reads back as itself"""
    import io

    def export_of(value):
        db = ZODB.DB(MappingStorage())
        tm = transaction.TransactionManager()
        c = db.open(tm)
        c.root()['t'] = MinPO(MinPO(value))
        tm.commit()
        f = io.BytesIO()
        c.exportFile(c.root()['t']._p_oid, f)
        c.close()
        db.close()
        return f.getvalue()
    fa, fb = export_of('tree-a'), export_of('tree-b')       # same exported oids (1, 2) in both files
    bad = None
    for kind in ('mapping', 'file'):
        for savepoint in (False, True):
            st = MappingStorage() if kind == 'mapping' else FileStorage(os.path.join(tmp, 'di.fs'), create=True)
            db = ZODB.DB(st)
            tm = transaction.TransactionManager()
            c = db.open(tm)
            c.root()['x'] = MinPO(0)
            tm.commit()
            a = c.importFile(io.BytesIO(fa))
            if savepoint:
                tm.savepoint()
            b = c.importFile(io.BytesIO(fb))
            c.root()['a'], c.root()['b'] = a, b
            tm.commit()
            c.cacheMinimize()
            ra, rb = c.root()['a'], c.root()['b']
            ids = [u64(x) for x in (ra._p_oid, ra.value._p_oid, rb._p_oid, rb.value._p_oid)]
            if len(set(ids)) != 4:
                bad = ('%s: two imports in one transaction%s (exports of two databases with overlapping oids) gave '
                       'their objects the same ids %s' % (kind, ' (savepoint in between)' if savepoint else '', ids))
            elif (ra.value.value, rb.value.value) != ('tree-a', 'tree-b'):
                bad = '%s: after two imports in one transaction a tree reads back as %r / %r' % (
                    kind, ra.value.value, rb.value.value)
            c.close()
            db.close()
            if bad:
                return bad
    return None


def probe_finish_window(tmp):
    """directed: while client A's tpc_finish is on its way into the changes storage, client B calls new_oid()
    and its re-draw proposes the id A is just committing.  It must be either still issued or already stored."""
    draws = SeededDraws(3)
    DEMO_MODULE.random = draws
    base = MappingStorage()
    commit(base, tid_of(1), [(1, z64, 1)])
    draws.queue = [100]
    changes = HookedChanges()
    demo = DemoStorage(base=base, changes=changes)
    commit(demo, tid_of(2), [(101, z64, 1)])          # a record copied in: occupies the candidate after X
    x = u64(demo.new_oid())                           # X = 100
    got = []
    done = threading.Event()

    def client_b():
        draws.queue = [x, 5000]
        got.append(u64(demo.new_oid()))
        done.set()
    th = threading.Thread(target=client_b)

    def hook():
        th.start()
        done.wait(0.3)                                # B blocked by the storage lock: go on
    t = TransactionMetaData()
    demo.tpc_begin(t, tid_of(3))
    demo.store(p64(x), z64, pickle_refs(1, []), '', t)
    demo.tpc_vote(t)
    changes.before_finish = hook
    demo.tpc_finish(t)
    th.join(10)
    demo.close()
    if got and got[0] == x:
        return ('DemoStorage: id %d, issued to client A and being committed by its tpc_finish, was handed to '
                'client B by a concurrent new_oid() (it was neither in the issued set nor loadable)' % x)
    return None


def run_plain_threads(kind, tmp, nthreads=6, per=400):
    d = os.path.join(tmp, 'pt')
    os.makedirs(d, exist_ok=True)
    old = sys.getswitchinterval()
    sys.setswitchinterval(1e-6)
    try:
        DEMO_MODULE.random = SeededDraws(7)
        if kind == 'file':
            st = FileStorage(os.path.join(d, 'p.fs'), create=True)
        elif kind == 'mapping':
            st = MappingStorage()
        else:
            st = DemoStorage()
        res = [[] for _ in range(nthreads)]
        go = threading.Event()

        def w(i):
            go.wait()
            res[i] = [st.new_oid() for _ in range(per)]
        ts = [threading.Thread(target=w, args=(i,)) for i in range(nthreads)]
        for t in ts:
            t.start()
        go.set()
        for t in ts:
            t.join()
        st.close()
    finally:
        sys.setswitchinterval(old)
        shutil.rmtree(d, ignore_errors=True)
    ids = [o for v in res for o in v]
    if len(set(ids)) != len(ids):
        return '%s: %d threads x %d new_oid calls produced %d duplicates' % (
            kind, nthreads, per, len(ids) - len(set(ids)))
    return None


# ================================================================ main
def shrink_a(tmp, ops):
    def fails(sub):
        sub = [ops[0]] + [o for o in sub if not o.startswith('reset')]
        _, _, v = run_real_a(sub, tmp)
        return any(v)
    keep = [ops[0]] + [o for o in ddmin(ops[1:], fails, max_tests=200) if not o.startswith('reset')]
    obs, _, v = run_real_a(keep, tmp)
    if not any(v):
        return None
    i = [j for j, x in enumerate(v) if x][0]
    return keep[:i + 1], obs[:i + 1], v[i]


def main(argv=None):
    ck = Check('C20', argv)
    ck.extra['modules'] = ['Props.C20', 'Drivers.Oid']
    ck.run_gate(ck.extra['modules'], ['Props.C20'])
    rng = ck.rng
    quick = not ck.thorough
    nA, nB, nC, nD = (200, 60, 40, 100) if quick else (10000, 1500, 500, 5000)
    only = None
    cases_a = []
    seeds_b, seeds_c, sched_cases = [], [], []
    if ck.replay_path:
        with open(ck.replay_path) as f:
            case = json.load(f).get('case') or {}
        only = case.get('section', 'A')
        nA = nB = nC = nD = 0
        if only == 'A':
            cases_a = [case['ops']]
        elif only == 'B':
            seeds_b = [case['seed']]
        elif only == 'C':
            seeds_c = [case['seed']]
        elif only == 'D' and not case.get('plain'):
            sched_cases = [case]
    # ---- A
    corpus = []
    cdir = os.path.join(os.path.dirname(os.path.dirname(os.path.abspath(__file__))), 'corpus', 'C20')
    for fn in sorted(os.listdir(cdir)) if os.path.isdir(cdir) else []:
        if fn.endswith('.json'):
            with open(os.path.join(cdir, fn)) as f:
                corpus.append(json.load(f)['ops'])
    if not ck.replay_path:
        cases_a += corpus
    for i in range(nA):
        cases_a.append(gen_a(rng, 'file' if i % 2 == 0 else 'mapping'))
    # half of the generated histories run in pairs: two storages alive at once, steps interleaved
    real_runs = []
    i = 0
    while i < len(cases_a):
        if i >= len(cases_a) - nA and i + 1 < len(cases_a) and (i // 2) % 2 == 0:
            a, b = run_real_a_pair(cases_a[i], cases_a[i + 1], ck.tmp, rng)
            real_runs += [a, b]
            ck.count('A:interleaved-pairs')
            i += 2
        else:
            real_runs.append(run_real_a(cases_a[i], ck.tmp))
            i += 1
    bvals = bytes_cases(rng) if (only in (None, 'A')) else []
    model_lines = []
    for (obs, mops, v) in real_runs:
        for m in mops:
            model_lines += m.split('\n')
    model_lines += ['newoidbytes ' + hex8(v) for v in bvals]
    model_out = run_driver('Oid', model_lines) if model_lines else []
    pos = 0
    for ops, (obs, mops, v) in zip(cases_a, real_runs):
        mo = []
        for m in mops:
            k = len(m.split('\n'))
            mo.append(model_out[pos + k - 1])
            pos += k
        ck.count('A:variant:' + ops[0].split()[-1])
        for op in ops:
            ck.count('A:op:' + op.split()[0])
        for o in obs:
            if o.startswith('err:'):
                ck.count('A:' + o)
        nt = nontrivial_a(ops)
        ck.case(ops, nt, sample=dict(section='A', ops=ops[:14], real=obs[:14]) if nt else None)
        if any(v):
            sm = shrink_a(ck.tmp, ops) or (ops, obs, [x for x in v if x][0])
            kind = ops[0].split()[1]
            ck.violation('C20:file-reopen-uncreated-oid-reissued' if 'an un-created oid' in sm[2] else
                         'C20:%s-new-oid-collision' % kind if 'new_oid returned' in sm[2] else 'C20:%s-failure' % kind,
                         sm[2], dict(section='A', ops=sm[0], real=sm[1]))
        elif obs != mo:
            j = [k for k in range(len(ops)) if obs[k] != mo[k]][0]
            ck.mismatch('model/impl differ at op %d %r: impl %s model %s' % (j, ops[j], obs[j], mo[j]),
                        dict(section='A', ops=ops[:j + 1], real=obs[:j + 1], model=mo[:j + 1]))
    if bvals:
        rb = real_bytes(bvals)
        mb = model_out[pos: pos + len(bvals)]
        for v, a, b in zip(bvals, rb, mb):
            ck.case(['newoidbytes', v], v % 256 == 255, None)
            want = hex8(v + 1) if v < TOP else 'err:Overflow'
            if a != want:
                ck.violation('C20:base-new-oid-increment', 'BaseStorage.new_oid on counter %s returned %s, '
                             'expected %s' % (hex8(v), a, want), dict(section='A', ops=['newoidbytes ' + hex8(v)]))
            elif a != b:
                ck.mismatch('newOidBytes %s: impl %s model %s' % (hex8(v), a, b), dict(section='A', value=v))
    # ---- B
    seeds_b += [rng.randrange(10 ** 12) for _ in range(nB)]
    for i, cseed in enumerate(seeds_b):
        bad, log, nt = run_demo_case(random.Random(cseed), ck.tmp, i)
        ck.count('B:cases')
        ck.case(['B', log], nt, sample=dict(section='B', log=log[:10]) if i == 0 else None)
        if bad:
            ck.violation('C20:demo-new-oid-collision', bad, dict(section='B', seed=cseed, log=log[-12:]))
    if only in (None, 'probe'):
        bad = probe_uncreated_reissue(ck.tmp)
        ck.count('probe:uncreated-reissue')
        ck.extra.setdefault('coverage', {})['excluded_points'] = {
            'adversarial draw proposing an oid whose newest record is an un-creation': bad or 'not reproduced'}
        if bad:
            ck.violation('C20:new-oid-uncreated-reissued', bad, dict(section='probe'))
    # ---- C
    seeds_c += [rng.randrange(10 ** 12) for _ in range(nC)]
    for i, cseed in enumerate(seeds_c):
        bad, info, nt = run_conn_case(random.Random(cseed), ck.tmp, i)
        ck.count('C:' + info['kind'])
        for s in info['steps']:
            ck.count('C:step:' + s)
        ck.case(['C', info], nt, sample=dict(section='C', **info) if i == 0 else None)
        if bad:
            ck.violation('C20:connection-new-oid-collision', bad, dict(section='C', seed=cseed, **info))
    # ---- D
    steps_total = 0
    for i in range(nD):
        sched_cases.append(dict(kind=['file', 'mapping', 'demo'][i % 3], threads=rng.choice([2, 3, 4]),
                                per=rng.choice([2, 3, 5]), seed=rng.randrange(10 ** 9), schedule=None))
    for i, sc in enumerate(sched_cases):
        kind = sc['kind']
        bad, info, steps = run_sched_case(rng, ck.tmp, i, kind, sc['threads'], sc['per'], sc['seed'],
                                          schedule=sc.get('schedule'))
        steps_total += steps
        ck.count('D:schedules:' + kind)
        ck.case(['D', info['kind'], info['threads'], info['per'], info['schedule']], True, None)
        if bad:
            ck.violation('C20:%s-concurrent-new-oid' % kind, bad, dict(section='D', **info))
    if only is None or only == 'D-probes':
        for kind, op, whole in (('file', 'store', True), ('mapping', 'store', True), ('file', 'restore', False),
                                ('hexfile', 'store', False), ('hexmapping', 'store', False),
                                ('blobwrap', 'restore', False)):
            bad, points = probe_store_race(kind, ck.tmp, op, whole)
            ck.count('D:store-race-suspension-points:%s:%s' % (kind, op), points)
            ck.case(['D-store-race', kind, op, points], True, None)
            if bad:
                ck.violation('C20:%s-concurrent-new-oid' % ('mapping' if 'mapping' in kind else 'file'),
                             'store vs allocator: ' + bad,
                             dict(section='D-probes', probe='store-race', kind=kind))
        bad, points = probe_demo_commit_lines(ck.tmp)
        ck.count('D:demo-commit-suspension-points', points)
        ck.case(['D-demo-commit-lines', points], True, None)
        if bad:
            ck.violation('C20:demo-concurrent-new-oid', bad, dict(section='D-probes', probe='demo-commit-lines'))
        bad = probe_blobify_keeps_issued(ck.tmp)
        ck.count('probe:blobify-keeps-issued')
        ck.case(['probe-blobify'], True, None)
        if bad:
            ck.violation('C20:demo-new-oid-collision', bad, dict(section='D-probes', probe='blobify'))
        bad = probe_mvccmapping_instance_store()
        ck.count('probe:mvccmapping-instance-store:' + ('reissued' if bad else 'ok'))
        ck.extra.setdefault('coverage', {}).setdefault('excluded_points', {})[
            'MVCCMappingStorage instance store then new_oid'] = bad or 'no id re-issued'
        sig = 'C20:mvccmapping-instance-store-oid-reissued'
        if bad and any(re.fullmatch(k['signature'], sig) for k in ck.known):
            # reported to the coordinator; counted as a violation once it is recorded (open: KNOWN-FINDING,
            # fixed: regression) -- until then an evidence note only
            ck.violation(sig, bad, dict(section='D-probes', probe='mvccmapping'))
        bad = probe_mvccmapping_instances_disjoint()
        ck.count('probe:mvccmapping-instances-disjoint')
        ck.case(['probe-mvcc-disjoint'], True, None)
        if bad:
            ck.violation('C20:mvccmapping-instances-not-disjoint', bad, dict(section='D-probes', probe='mvcc-disjoint'))
        bad = probe_double_import(ck.tmp)
        ck.count('probe:double-import')
        ck.case(['probe-double-import'], True, None)
        if bad:
            ck.violation('C20:connection-new-oid-collision', bad, dict(section='D-probes', probe='double-import'))
        bad = probe_finish_window(ck.tmp)
        ck.count('D:finish-window-probe')
        ck.case(['D-finish-window'], True, None)
        if bad:
            ck.violation('C20:demo-concurrent-new-oid', bad, dict(section='D-probes', probe='finish-window'))
    if only is None or (only == 'D' and not sched_cases):
        for kind in ('file', 'mapping', 'demo'):
            bad = run_plain_threads(kind, ck.tmp, per=300 if quick else 3000)
            ck.count('D:plain-threads:' + kind)
            if bad:
                ck.violation('C20:%s-concurrent-new-oid' % kind, 'plain threads: ' + bad,
                             dict(section='D', plain=True, kind=kind))
    ck.extra.setdefault('coverage', {})['scheduler_decisions'] = steps_total
    ck.finish(
        rule='A: seeded allocation histories on FileStorage/MappingStorage (oids small, large, ASCII, ff..ff, +-1 '
             'around the counter; pack with gc; reopen with/without index) -- non-trivial = the history stores/'
             'restores an oid above the counter, or reopens; B: DemoStorage over populated bases with colliding '
             'draws; C: Connection programs (add, savepoint, rollback, import, reopen); D: scheduler runs with '
             'line-granular preemption inside new_oid/set_max_oid/store (each schedule distinct); distinct by hash',
        assumptions=[
            'ORACLE-ONLY sections (real code vs the freshness oracle, not the Lean counter model): B DemoStorage '
            'histories, C Connection programs, D scheduler runs / directed line-level probes / plain threads; section A '
            'is compared with the model (Drivers/Oid.lean) on every storage variant: FileStorage plain / blob_dir / '
            'BlobStorage proxy / HexStorage / ZODB.config-built, MappingStorage plain / HexStorage / config / '
            'BlobStorage proxy; half of the generated histories run as interleaved pairs of live storages',
            'every storage operation is one critical section of the storage lock (checked in D with line-granular '
            'preemption: a new_oid that does not hold the lock produces duplicates there)',
            'oids are 8-byte strings; comparison of 8-byte strings is numeric comparison',
            'pack: the set of surviving oids is read from the real storage and given to the model (the counter '
            'does not depend on it)',
            'DemoStorage draw streams never propose an oid whose newest record is an un-creation (excluded point, '
            'probe C20:new-oid-uncreated-reissued)'])


if __name__ == '__main__':
    try:
        main()
    except InfraError as e:
        print('INFRA-ERROR', e)
        sys.exit(2)
