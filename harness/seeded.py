"""Coordinator helper: evaluate seeded property-breaking changes (seeded/<id>/{patch.diff,demo.py,meta.json}).

For each seeded change: apply the patch in a scratch worktree of /repo (never in /repo itself),
  1. confirm it: pinned suite still passes there, demo exits 0 on /repo and 1 on the patched tree;
  2. run the quick (optionally thorough) check of the property it breaks with ZODB_REPO=<worktree>
     and record whether it printed a VIOLATION line (caught) or exited 0 (missed);
  3. remove the worktree.
Results go to seeded/RESULTS.json (and a table on stdout).  Not a registered check.

usage: seeded.py [--confirm] [--tier quick] [--also C04,C01] [ids…]   (ids = directory names under seeded/)
"""
import argparse
import json
import os
import shutil
import subprocess
import sys
import time

VERIF = os.path.dirname(os.path.dirname(os.path.abspath(__file__)))
SEEDED = os.path.join(VERIF, 'seeded')
PY = '/venv/bin/python'


def sh(cmd, cwd=None, env=None, timeout=3600):
    p = subprocess.run(cmd, cwd=cwd, env=env, capture_output=True, text=True, timeout=timeout)
    return p.returncode, p.stdout + p.stderr


def evaluate(name, confirm, tier, also):
    d = os.path.join(SEEDED, name)
    meta = json.load(open(os.path.join(d, 'meta.json')))
    pid = meta['property']
    wt = '/tmp/seed-wt-%s' % name
    if os.path.exists(wt):
        sh(['git', '-C', '/repo', 'worktree', 'remove', '--force', wt])
    rc, out = sh(['git', '-C', '/repo', 'worktree', 'add', '--detach', wt, 'HEAD'])
    if rc:
        return dict(name=name, property=pid, error='worktree: ' + out[-300:])
    res = dict(name=name, property=pid, title=meta.get('title'))
    if os.path.exists(os.path.join(d, 'OBSOLETE')):     # neutralised by a later fix: commit (kept for the record)
        res['obsolete'] = open(os.path.join(d, 'OBSOLETE')).read().strip()
    try:
        rc, out = sh(['git', '-C', wt, 'apply', os.path.join(d, 'patch.diff')])
        if rc:      # /repo moved on (later fix: commits): try a 3-way merge, then a rebased copy
            rc, out = sh(['git', '-C', wt, 'apply', '--3way', os.path.join(d, 'patch.diff')])
            res['patch_applied'] = '3way'
        if rc and os.path.exists(os.path.join(d, 'patch.rebased.diff')):
            sh(['git', '-C', wt, 'reset', '--hard', '-q', 'HEAD'])
            rc, out = sh(['git', '-C', wt, 'apply', os.path.join(d, 'patch.rebased.diff')])
            res['patch_applied'] = 'rebased'
        if rc:
            res['error'] = 'patch does not apply: ' + out[-300:]
            return res
        env = dict(os.environ, PYTHONPATH=wt + '/src')
        if confirm:
            rc, out = sh([PY, '-m', 'pytest', '-q', '-p', 'no:cacheprovider', '--timeout=900'], cwd=wt, env=env)
            tail = [l for l in out.splitlines() if ' passed' in l or ' failed' in l]
            res['tests'] = tail[-1].strip() if tail else out[-200:]
            rc0, _ = sh([PY, os.path.join(d, 'demo.py')], env=dict(os.environ, PYTHONPATH='/repo/src'), timeout=600)
            rc1, _ = sh([PY, os.path.join(d, 'demo.py')], env=env, timeout=600)
            res['demo_unpatched_exit'], res['demo_patched_exit'] = rc0, rc1
        res['checks'] = {}
        for p in [pid] + [a for a in also if a != pid]:
            if not os.path.exists(os.path.join(VERIF, 'harness', 'registry.d', p + '.json')):
                res['checks'][p] = 'no-check-yet'
                continue
            t0 = time.time()
            rc, out = sh(['./check', p, '--tier', tier], cwd=VERIF,
                         env=dict(os.environ, ZODB_REPO=wt, VERIF_SEED='0', VERIF_OUT=wt + '-out'), timeout=3600)
            vio = [l for l in out.splitlines() if l.startswith('VIOLATION')]
            res['checks'][p] = dict(exit=rc, caught=bool(vio) and rc == 1, line=(vio[0] if vio else ''),
                                    wall=round(time.time() - t0, 1), tail=out[-300:] if rc not in (0, 1) else '')
            if vio:
                # keep the replay's one-line description
                try:
                    rp = vio[0].split('replay=')[1].split()[0]
                    r = json.load(open(rp))
                    res['checks'][p]['signature'] = r.get('signature')
                    res['checks'][p]['what'] = (r.get('what') or '')[:300]
                except Exception:
                    pass
    finally:
        sh(['git', '-C', '/repo', 'worktree', 'remove', '--force', wt])
        shutil.rmtree(wt, ignore_errors=True)
        shutil.rmtree(wt + '-out', ignore_errors=True)
    return res


def main():
    ap = argparse.ArgumentParser()
    ap.add_argument('--confirm', action='store_true')
    ap.add_argument('--tier', default='quick')
    ap.add_argument('--also', default='')
    ap.add_argument('ids', nargs='*')
    a = ap.parse_args()
    names = a.ids or sorted(n for n in os.listdir(SEEDED) if os.path.isdir(os.path.join(SEEDED, n)))
    rp = os.path.join(SEEDED, 'RESULTS.json')
    import fcntl
    lock = open(os.path.join(SEEDED, '.results.lock'), 'w')
    for n in names:
        r = evaluate(n, a.confirm, a.tier, [x for x in a.also.split(',') if x])
        fcntl.flock(lock, fcntl.LOCK_EX)        # several evaluations may run side by side
        results = json.load(open(rp)) if os.path.exists(rp) else {}
        old = results.get(n, {})
        for k in ('tests', 'demo_unpatched_exit', 'demo_patched_exit'):
            if k not in r and k in old:
                r[k] = old[k]
        for p, v in old.get('checks', {}).items():       # keep earlier results of other properties' checks
            r.setdefault('checks', {}).setdefault(p, v)
        results[n] = r
        c = r.get('checks', {}).get(r['property'])
        print('%-10s %-4s %-60s %s' % (n, r['property'], (r.get('title') or '')[:60],
                                       r.get('error') or (('CAUGHT ' + str(c.get('signature'))) if isinstance(c, dict) and c['caught']
                                                          else ('MISSED exit=%s' % (c.get('exit') if isinstance(c, dict) else c)))))
        sys.stdout.flush()
        with open(rp + '.tmp', 'w') as f:
            json.dump(results, f, indent=1)
        os.replace(rp + '.tmp', rp)
        fcntl.flock(lock, fcntl.LOCK_UN)


if __name__ == '__main__':
    main()
