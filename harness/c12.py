"""C12 — Savepoint rollback restores the savepoint state exactly, any number of times.
Correspondence: random programs mixing modify / link / add / savepoint / rollback i / commit / abort on the
real ZODB.Connection (transaction.savepoint(), sp.rollback()) and on the Lean model (Drivers/Conn.lean);
direct oracle: snapshot-of-values model (c11_lib.Oracle: copy of all member values at savepoint; rollback
restores the copy and un-adds later-created objects); a second connection reads after every program."""
import os
import sys

sys.path.insert(0, os.path.dirname(os.path.abspath(__file__)))
from common import InfraError  # noqa: E402
import c11_lib  # noqa: E402


def main(argv=None):
    ck = c11_lib.run_check('C12', argv)
    ck.finish(
        rule='seeded random programs (6-36 ops + final reads by both connections) over 4-7 objects on mapping, file '
             'and demo storage: modify, link/unlink, conn.add, read, transaction.savepoint(), rollback of the i-th '
             'savepoint (valid and invalidated ones), commit, abort, occasionally a commit of a second connection '
             '(conflict while the savepoint store is replayed) or a commit with an injected failure, reads of a '
             'second connection; every fifth case is a structured scenario with random objects/values/filler '
             '(replay conflict, object first saved by a later savepoint, repeated rollbacks around creation, '
             'savepoint before joining, abort after savepoints, explicit add, an object that reloads itself when '
             'invalidated, a commit whose own checkpoint fails on an unpicklable object after an earlier savepoint); '
             'plus 60 (thorough: 2000) programs of the blob family (blobs in containers, open modes w/a/r+, '
             'savepoint, rollback, cacheMinimize between savepoint and commit, commit, abort, reads of a second '
             'connection, and a second WORKING connection of the process whose transaction overlaps and holds blob '
             'data in savepoints too; oracle only); a scenario with equally long records of different objects '
             'around a rollback; corpus first (the reproduced TmpStore.reset defect); non-trivial = at least 2 successful '
             'rollbacks, one of them to a savepoint older than a later savepoint; distinct by hash of the case',
        assumptions=['generalisation pass: same storage kinds / DB options / explicit managers / extra ops as C11 (see '
                     'there); family readcur (readCurrent on COMMITTED objects with a second connection committing in '
                     'between, savepoints and rollbacks: ConflictError / ReadConflictError / success decided by the '
                     'oracle; a declaration is never withdrawn by a rollback) is judged by its own oracle alone',
                     'finding C12:savepoint-created-object-ghostified-on-abort (an object created in a savepoint and modified '
                     'later lost its state on abort / rollback to an earlier savepoint) is fixed in /repo; the model is '
                     'of the repaired _abort; the signature stays as a regression (saved in a savepoint, modified since '
                     'the last one, then un-added without state; corpus case 13); with a tiny cache the cache GC inside '
                     'savepoint() ghostifies saved NEW objects, un-adding such a ghost loses its state by a different '
                     'mechanism: tolerated, like un-adding after cacheMinimize',
                     'the blob family is judged by the oracle alone (bytes per blob; savepoint = copy, rollback = '
                     'restore); the blob FILES of the storage are the subject of C13',
                     'objects that reload themselves on invalidation (persistent classes, self-activating objects) '
                     'are not in the Lean model: the cases containing one are judged by the oracle alone '
                     '(counted as oracle-only:self-activating-object)',
                     'the Lean theorems of Props/C12.lean are about programs of one connection without injected '
                     'failures; programs with a second connection or failing commits are covered by the differential '
                     'run (the model handles them: C11) and the oracle'])


if __name__ == '__main__':
    try:
        main()
    except InfraError as e:
        print('INFRA-ERROR', e)
        sys.exit(2)
