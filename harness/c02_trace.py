"""C02 model tie: map a scheduled run of the real code to an action trace of the Lean MVCC model.

Every model action is emitted at a point INSIDE the critical section it abstracts (scheduler hooks
fire at lock 'acquired' / 'release' events, before the thread can be preempted), so the order of the
emitted lines is a linearisation of the real interleaving:

  new           adapter lock acquired in MVCCAdapter.new_instance
  open/close i  Connection.open / Connection.close (thread-local w.r.t. the model)
  pollread i    storage lock acquired by lastTransaction() inside poll_invalidations
  pollapply i   instance lock acquired inside poll_invalidations   (expect: start, drained oids)
  read i oid    cache hit: at the access; load: FilePool reader registered (FileStorage) / storage
                lock acquired (MappingStorage) inside loadBefore   (expect: hit|load, serial, value)
  invalall j    instance lock of j acquired inside _invalidateCache (MVCCAdapter.invalidateCache)
  write i oid v assignment in the harness program
  begin i tid   storage lock acquired after the commit lock in tpc_begin (tid assigned there)
  abort i       commit lock released outside a finish section / tm.abort()
  store,vote,enter   entry of MVCCAdapter._invalidate_finish (inside the storage lock)
  begin x tid   the same for a transactional undo (UndoAdapterInstance: external committer whose
                invalidations go to ALL instances; `store [oid:earlier value,…]`)
  deliver j     instance lock of j acquired inside _invalidate
  publish       final release of the storage lock by tpc_finish

The model driver replays the lines; a line the model blocks, or an expectation it does not meet
(start bound, drained invalidations, hit/load, serial, value), is a model/implementation mismatch.
"""
import contextlib
from common import run_driver, InfraError


class Tracer:
    def __init__(self, run):
        self.run = run
        self.ops = []          # [line or list-of-tokens placeholder]
        self.expect = []       # parallel: None | str | dict
        self.ctx = {}
        self.ids = {}          # id(instance) -> model index
        self.keep = []         # keep instances alive so id() stays unique
        self.nnew = 0
        self.pending = {}      # model idx -> {oid: val}
        self.db = self.st = None
        self.roles = {}
        self.log = []          # [(tid, {oid: val})] what the traced commits wrote (harness knowledge)
        self.fresh_cache = set()   # model instances whose next poll follows a resetCaches() re-open

    # ---- set-up
    def attach(self, db, st):
        self.db, self.st = db, st
        self.roles['storage'] = st._lock.role
        self.roles['commit'] = st._commit_lock.role
        self.roles['adapter'] = db._mvcc_storage._lock.role
        self.roles['pool'] = st._files._cond.role if hasattr(st, '_files') else None

    def c(self, t):
        return self.ctx.setdefault(t, {})

    def emit(self, line, expect=None):
        self.ops.append(line)
        self.expect.append(expect)
        return len(self.ops) - 1

    def idx(self, inst):
        return self.ids.get(id(inst))

    def conn_idx(self, conn):
        return self.idx(conn._normal_storage)       # (_storage is the TmpStore while savepoints exist)

    def lines(self):
        return [l if isinstance(l, str) else ' '.join(str(x) for x in l) for l in self.ops]

    # ---- scheduler hook
    def hook(self, t, kind, role):
        c = self.ctx.get(t)
        if not c:
            return
        from ZODB.utils import u64
        R = self.roles
        if c.get('new') and kind == 'acquired' and role == R.get('adapter'):
            inst = c.get('new_inst')
            self.ids[id(inst)] = self.nnew
            self.keep.append(inst)
            self.emit('new', 'inst=%d' % self.nnew)
            self.nnew += 1
            c['new'] = False
            return
        p = c.get('poll')
        if p:
            inst, phase = p
            if phase == 'read' and kind == 'acquired' and role == R.get('storage'):
                self.emit('pollread %d' % self.idx(inst), 'polled=%d' % u64(self.st._ltid))
                c['poll'] = (inst, 'apply')
                return
            if phase == 'apply' and kind == 'acquired' and role == inst._lock.role:
                inv = inst._invalidations
                s = 'all' if inv is None else '[' + ','.join(str(o) for o in sorted(u64(o) for o in inv)) + ']'
                k = self.emit('pollapply %d' % self.idx(inst), None)
                c['poll'] = (inst, ('applied', k, s))
                return
            if isinstance(phase, tuple) and kind == 'release' and role == inst._lock.role:
                _, k, s = phase
                if self.idx(inst) in self.fresh_cache:      # the model empties the cache via "inval=all"
                    self.fresh_cache.discard(self.idx(inst))
                    s = 'all'
                self.expect[k] = 'start=%d inval=%s' % (u64(inst._start), s)
                c['poll'] = (inst, 'done')
                return
        l = c.get('load')
        if l and l['state'] == 'wait':
            if (R.get('pool') and kind == 'release' and role == R['pool']) or \
               (not R.get('pool') and kind == 'acquired' and role == R.get('storage')):
                l['k'] = self.emit('read %d %d' % (self.idx(l['inst']), l['oid']), None)
                l['state'] = 'done'
                return
        ia = c.get('invalall')
        if ia is not None and kind == 'acquired' and role == ia._lock.role:
            self.emit('invalall %d' % self.idx(ia), 'ok')
            c['invalall'] = None
            return
        d = c.get('deliver')
        if d is not None and kind == 'acquired' and role == d._lock.role:
            self.emit('deliver %d' % self.idx(d), 'ok')
            c['deliver'] = None
            return
        cm = c.get('commit')
        if cm:
            ph = cm['phase']
            if ph == 'start' and kind == 'acquired' and role == R.get('commit'):
                cm['phase'] = 'locked'
            elif ph == 'locked' and kind == 'acquired' and role == R.get('storage'):
                cm['k'] = self.emit(['begin', cm['i'], '?'], 'ok')
                cm['phase'] = 'begun-pending'
            elif ph == 'begun-pending' and kind == 'release' and role == R.get('storage'):
                cm['tid'] = u64(self.st._tid)
                self.ops[cm['k']] = 'begin %s %d' % (cm['i'], cm['tid'])
                cm['phase'] = 'begun'
            elif ph in ('locked', 'begun-pending', 'begun') and kind == 'release' and role == R.get('commit'):
                if ph != 'locked':
                    if cm['i'] == 'x':
                        self.emit('extabort', 'ok')
                    else:
                        self.emit('abort %d' % cm['i'], 'ok')
                        self.pending[cm['i']] = {}
                cm['phase'] = 'aborted'
            elif ph == 'finishing' and ((kind == 'release' and role == R.get('storage')
                                         and self.st._lock.owner is None) or
                                        (kind == 'notify' and R.get('pool') and role == R['pool'])):
                # the data is loadable: the storage lock is free again, or (DemoStorage shares the lock
                # of its changes storage and still holds it) the FilePool writer lets the readers in
                self.emit('publish', 'ok')
                if cm['i'] == 'x':
                    self.log.append((cm['tid'], dict(cm.get('writes', {}))))
                else:
                    self.log.append((cm['tid'], dict(self.pending.get(cm['i'], {}))))
                    self.pending[cm['i']] = {}
                cm['phase'] = 'published'

    # ---- wrappers' call-backs (class-level wrappers installed by `installed`)
    def enter_poll(self, t, inst):
        if self.idx(inst) is not None:
            self.c(t)['poll'] = (inst, 'read')

    def leave_poll(self, t, inst):
        self.c(t)['poll'] = None

    def enter_load(self, t, inst, oid):
        from ZODB.utils import u64
        if self.idx(inst) is not None:
            self.c(t)['load'] = dict(inst=inst, oid=u64(oid), state='wait', k=None)

    def leave_load(self, t, inst, oid, result):
        from ZODB.utils import u64
        l = self.c(t).get('load')
        if l and l['k'] is not None and result is not None:
            self.expect[l['k']] = dict(kind='load', serial=u64(result[1]), val=None)
            self.c(t)['last_load'] = l['k']
        elif l and l['k'] is not None:
            self.expect[l['k']] = 'err:KeyError'        # load raised (POSKeyError / ReadConflictError)
        self.c(t)['load'] = None

    def pre_read(self, t, conn, oid):
        self.c(t)['last_load'] = None

    def post_read(self, t, conn, oid, hit, serial, val):
        i = self.conn_idx(conn)
        c = self.c(t)
        if oid in self.pending.get(i, {}):
            self.emit('read %d %d' % (i, oid), 'own val=%d' % val)
        elif hit:
            self.emit('read %d %d' % (i, oid), dict(kind='hit', serial=serial, val=val))
        elif c.get('last_load') is not None:
            self.expect[c['last_load']]['val'] = val

    def write(self, t, conn, oid, val):
        i = self.conn_idx(conn)
        self.pending.setdefault(i, {})[oid] = val
        self.emit('write %d %d %d' % (i, oid, val), 'ok')

    def abort(self, t, conn):
        i = self.conn_idx(conn)
        self.pending[i] = {}
        self.emit('abort %d' % i, 'ok')

    def pre_commit(self, t, conn):
        pass

    def rollback(self, t, conn, saved):
        """savepoint rollback = the model's abort (all own changes and their cache entries go)
        followed by the changes the savepoint had recorded"""
        i = self.conn_idx(conn)
        self.emit('abort %d' % i, 'ok')
        self.pending[i] = {}
        for oid in sorted(saved):
            self.pending[i][oid] = saved[oid]
            self.emit('write %d %d %d' % (i, oid, saved[oid]), 'ok')

    def post_commit(self, t, conn):
        self.c(t)['commit'] = None

    def storage_tpc_begin(self, t, inst):
        if self.idx(inst) is not None:
            self.c(t)['commit'] = dict(i=self.idx(inst), phase='start')

    def pre_undo(self, t, tids):
        self.c(t)['undo_tids'] = list(tids)

    def undo_tpc_begin(self, t):
        self.c(t)['commit'] = dict(i='x', phase='start', undo_tids=self.c(t).get('undo_tids') or [])

    def undone_value(self, oid, tids):
        """value `oid` gets back: the one before the (earliest) undone transaction that wrote it"""
        written = [t for t, w in self.log if t in tids and oid in w]
        return self.value_before(oid, min(written)) if written else None

    def value_before(self, oid, tid):
        v = None
        for t, w in self.log:
            if t < tid and oid in w:
                v = w[oid]
        return v

    def enter_finish_callback(self, t, oids=()):
        from ZODB.utils import u64
        cm = self.c(t).get('commit')
        if cm and cm['phase'] == 'begun':
            if cm['i'] == 'x':          # transactional undo: the undone oids get their earlier values back
                w = {}
                for o in sorted(u64(x) for x in oids):
                    w[o] = self.undone_value(o, cm['undo_tids'])
                cm['writes'] = w
                self.emit('store [%s]' % ','.join('%d:%s' % (o, '-' if v is None else v)
                                                  for o, v in sorted(w.items())), None)
            else:
                self.emit('store []', None)
            self.emit('vote', 'ok')
            self.emit('enter', 'ok')
            cm['phase'] = 'finishing'


@contextlib.contextmanager
def installed(tr):
    """class-level wrappers (harness process only) feeding the tracer; restored on exit"""
    import threading
    import ZODB.mvccadapter as M
    import ZODB.Connection as C

    def tname():
        n = threading.current_thread().name
        return n[6:] if n.startswith('sched-') else None

    A, I, K = M.MVCCAdapter, M.MVCCAdapterInstance, C.Connection
    o_new, o_invfin, o_inv, o_open, o_close = A.new_instance, A._invalidate_finish, I._invalidate, K.open, K.close
    o_begin = I.tpc_begin
    o_ic = I._invalidateCache
    U = M.UndoAdapterInstance
    o_ubegin = U.tpc_begin

    def undo_tpc_begin(self, transaction):
        t = tname()
        if t is not None:
            tr.undo_tpc_begin(t)
        return o_ubegin(self, transaction)

    def _invalidateCache(self):
        t = tname()
        if t is not None and tr.idx(self) is not None:
            tr.c(t)['invalall'] = self
        try:
            return o_ic(self)
        finally:
            if t is not None:
                tr.c(t)['invalall'] = None

    def tpc_begin(self, transaction):
        t = tname()
        if t is not None:
            tr.storage_tpc_begin(t, self)
        return o_begin(self, transaction)

    def new_instance(self):
        t = tname()
        if t is None:
            return o_new(self)
        c = tr.c(t)
        c['new'] = True
        try:
            return o_new(self)
        finally:
            c['new'] = False
            c['new_inst'] = None

    o_init = I.__init__

    def inst_init(self, base):
        t = tname()
        if t is not None:
            tr.c(t)['new_inst'] = self
        return o_init(self, base)

    def _invalidate_finish(self, tid, oids, committing_instance):
        t = tname()
        if t is not None:
            tr.enter_finish_callback(t, oids)
        return o_invfin(self, tid, oids, committing_instance)

    def _invalidate(self, tid, oids):
        t = tname()
        if t is not None and tr.idx(self) is not None:
            tr.c(t)['deliver'] = self
        try:
            return o_inv(self, tid, oids)
        finally:
            if t is not None:
                tr.c(t)['deliver'] = None

    def open(self, transaction_manager=None, delegate=True):
        t = tname()
        if t is not None and tr.idx(self._storage) is not None:
            if self._reset_counter != C.global_reset_counter:
                # resetCaches(): this open starts a new, empty cache = everything invalidated
                tr.emit('invalall %d' % tr.idx(self._storage), 'ok')
                tr.fresh_cache.add(tr.idx(self._storage))
            tr.emit('open %d' % tr.idx(self._storage), 'ok')
        return o_open(self, transaction_manager, delegate)

    def close(self, primary=True):
        t = tname()
        if t is not None and self._storage is not None and tr.idx(self._storage) is not None \
                and self.opened is not None:
            tr.emit('close %d' % tr.idx(self._storage), 'ok')
        return o_close(self, primary)

    A.new_instance, A._invalidate_finish, I._invalidate, K.open, K.close = \
        new_instance, _invalidate_finish, _invalidate, open, close
    I.tpc_begin = tpc_begin
    I.__init__ = inst_init
    I._invalidateCache = _invalidateCache
    U.tpc_begin = undo_tpc_begin
    try:
        yield
    finally:
        A.new_instance, A._invalidate_finish, I._invalidate, K.open, K.close = \
            o_new, o_invfin, o_inv, o_open, o_close
        I.tpc_begin = o_begin
        I.__init__ = o_init
        I._invalidateCache = o_ic
        U.tpc_begin = o_ubegin


def check_line(op, exp, got):
    """None if the model's observation meets the expectation, else a description"""
    if isinstance(exp, str) and exp.startswith('err:'):
        return None if got == exp else 'impl %s, model %s' % (exp, got)
    if got in ('blocked', 'bad-op') or got.startswith('err:'):
        return 'model says %s' % got
    if exp is None:
        return None
    if isinstance(exp, str):
        return None if got == exp else 'impl %s, model %s' % (exp, got)
    want = '%s serial=%d' % (exp['kind'], exp['serial'])
    if exp['kind'] == 'load' and got.startswith('hit '):
        # the code may hold FEWER objects in its cache than the model (ghostified blobs / resolved
        # objects after a commit): a load where the model has a hit is fine if it is the same revision
        got = 'load ' + got[4:]
    if exp.get('val') is not None:
        want += ' val=%d' % exp['val']
        return None if got == want else 'impl %s, model %s' % (want, got)
    return None if got.startswith(want + ' ') or got == want else 'impl %s, model %s' % (want, got)


def compare(ck, traces):
    """replay every mapped trace on the Lean model (ONE driver process) and compare"""
    lines = []
    for case, ops, exp in traces:
        lines.append('reset')
        lines += ops
    out = run_driver('Mvcc', lines, timeout=1200)
    pos = 0
    nlines = 0
    for case, ops, exp in traces:
        got = out[pos + 1: pos + 1 + len(ops)]
        pos += 1 + len(ops)
        nlines += len(ops)
        for k, (op, e, g) in enumerate(zip(ops, exp, got)):
            bad = check_line(op, e, g)
            if bad:
                ck.mismatch('model/impl differ at trace line %d %r: %s' % (k, op, bad),
                            dict(case=case, trace=ops[:k + 1], line=k, model=g,
                                 impl=e if not isinstance(e, dict) else dict(e)))
                break
    ck.count('model-trace-lines', nlines)
    ck.count('model-traces', len(traces))
