"""package holding a resolvable class in a submodule (C06 check): conflict resolution imports the class
by (module, name) with `__import__(module, {}, {}, ['cluck'])`, which must cope with dotted modules"""
