"""RC2: same merge arithmetic as c06_classes.RC, but the class lives in a package submodule and its
`__init__` has a required argument and a side effect (conflict resolution must create the instance
with `__new__` only)"""
from persistent import Persistent

from ZODB.POSException import ConflictError

import c06_classes

INIT_CALLS = []


class RC2(Persistent):
    def __init__(self, v):
        INIT_CALLS.append(v)
        self.v = v

    def _p_resolveConflict(self, old, committed, new):
        c06_classes.CALLS.append((old['v'], committed['v'], new['v']))
        r = c06_classes.rc_resolve(old['v'], committed['v'], new['v'])
        if r is None:
            if (old['v'] + committed['v'] + new['v']) % 2:
                raise AttributeError('no merge rule for this state')
            raise ConflictError
        return {'v': r}
