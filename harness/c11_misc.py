"""C11/C12, family 'misc' (oracle only): less-travelled entry points and boundary objects inside transactions
with savepoints.

One committed source tree root['src'] (a Node with one child).  Ops:
    mod v                  root['src'].v = v
    exp                    conn.exportFile(src) into memory (what the connection's storage holds now: the
                           committed record, or the one a savepoint saved)
    imp | impt             root['i<n>'] = conn.importFile(<the export>) | the same with a TRUNCATED export file:
                           refused (ExportError), the transaction is over (the harness aborts it) and nothing
                           of it may surface later
    bulk m                 root['bulk'] = PList of m new Nodes (thousands of new objects in one commit)
    grow                   root['g'] = GrowNode(): its __getstate__ creates a child while being pickled
    rmjoin                 a resource manager without savepoint support joins the transaction
    sp | spo | rb n        savepoint (refused when such a manager is joined) | optimistic savepoint | rollback
                           (refused for an optimistic savepoint that covered such a manager); a refusal ends the
                           transaction (the harness aborts it)
    commit | abort
    look | peek            what the connection / an independent connection sees:
                           src=<v> i=<values of the imported copies> bulk=<m> g=<0|1>"""
import io
import os

from c11_lib import errname, make_storage

D4 = 'C11:import:failed-import-poisons-next-commit'


class World6:
    def __init__(self, case, tmpdir, tag):
        import ZODB
        import transaction
        from c11_classes import Node
        self.st = make_storage(case['kind'], tmpdir, tag)
        self.db = ZODB.DB(self.st)
        self.tm = transaction.TransactionManager()
        self.conn = self.db.open(self.tm)
        src = Node()
        src.v = 1
        src.refs = (Node(),)
        self.conn.root()['src'] = src
        self.tm.commit()
        del src
        self.exp = None
        self.nimp = 0
        self.sps = []

    def close(self):
        for f in (self.tm.abort, self.db.close):
            try:
                f()
            except Exception:
                pass

    def describe(self, root, committed=False):
        keys = sorted(k for k in root.keys() if k.startswith('i'))
        g = int('g' in root)
        if g and committed:
            g = int(root['g'].child.v == 0)     # (the child exists once the parent was pickled)
        return 'src=%d i=%s bulk=%d g=%d' % (root['src'].v, ','.join(str(root[k].v) for k in keys),
                                             len(root['bulk']) if 'bulk' in root else 0, g)

    def run_op(self, op):
        import transaction
        from c11_classes import GrowNode, Node, PList, PlainRM
        t = op.split()
        ends = False        # a refused step that ends the transaction: the harness aborts
        try:
            if t[0] == 'mod':
                self.conn.root()['src'].v = int(t[1])
                r = 'ok'
            elif t[0] == 'exp':
                f = io.BytesIO()
                self.conn.exportFile(self.conn.root()['src']._p_oid, f)
                self.exp = f.getvalue()
                r = 'ok'
            elif t[0] in ('imp', 'impt'):
                data = self.exp if t[0] == 'imp' else self.exp[:-20]
                ends = True
                ob = self.conn.importFile(io.BytesIO(data))
                ends = False
                self.nimp += 1
                self.conn.root()['i%04d' % self.nimp] = ob
                r = 'ok'
            elif t[0] == 'bulk':
                self.conn.root()['bulk'] = PList([Node() for _ in range(int(t[1]))])
                r = 'ok'
            elif t[0] == 'grow':
                self.conn.root()['g'] = GrowNode()
                r = 'ok'
            elif t[0] == 'rmjoin':
                self.tm.get().join(PlainRM())
                r = 'ok'
            elif t[0] in ('sp', 'spo'):
                ends = True
                self.sps.append(self.tm.savepoint(t[0] == 'spo'))
                ends = False
                r = 'ok'
            elif t[0] == 'rb':
                if int(t[1]) >= len(self.sps):
                    r = 'err:InvalidSavepoint'
                else:
                    ends = True
                    self.sps[int(t[1])].rollback()
                    ends = False
                    r = 'ok'
            elif t[0] == 'commit':
                self.sps = []
                self.tm.commit()
                r = 'ok'
            elif t[0] == 'abort':
                self.sps = []
                self.tm.abort()
                r = 'ok'
            elif t[0] == 'look':
                r = self.describe(self.conn.root())
            elif t[0] == 'peek':
                tmx = transaction.TransactionManager()
                c = self.db.open(tmx)
                try:
                    r = self.describe(c.root(), True)
                finally:
                    tmx.abort()
                    c.close()
            else:
                r = 'bad-op'
        except Exception as e:
            r = ('fail:' if t[0] == 'commit' else 'err:') + errname(e)
            if t[0] == 'commit' or (ends and errname(e) != 'InvalidSavepoint'):
                self.sps = []
                try:
                    self.tm.abort()
                except Exception:
                    pass
        return r


def run_real(case, tmpdir, tag):
    import shutil
    w = World6(case, tmpdir, tag)
    try:
        return ['ok'] + [w.run_op(op) for op in case['ops']]
    finally:
        w.close()
        shutil.rmtree(os.path.join(tmpdir, 'fs-' + tag), ignore_errors=True)


def fmt(st):
    return 'src=%d i=%s bulk=%d g=%d' % (st['src'], ','.join(map(str, st['i'])), st['bulk'], st['g'])


def copy(st):
    return dict(st, i=list(st['i']))


def judge(case, real):
    com = dict(src=1, i=[], bulk=0, g=0)
    vis = copy(com)
    stored = 1          # the value of src in the storage the connection reads from (savepoint store or database)
    srcdirty = False
    exported = None
    plain = False       # a manager without savepoint support is joined
    sps = []            # (vis, stored, plain at that time, optimistic) or None
    poisoned = False    # a refused import happened since the last successful commit (finding D4)

    def reverted():
        return copy(com), com['src'], False, False, []
    for idx, op in enumerate(case['ops'], 1):
        res = real[idx]
        t = op.split()
        k = t[0]
        if k == 'mod':
            vis['src'] = int(t[1])
            srcdirty = True
            exp = 'ok'
        elif k == 'exp':
            exported = stored
            exp = 'ok'
        elif k == 'imp':
            if exported is None:
                return ('taint', idx)
            # importFile takes an (optimistic) savepoint of the transaction
            if srcdirty:
                stored, srcdirty = vis['src'], False
            vis['i'].append(exported)
            exp = 'ok'
        elif k == 'impt':
            if exported is None:
                return ('taint', idx)
            exp = 'err:Other(ExportError)'
            vis, stored, srcdirty, plain, sps = reverted()
            poisoned = True
        elif k == 'bulk':
            vis['bulk'] = int(t[1])
            exp = 'ok'
        elif k == 'grow':
            vis['g'] = 1
            exp = 'ok'
        elif k == 'rmjoin':
            plain = True
            exp = 'ok'
        elif k in ('sp', 'spo'):
            if plain and k == 'sp':
                exp = 'err:Other(TypeError)'
                vis, stored, srcdirty, plain, sps = reverted()
            else:
                if srcdirty:
                    stored, srcdirty = vis['src'], False
                sps.append((copy(vis), stored, plain, k == 'spo'))
                exp = 'ok'
        elif k == 'rb':
            n = int(t[1])
            if n >= len(sps) or sps[n] is None:
                exp = 'err:InvalidSavepoint'
            elif sps[n][2]:
                exp = 'err:Other(TypeError)'        # the manager without savepoint support cannot roll back
                vis, stored, srcdirty, plain, sps = reverted()
            else:
                vis, stored, srcdirty, plain = copy(sps[n][0]), sps[n][1], False, False
                for m in range(n + 1, len(sps)):
                    sps[m] = None
                exp = 'ok'
        elif k == 'commit':
            com = copy(vis)
            vis, stored, srcdirty, plain, sps = reverted()
            exp = 'ok'
        elif k == 'abort':
            vis, stored, srcdirty, plain, sps = reverted()
            exp = 'ok'
        elif k == 'look':
            exp = fmt(vis)
        elif k == 'peek':
            exp = fmt(com)
        else:
            return ('taint', idx)
        if res != exp:
            if poisoned and k in ('commit', 'sp', 'spo', 'imp') and 'ExportError' in res:
                return (idx, D4, 'op %r returned %r after a refused (truncated) importFile earlier: the aborted '
                                 'import is run again' % (op, res))
            return (idx, 'C11:misc:%s:result' % k, 'op %r returned %r, the property requires %r' % (op, res, exp))
        if k == 'commit':
            poisoned = False
    return None


def gen(rng, kind):
    ops = []
    nsp = 0
    exported = False
    t = rng.random()
    if t < 0.25:        # import inside a transaction with savepoints, rollbacks over it, truncated files
        ops = ['mod 5', 'sp', 'exp', 'imp', 'look', 'mod 6', 'sp', 'imp', 'rb %d' % rng.choice([0, 1]), 'look']
        if rng.random() < 0.5:
            ops += ['impt', 'look', 'mod 7', 'commit', 'peek']
        ops += ['exp', 'imp', rng.choice(['commit', 'abort']), 'peek', 'look']
    elif t < 0.40:      # thousands of new objects in one commit, through a savepoint and a rollback
        m = rng.choice([1500, 2500])
        ops = ['bulk %d' % m, rng.choice(['sp', 'spo', 'look']), 'look', 'mod 3', 'sp', 'bulk 3', 'rb %d' % (0 if rng.random() < 0.5 else 1),
               'look', 'commit', 'peek']
    elif t < 0.55:      # an object that first exists while its parent is pickled
        ops = ['grow', rng.choice(['sp', 'commit', 'look']), 'look', 'mod 4', 'commit', 'peek', 'look']
    elif t < 0.75:      # savepoints with a manager that has no savepoint support
        ops = ['mod 2', rng.choice(['sp', 'spo']), 'rmjoin', 'mod 3', rng.choice(['sp', 'spo', 'spo']), 'mod 4',
               'rb %d' % rng.choice([0, 1]), 'look', 'mod 5', 'commit', 'peek']
    else:
        for _ in range(rng.choice([6, 10, 14])):
            r = rng.random()
            if r < 0.2:
                ops.append('mod %d' % rng.randrange(2, 10))
            elif r < 0.3:
                ops.append('exp')
                exported = True
            elif r < 0.42 and exported:
                ops.append(rng.choice(['imp', 'imp', 'impt']))
            elif r < 0.47:
                ops.append('bulk %d' % rng.choice([0, 1, 70]))
            elif r < 0.52:
                ops.append('grow')
            elif r < 0.57:
                ops.append('rmjoin')
            elif r < 0.70:
                ops.append(rng.choice(['sp', 'spo']))
                nsp += 1
            elif r < 0.80 and nsp:
                ops.append('rb %d' % rng.randrange(nsp))
            elif r < 0.88:
                ops.append('commit')
                nsp = 0
            elif r < 0.93:
                ops.append('abort')
                nsp = 0
            else:
                ops.append('look')
        ops += ['look', 'commit', 'peek', 'look']
    return dict(kind=kind, n=1, ops=ops, family='misc')
