"""Maintenance helper (coordinator only, never run by a check): refresh the `commit` of every
fixed finding in known_findings.json from /repo's git log by matching the `subject` substring."""
import json
import os
import subprocess

VERIF = os.path.dirname(os.path.dirname(os.path.abspath(__file__)))
p = os.path.join(VERIF, 'known_findings.json')
d = json.load(open(p))
log = subprocess.run(['git', '-C', '/repo', 'log', '--format=%h %s'], capture_output=True,
                     text=True).stdout.splitlines()
for f in d['findings']:
    if f['status'] != 'fixed':
        continue
    sub = f.get('subject')
    if not sub:
        old = f['commit']
        hit = [l for l in log if l.startswith(old)]
        if hit:
            f['subject'] = hit[0].split(' ', 1)[1][:60]
            continue
        print('NO SUBJECT for', f['signature'])
        continue
    hit = [l for l in log if sub in l]
    if len(hit) != 1:
        print('ambiguous/missing', sub, hit)
        continue
    new = hit[0].split()[0]
    if new != f['commit']:
        f['what'] = f['what'].replace(f['commit'], new)
        f['commit'] = new
json.dump(d, open(p, 'w'), indent=1)
print('ok', len(d['findings']))
