"""Persistent classes used by the C03 / C10 correspondence checks.

They live in an importable module because conflict resolution re-imports the class of the
conflicting record by (module, name) (`ConflictResolution.find_global`).

The state of every instance IS its tree `v` (ints, 2-tuples, references to persistent objects), so
that the model's `Tree` and the pickled state correspond one to one.  Every `_p_resolveConflict`
appends its three arguments (rendered by `c03_lib.lstate_wire`) to `CALLS` before doing anything.
"""
import persistent
from ZODB.POSException import ConflictError

CALLS = []          # [(cid, old_wire, committed_wire, new_wire)]
RENDER = [None]     # set by c03_lib: function(state) -> wire string of a loaded state


def _log(cid, old, committed, new):
    r = RENDER[0]
    CALLS.append((cid, r(old), r(committed), r(new)))


class Tree(persistent.Persistent):
    """base: state = the tree itself"""
    CID = None

    def __init__(self, v=0):
        self.v = v

    def __getstate__(self):
        return self.v

    def __setstate__(self, v):
        self.v = v


class Plain(Tree):
    """no `_p_resolveConflict`"""
    CID = 2


class Counter(Tree):
    """resolvable counter: merged = committed + (new - old), never below zero (the model works in
    natural numbers with truncated subtraction)"""
    CID = 1

    def _p_resolveConflict(self, old, committed, new):
        _log(self.CID, old, committed, new)
        return max(committed + new - old, 0)


class Raises(Tree):
    CID = 3

    def _p_resolveConflict(self, old, committed, new):
        _log(self.CID, old, committed, new)
        raise RuntimeError('resolver failed on purpose')


class Conflicts(Tree):
    CID = 4

    def _p_resolveConflict(self, old, committed, new):
        _log(self.CID, old, committed, new)
        raise ConflictError('resolver refuses on purpose')


class Merge11(Tree):
    """returns a seeded deterministic function of the three arguments that contains all of them"""
    CID = 11
    SEED = 11

    def _p_resolveConflict(self, old, committed, new):
        _log(self.CID, old, committed, new)
        return (self.SEED, (old, (committed, new)))


class Merge12(Merge11):
    CID = 12
    SEED = 12


class Moody(Tree):
    """resolver that raises AttributeError ITSELF when the wanted state is 13, and merges otherwise:
    a failing call must not make the class unresolvable for later conflicts"""
    CID = 15
    SEED = 15

    def _p_resolveConflict(self, old, committed, new):
        _log(self.CID, old, committed, new)
        if isinstance(new, int) and new == 13:
            raise AttributeError('resolver looked up a missing attribute on purpose')
        return (self.SEED, (old, (committed, new)))


class NeedsArg(Merge11):
    """resolvable; `__init__` has a REQUIRED parameter: resolution must build its throw-away instance
    with `klass.__new__(klass, *newargs)`, never by calling the class"""
    CID = 16
    SEED = 16

    def __init__(self, v):
        self.v = v


class NeedsArgNew(NeedsArg):
    """the same with `__getnewargs__` (records carry a (class, args) tuple)"""
    CID = 17
    SEED = 17

    def __getnewargs__(self):
        return ()


INITS = []          # constructor runs of SideEffect


class SideEffect(Merge11):
    """resolvable; its constructor has a visible side effect (must not run during resolution)"""
    CID = 18
    SEED = 18

    def __init__(self, v=0):
        INITS.append(1)
        self.v = v


class Zähler(Merge11):
    """resolvable class with a non-ASCII name (the class global in the pickle is UTF-8)"""
    CID = 22
    SEED = 22


class Größe(Tree):
    """non-ASCII name, NO resolver: the conflict must end in ConflictError (whose constructor reads
    the class name out of the pickle), not in a decoding error"""
    CID = 23


class NewArgs(Merge11):
    """class with `__getnewargs__`: references to its instances are pickled as a bare oid and its
    records carry a (class, args) tuple as meta data"""
    CID = 13
    SEED = 13

    def __getnewargs__(self):
        return ()


class PlainNewArgs(Tree):
    """no resolver, `__getnewargs__` (bare-oid reference target)"""
    CID = 14

    def __getnewargs__(self):
        return ()


from c10_pkg.sub.classes import DeepMerge  # noqa: E402,F401  (resolvable class in a package submodule)


def _instrument_length():
    """BTrees.Length.Length (a library class in a dotted module, state = an int) with its resolver
    wrapped: arguments logged, result kept non-negative like `Counter` (the model works in naturals)"""
    import BTrees.Length
    orig = BTrees.Length.Length._p_resolveConflict
    if getattr(orig, '_c10', False):
        return

    def _p_resolveConflict(self, old, s1, s2):
        _log(21, old, s1, s2)
        return max(orig(self, old, s1, s2), 0)
    _p_resolveConflict._c10 = True
    BTrees.Length.Length._p_resolveConflict = _p_resolveConflict


_instrument_length()
from BTrees.Length import Length  # noqa: E402,F401

# cid -> (module, name, importable, has_resolver, behaviour for the model driver)
GONE_CID = 9            # c10_classes.Gone does not exist: records of it are written by hand
GONE2_CID = 8           # nosuchmodule_c10.Gone: module does not exist either
TABLE = {
    1: ('c10_classes', 'Counter', 1, 1, 'k'),
    2: ('c10_classes', 'Plain', 1, 0, 'e'),
    3: ('c10_classes', 'Raises', 1, 1, 'e'),
    4: ('c10_classes', 'Conflicts', 1, 1, 'c'),
    11: ('c10_classes', 'Merge11', 1, 1, 'v11'),
    12: ('c10_classes', 'Merge12', 1, 1, 'v12'),
    13: ('c10_classes', 'NewArgs', 1, 1, 'v13'),
    14: ('c10_classes', 'PlainNewArgs', 1, 0, 'e'),
    15: ('c10_classes', 'Moody', 1, 1, 'm15'),
    16: ('c10_classes', 'NeedsArg', 1, 1, 'v16'),
    17: ('c10_classes', 'NeedsArgNew', 1, 1, 'v17'),
    18: ('c10_classes', 'SideEffect', 1, 1, 'v18'),
    19: ('c10_pkg.sub.classes', 'DeepMerge', 1, 1, 'v19'),
    21: ('BTrees.Length', 'Length', 1, 1, 'k'),
    22: ('c10_classes', 'Zähler', 1, 1, 'v22'),
    23: ('c10_classes', 'Größe', 1, 0, 'e'),
    24: ('c10_classes', 'Fehlt_ä', 0, 0, 'e'),
    25: ('c10_pkg.breaks_on_import', 'Thing', 0, 0, 'e'),     # module exists, import raises ImportError
    9: ('c10_classes', 'Gone', 0, 0, 'e'),
    8: ('nosuchmodule_c10', 'Gone', 0, 0, 'e'),
    20: ('ZODB.tests.MinPO', 'MinPO', 1, 0, 'e'),
}
BY_NAME = {(m, n): cid for cid, (m, n, _, _, _) in TABLE.items()}
